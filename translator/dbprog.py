"""petl/io/db.py: todb / appenddb / _todb / _todb_dbapi_*  ->  coq/gen/DbProgGen.v   (fail-closed).

What is extracted is the PROTOCOL each load function follows on the database handle: which of
    next(it) on the source header, connection.cursor() / mkcurs(), cursor.close(), cursor.execute(<DELETE>),
    cursor.executemany(<INSERT>, it), connection.commit(), connection.rollback()
it performs, in which order, under which of the flags `truncate` / `commit`; how _todb routes the handle kinds to these
functions (and that it forwards commit / truncate unchanged); and what the public wrappers do around it (truncate flag,
sqlite3.connect for a file name, close in a finally clause).

Every statement of the translated functions must be one of the forms below; anything else (a new call on the handle, a
loop, a try block, a commit in a helper) raises TranslationError, i.e. a broken proof obligation.
"""
import ast
from .common import TranslationError, parse_module, find_func, strip_doc

FILE = 'petl/io/db.py'
HANDLE_METHODS = {'execute', 'executemany', 'commit', 'rollback', 'close', 'cursor', 'begin', 'executescript'}
PURE_CALLS = {'_quote', '_placeholders', 'map', 'list', 'text_type', 'debug', 'hasattr', 'iter', 'next', 'join', 'str'}


def _is_name(n, name):
    return isinstance(n, ast.Name) and n.id == name


def _calls_in(node):
    for n in ast.walk(node):
        if isinstance(n, ast.Call):
            yield n


def _call_name(c):
    f = c.func
    if isinstance(f, ast.Name):
        return f.id
    if isinstance(f, ast.Attribute):
        return f.attr
    return None


def _pure_expr(item, node):
    """No call that could touch the database handle or the source."""
    for c in _calls_in(node):
        nm = _call_name(c)
        if nm in HANDLE_METHODS or nm in ('next', 'iter', 'mkcurs'):
            raise TranslationError(item, 'unexpected call to %s in an expression treated as pure' % nm, c)
        if nm not in PURE_CALLS:
            raise TranslationError(item, 'unknown call %s' % nm, c)
    return True


def _method_call(node, obj, meth):
    return (isinstance(node, ast.Call) and isinstance(node.func, ast.Attribute) and node.func.attr == meth
            and _is_name(node.func.value, obj))


def _translate_body(item, stmts, cursor_src, state):
    """-> list of Coq action terms. cursor_src: the expression that yields a cursor ('connection.cursor()' or 'mkcurs()')."""
    out = []
    for st in stmts:
        # debug(...) and bare docstrings / comments
        if isinstance(st, ast.Expr) and isinstance(st.value, ast.Constant):
            continue
        if isinstance(st, ast.Expr) and isinstance(st.value, ast.Call) and _call_name(st.value) == 'debug':
            for a in st.value.args:
                _pure_expr(item, a)
            continue
        if isinstance(st, ast.Assert):
            _pure_expr(item, st.test)
            continue
        if isinstance(st, ast.Assign) and len(st.targets) == 1 and isinstance(st.targets[0], ast.Name):
            tgt = st.targets[0].id
            v = st.value
            if tgt == 'it':
                if ast.dump(v) != ast.dump(ast.parse('iter(table)').body[0].value):
                    raise TranslationError(item, 'expected it = iter(table)', st)
                state['it'] = True
                continue
            if tgt == 'hdr':
                if ast.dump(v) != ast.dump(ast.parse('next(it)').body[0].value) or not state.get('it'):
                    raise TranslationError(item, 'expected hdr = next(it) after it = iter(table)', st)
                out.append('APullHeader')
                continue
            if tgt == 'cursor':
                if ast.dump(v) not in [ast.dump(ast.parse(s).body[0].value) for s in cursor_src]:
                    raise TranslationError(item, 'unexpected way to obtain a cursor', st)
                out.append('ACursor')
                continue
            if tgt == 'connection':
                if ast.dump(v) != ast.dump(ast.parse('cursor.connection').body[0].value):
                    raise TranslationError(item, 'unexpected assignment to connection', st)
                continue
            if tgt == 'truncatequery':
                if ast.dump(v) != ast.dump(ast.parse('SQL_TRUNCATE_QUERY % tablename').body[0].value):
                    raise TranslationError(item, 'truncate query is not SQL_TRUNCATE_QUERY % tablename', st)
                state['truncatequery'] = True
                continue
            if tgt == 'insertquery':
                if ast.dump(v) != ast.dump(ast.parse('SQL_INSERT_QUERY % (tablename, insertcolnames, placeholders)').body[0].value):
                    raise TranslationError(item, 'insert query is not SQL_INSERT_QUERY % (...)', st)
                state['insertquery'] = True
                continue
            if tgt in ('tablename', 'flds', 'colnames', 'placeholders', 'insertcolnames'):
                _pure_expr(item, v)
                continue
            raise TranslationError(item, 'assignment to unexpected name %s' % tgt, st)
        if isinstance(st, ast.If):
            if st.orelse:
                raise TranslationError(item, 'else branch not expected', st)
            if ast.dump(st.test) == ast.dump(ast.parse('schema is not None').body[0].value):
                sub = _translate_body(item, st.body, cursor_src, state)
                if sub:
                    raise TranslationError(item, 'database action under `if schema is not None`', st)
                continue
            if _is_name(st.test, 'truncate'):
                out.append('AIf FTruncate [%s]' % '; '.join(_translate_body(item, st.body, cursor_src, state)))
                continue
            if _is_name(st.test, 'commit'):
                out.append('AIf FCommit [%s]' % '; '.join(_translate_body(item, st.body, cursor_src, state)))
                continue
            raise TranslationError(item, 'unexpected condition', st)
        if isinstance(st, ast.Expr) and isinstance(st.value, ast.Call):
            c = st.value
            if _method_call(c, 'cursor', 'execute'):
                if not (len(c.args) == 1 and _is_name(c.args[0], 'truncatequery') and state.get('truncatequery') and not c.keywords):
                    raise TranslationError(item, 'cursor.execute of something other than the truncate query', st)
                out.append('AExecTruncate')
                continue
            if _method_call(c, 'cursor', 'executemany'):
                if not (len(c.args) == 2 and _is_name(c.args[0], 'insertquery') and _is_name(c.args[1], 'it')
                        and state.get('insertquery') and not c.keywords):
                    raise TranslationError(item, 'cursor.executemany must be (insertquery, it)', st)
                out.append('AExecMany')
                continue
            if _method_call(c, 'cursor', 'close') and not c.args:
                out.append('ACloseCursor')
                continue
            if _method_call(c, 'connection', 'commit') and not c.args:
                out.append('ACommit')
                continue
            if _method_call(c, 'connection', 'rollback') and not c.args:
                out.append('ARollback')
                continue
        raise TranslationError(item, 'statement outside the grammar: %s' % ast.dump(st)[:120], st)
    return out


def _translate_loader(mod, name, handle_arg, cursor_src):
    item = 'petl.io.db.' + name
    fn = find_func(mod.body, name)
    if fn is None:
        raise TranslationError(item, 'missing')
    args = [a.arg for a in fn.args.args]
    if args != ['table', handle_arg, 'tablename', 'schema', 'commit', 'truncate']:
        raise TranslationError(item, 'unexpected signature %r' % args, fn)
    defaults = [ast.dump(d) for d in fn.args.defaults]
    if defaults != [ast.dump(ast.Constant(None)), ast.dump(ast.Constant(True)), ast.dump(ast.Constant(False))]:
        raise TranslationError(item, 'unexpected defaults', fn)
    return _translate_body(item, strip_doc(fn.body), cursor_src, {})


def _dispatch(mod):
    """_todb: which loader serves which handle kind; flags must be forwarded unchanged."""
    item = 'petl.io.db._todb'
    fn = find_func(mod.body, '_todb')
    if fn is None:
        raise TranslationError(item, 'missing')
    body = [s for s in strip_doc(fn.body) if not (isinstance(s, ast.Expr) and isinstance(s.value, ast.Constant))]
    if len(body) != 1 or not isinstance(body[0], ast.If):
        raise TranslationError(item, 'expected a single if-chain', fn)
    routes = {}
    node = body[0]
    while True:
        test = node.test
        if isinstance(test, ast.Call) and isinstance(test.func, ast.Name) and len(test.args) == 1 and _is_name(test.args[0], 'dbo'):
            kind = test.func.id
        else:
            raise TranslationError(item, 'unexpected test in the dispatch chain', node)
        calls = [s for s in node.body if not (isinstance(s, ast.Expr) and isinstance(s.value, ast.Call)
                                              and _call_name(s.value) == 'debug')]
        if len(calls) != 1 or not (isinstance(calls[0], ast.Expr) and isinstance(calls[0].value, ast.Call)
                                   and isinstance(calls[0].value.func, ast.Name)):
            raise TranslationError(item, 'expected exactly one loader call per branch', node)
        c = calls[0].value
        want = ast.parse('f(table, dbo, tablename, schema=schema, commit=commit, truncate=truncate)').body[0].value
        if [ast.dump(a) for a in c.args] != [ast.dump(a) for a in want.args] or \
                [(k.arg, ast.dump(k.value)) for k in c.keywords] != [(k.arg, ast.dump(k.value)) for k in want.keywords]:
            raise TranslationError(item, 'loader call does not forward (table, dbo, tablename, schema, commit, truncate) unchanged', c)
        routes[kind] = c.func.id
        if len(node.orelse) == 1 and isinstance(node.orelse[0], ast.If):
            node = node.orelse[0]
            continue
        if len(node.orelse) == 1 and isinstance(node.orelse[0], ast.Raise):
            break
        raise TranslationError(item, 'dispatch chain must end in raise ArgumentError', node)
    return routes


WRAPPER_TEMPLATE = '''
def {name}({sig}):
    needs_closing = False
    if isinstance(dbo, string_types):
        import sqlite3
        dbo = sqlite3.connect(dbo)
        needs_closing = True
    try:
{create}        _todb(table, dbo, tablename, schema=schema, commit=commit, truncate={trunc})
    finally:
        if needs_closing:
            dbo.close()
'''
CREATE_BLOCK = '''        if create:
            if drop:
                drop_table(dbo, tablename, schema=schema, commit=commit)
            create_table(table, dbo, tablename, schema=schema, commit=commit, constraints=constraints, metadata=metadata, dialect=dialect, sample=sample)
'''


def _wrapper(mod, name, sig, create, trunc):
    item = 'petl.io.db.' + name
    fn = find_func(mod.body, name)
    if fn is None:
        raise TranslationError(item, 'missing')
    want = ast.parse(WRAPPER_TEMPLATE.format(name=name, sig=sig, create=CREATE_BLOCK if create else '', trunc=trunc)).body[0]
    got_body = [s for s in strip_doc(fn.body) if not (isinstance(s, ast.Expr) and isinstance(s.value, ast.Constant))]
    if ast.dump(ast.Module(body=got_body, type_ignores=[])) != ast.dump(ast.Module(body=want.body, type_ignores=[])):
        raise TranslationError(item, 'body differs from: connect when given a file name; try: [create] _todb(..., truncate=%s) '
                                     'finally: close what was opened' % trunc, fn)
    if ast.dump(fn.args) != ast.dump(want.args):
        raise TranslationError(item, 'unexpected signature', fn)


def generate():
    mod, _ = parse_module(FILE)
    routes = _dispatch(mod)
    need = {'_is_dbapi_connection': ('connection', '_todb_dbapi_connection'),
            '_is_dbapi_cursor': ('cursor', '_todb_dbapi_cursor')}
    for test, (kind, fname) in need.items():
        if routes.get(test) != fname:
            raise TranslationError('petl.io.db._todb', '%s is not routed to %s' % (test, fname))
    if routes.get('callable') != '_todb_dbapi_mkcurs':
        raise TranslationError('petl.io.db._todb', 'callable handles are not routed to _todb_dbapi_mkcurs')
    # order matters: a connection must be recognised before the generic `callable` test, a cursor as well
    order = list(routes)
    if not (order.index('_is_dbapi_connection') < order.index('callable') and order.index('_is_dbapi_cursor') < order.index('callable')):
        raise TranslationError('petl.io.db._todb', 'callable is tested before connection / cursor')
    p_conn = _translate_loader(mod, '_todb_dbapi_connection', 'connection', ['connection.cursor()'])
    p_curs = _translate_loader(mod, '_todb_dbapi_cursor', 'cursor', [])
    p_mk = _translate_loader(mod, '_todb_dbapi_mkcurs', 'mkcurs', ['mkcurs()'])
    _wrapper(mod, 'todb',
             "table, dbo, tablename, schema=None, commit=True, create=False, drop=False, constraints=True, metadata=None, "
             "dialect=None, sample=1000", True, 'True')
    _wrapper(mod, 'appenddb', 'table, dbo, tablename, schema=None, commit=True', False, 'False')
    # the SQL text
    consts = {}
    for n in mod.body:
        if isinstance(n, ast.Assign) and len(n.targets) == 1 and isinstance(n.targets[0], ast.Name) \
                and n.targets[0].id in ('SQL_TRUNCATE_QUERY', 'SQL_INSERT_QUERY') and isinstance(n.value, ast.Constant):
            consts[n.targets[0].id] = n.value.value
    if consts.get('SQL_TRUNCATE_QUERY') != 'DELETE FROM %s' or consts.get('SQL_INSERT_QUERY') != 'INSERT INTO %s (%s) VALUES (%s)':
        raise TranslationError('petl.io.db', 'SQL templates changed: %r' % consts)

    def prog(name, acts):
        return 'Definition %s : list action :=\n  [%s].\n' % (name, ';\n   '.join(acts))
    return ('(* GENERATED by translator/dbprog.py from petl/io/db.py — do not edit. *)\n'
            'From Verif Require Import PyVal Db.\n\n'
            + prog('prog_connection', p_conn) + '\n' + prog('prog_cursor', p_curs) + '\n' + prog('prog_mkcurs', p_mk) + '\n'
            + '(* todb: _todb(..., truncate=True); appenddb: _todb(..., truncate=False); both close, in a finally clause, the\n'
              '   connection they opened for a file name; _todb forwards commit / truncate unchanged to the loaders above *)\n'
              'Definition todb_truncate : bool := true.\n'
              'Definition appenddb_truncate : bool := false.\n'
              'Definition filename_closes_in_finally : bool := true.\n')
