"""Regenerate coq/gen/*.v from /repo's current working tree.

Usage: python3 -m translator.gen [--out DIR] [--only name,...]
Prints one JSON object: {"generated": [...], "changed": [...], "failed": {name: message}}.
A failed item leaves the committed reference copy (coq/genref/<name>.v) in place of the
generated file so that the models still build; the caller treats the failure as a broken obligation.
"""
import json
import os
import shutil
import sys

from .common import TranslationError, write_if_changed

HERE = os.path.dirname(os.path.abspath(__file__))
ROOT = os.path.dirname(HERE)


def generators():
    from . import comparable
    gens = {'ComparableGen': comparable.generate}
    try:
        from . import asindices
        gens['AsIndicesGen'] = asindices.generate
    except ImportError:
        pass
    try:
        from . import facts
        gens['Forwarding'] = facts.generate_forwarding
        gens['Catalogue'] = facts.generate_catalogue
    except ImportError:
        pass
    try:
        from . import dbprog
        gens['DbProgGen'] = dbprog.generate
    except ImportError:
        pass
    try:
        from . import streaming
        gens['StreamGen'] = streaming.generate
    except ImportError:
        pass
    try:
        from . import mutation
        gens['MutGen'] = mutation.generate
    except ImportError:
        pass
    try:
        from . import genir
        gens['IRGen'] = genir.generate
    except ImportError:
        pass
    return gens


def main(argv):
    out = os.path.join(ROOT, 'coq', 'gen')
    only = None
    i = 0
    while i < len(argv):
        if argv[i] == '--out':
            out = argv[i + 1]
            i += 2
        elif argv[i] == '--only':
            only = set(argv[i + 1].split(','))
            i += 2
        else:
            raise SystemExit('unknown argument ' + argv[i])
    os.makedirs(out, exist_ok=True)
    res = {'generated': [], 'changed': [], 'failed': {}}
    for name, fn in generators().items():
        if only is not None and name not in only:
            continue
        path = os.path.join(out, name + '.v')
        try:
            text = fn()
        except TranslationError as e:
            res['failed'][name] = str(e)
            ref = os.path.join(ROOT, 'coq', 'genref', name + '.v')
            with open(ref, 'r', encoding='utf-8') as f:
                text = f.read()
        except (SyntaxError, OSError) as e:
            res['failed'][name] = '%s: %s' % (type(e).__name__, e)
            ref = os.path.join(ROOT, 'coq', 'genref', name + '.v')
            with open(ref, 'r', encoding='utf-8') as f:
                text = f.read()
        else:
            res['generated'].append(name)
        if write_if_changed(path, text):
            res['changed'].append(name)
    print(json.dumps(res))
    return 0


if __name__ == '__main__':
    sys.exit(main(sys.argv[1:]))
