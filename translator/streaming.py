"""Effect skeletons of petl's generator functions  ->  coq/gen/StreamGen.v.

For every generator function (module-level `def iterX` and generator methods such as `__iter__`) and every view
constructor `__init__` of the listed modules, the body is abstracted to a GenIR term (coq/model/GenIR.v):

    Pull     next(<source iterator>)              header(t) / fieldnames(t) in a constructor
    For b    for x in <source iterator>: b        yield from <source iterator>  (= For Yield)
    Rep b    any other loop / comprehension whose body has effects
    Yield    yield
    Eager    an eager consumer applied to a source iterator (list, tuple, sorted, set, dict, sum, len, min, max, deque,
             Counter, any, all, join, extend, update, a list/set/dict comprehension over it ...), and ANY call that
             receives a source iterator and is not a known lazy wrapper (fail-safe: unknown means eager)
    Alt / Try / Seq / Ret / Brk / Cont / Skip     control structure

Source iterators are found by a taint analysis: the result of iter(...), of a lazy wrapper (islice, chain, zip, map,
filter, enumerate, zip_longest, generator expressions ...) applied to a tainted value, and every name such a value is
assigned to; parameters named it / lit / rit / its are iterators handed over by a caller.

The classification each function obtains in Coq (wf_map / wf_filter / neither) is compared by the harness with the
committed expectation translator/streaming_expected.json; a function that leaves its class is a broken obligation.
"""
import ast
import json
import os
from .common import TranslationError, parse_module

MODULES = [
    'petl/transform/basics.py', 'petl/transform/conversions.py', 'petl/transform/selects.py', 'petl/transform/headers.py',
    'petl/transform/fills.py', 'petl/transform/maps.py', 'petl/transform/regex.py', 'petl/transform/unpacks.py',
    'petl/transform/reshape.py', 'petl/transform/hashjoins.py', 'petl/transform/setops.py', 'petl/transform/dedup.py',
    'petl/transform/joins.py', 'petl/transform/reductions.py', 'petl/transform/sorts.py', 'petl/transform/validation.py',
    'petl/util/base.py', 'petl/util/vis.py', 'petl/util/materialise.py', 'petl/util/timing.py', 'petl/util/counting.py',
    'petl/util/lookups.py', 'petl/util/misc.py', 'petl/util/parsers.py', 'petl/util/statistics.py', 'petl/util/random.py',
    'petl/io/csv_py3.py', 'petl/io/pickle.py', 'petl/io/text.py', 'petl/io/json.py', 'petl/io/html.py',
]

LAZY = {'islice', 'chain', 'izip', 'zip', 'imap', 'map', 'ifilter', 'filter', 'enumerate', 'izip_longest', 'zip_longest',
        'iter', 'takewhile', 'dropwhile', 'starmap', 'compress', 'ifilterfalse', 'filterfalse', 'from_iterable', 'reversed_lazy'}
EAGER = {'list', 'tuple', 'sorted', 'set', 'frozenset', 'dict', 'sum', 'len', 'min', 'max', 'deque', 'Counter', 'any', 'all',
         'reduce', 'OrderedDict', 'join', 'extend', 'update', 'array', 'fromiter', 'reversed'}
ITER_PARAMS = {'it', 'lit', 'rit', 'its', 'iterable', 'iterator'}
HEADER_READERS = {'header', 'fieldnames', 'keys_from_args', 'natural_key'}
TABLE_PARAMS = {'source', 'table', 'left', 'right', 'lft', 'rgt', 'a', 'b', 'inner', 'wrapped', 'tbl', 'other'}
HARMLESS = {'isinstance', 'callable', 'hasattr', 'id', 'type', 'debug', 'write_source_from_arg', 'read_source_from_arg',
            'super', 'repr', 'str'}
TABLE_COLLS = {'tables', 'sources'}      # parameters holding several table containers
TABLE_LAZY = {'data': 'skip'}       # helpers that return a lazy view of a table container


def _call_name(c):
    f = c.func
    if isinstance(f, ast.Name):
        return f.id
    if isinstance(f, ast.Attribute):
        return f.attr
    return None


class Skel(object):
    """Taint kinds: 'iter1' a lazy 1:1 view of a source iterator; 'skip' a lazy view that may drop rows (islice, filter,
    takewhile, generator expression with a condition); ('multi', m) a view pulling m sources per element (zip of several);
    'coll' a collection of iterators; 'table' a table container (parameter / attribute of self)."""

    def __init__(self, fn, ctor=False):
        self.fn = fn
        self.ctor = ctor
        self.env = {}
        params = [a.arg for a in fn.args.args + fn.args.kwonlyargs]
        if fn.args.vararg:
            params.append(fn.args.vararg.arg)
        self.params = set(params)
        for p in self.params & TABLE_PARAMS:
            self.env[p] = 'table'
        for p in self.params & TABLE_COLLS:
            self.env[p] = 'tcoll'
        if not ctor:
            for p in self.params & ITER_PARAMS:
                self.env[p] = 'coll' if p == 'its' else 'iter1'

    # ---- taint ---------------------------------------------------------------------------------------------------------
    def kind(self, e):
        if isinstance(e, ast.Name):
            return self.env.get(e.id)
        if isinstance(e, ast.Attribute):
            if isinstance(e.value, ast.Name) and e.value.id == 'self':
                # any attribute of the view may hold what it iterates: 'maybe' counts as a source only where it is iterated
                return 'table' if e.attr in TABLE_PARAMS else 'maybe'
            return None
        if isinstance(e, ast.Starred):
            k = self.kind(e.value)
            return ('multi', 99) if k == 'coll' else k
        if isinstance(e, ast.Call):
            nm = _call_name(e)
            ks = [self.kind(a) for a in e.args]
            if nm == 'iter':
                return 'iter1'
            if nm in TABLE_LAZY and ks and ks[0] == 'table':
                return TABLE_LAZY[nm]
            if nm in LAZY:
                ks = ['iter1' if k in ('table', 'maybe') else k for k in ks]   # a lazy wrapper iterates the container it is given
            its = [k for k in ks if k not in (None, 'table', 'maybe')]
            if nm not in LAZY or not its:
                return None
            if any(k == 'coll' or (isinstance(k, tuple)) for k in its):
                return ('multi', 99)
            if nm in ('islice', 'ifilter', 'filter', 'takewhile', 'dropwhile', 'compress', 'ifilterfalse', 'filterfalse'):
                return 'skip'
            if nm in ('zip', 'izip', 'izip_longest', 'zip_longest', 'map', 'imap', 'starmap') and len(its) >= 2:
                return ('multi', len(its))
            return 'skip' if 'skip' in its else 'iter1'
        if isinstance(e, ast.GeneratorExp):
            ks = ['iter1' if self.kind(g.iter) in ('table', 'maybe') else self.kind(g.iter) for g in e.generators]
            its = [k for k in ks if k is not None]
            if not its:
                return None
            if len(e.generators) > 1 or any(g.ifs for g in e.generators):
                return 'skip' if all(k in ('iter1', 'skip') for k in its) else ('multi', 99)
            return its[0] if its[0] != 'coll' else None
        if isinstance(e, (ast.ListComp,)):
            if isinstance(e.elt, ast.Call) and _call_name(e.elt) == 'iter':
                return 'coll'
            return None
        if isinstance(e, (ast.Tuple, ast.List)):
            ks = [self.kind(x) for x in e.elts]
            if any(k in ('iter1', 'skip') or isinstance(k, tuple) for k in ks):
                return 'coll'
            return None
        if isinstance(e, ast.IfExp):
            return self.kind(e.body) or self.kind(e.orelse)
        if isinstance(e, ast.Subscript):
            return 'iter1' if self.kind(e.value) == 'coll' else None
        return None

    def is_iter(self, e):
        k = self.kind(e)
        return k in ('iter1', 'skip') or isinstance(k, tuple)

    def is_src(self, e):
        """an iterator over a source, a collection of them, or a table container"""
        return self.kind(e) not in (None, 'maybe', 'tcoll')

    def truth(self, e):
        """effects of testing the truth value of e: bool() of a table container is len() of it, a full scan"""
        if e is None:
            return []
        if isinstance(e, ast.BoolOp):
            return [x for v in e.values for x in self.truth(v)]
        if isinstance(e, ast.UnaryOp) and isinstance(e.op, ast.Not):
            return self.truth(e.operand)
        if self.kind(e) == 'table':
            return ['Eager']
        return self.expr(e)

    def _targets(self, t):
        if isinstance(t, ast.Name):
            yield t.id
        elif isinstance(t, (ast.Tuple, ast.List)):
            for x in t.elts:
                yield from self._targets(x)
        elif isinstance(t, ast.Starred):
            yield from self._targets(t.value)

    def _set(self, name, k):
        order = {None: 0, 'table': 1, 'iter1': 2, 'coll': 3, 'skip': 4}
        old = self.env.get(name)
        rank = lambda x: 5 if isinstance(x, tuple) else order[x]   # noqa
        if rank(k) > rank(old):
            self.env[name] = k
            return True
        return False

    @staticmethod
    def _rank(x):
        return 5 if isinstance(x, tuple) else {None: 0, 'maybe': 1, 'table': 1, 'tcoll': 1, 'iter1': 2, 'coll': 3, 'skip': 4}[x]

    def _join(self, e1, e2):
        out = dict(e1)
        for k, v in e2.items():
            if self._rank(v) > self._rank(out.get(k)):
                out[k] = v
        return out

    def _assign(self, targets, value):
        """update the environment for `targets = value` (program order)"""
        k = self.kind(value)
        names = [nm for t in targets for nm in self._targets(t)]
        if k in ('table', 'maybe') and isinstance(value, (ast.Attribute, ast.Name)):
            for nm in names:                      # x = self.attr / x = table: x is that container
                self.env[nm] = k
        elif k is not None and k != 'table' and k != 'maybe':
            for nm in names:
                self.env[nm] = k
        elif isinstance(value, ast.Call) and any(self.is_iter(a) for a in value.args) and \
                any(isinstance(t, (ast.Tuple, ast.List)) for t in targets):
            for nm in names:                      # `peek, it = f(it)`: every target may be the iterator
                self.env[nm] = 'skip'
        else:
            for nm in names:
                if self.env.get(nm) not in (None, 'table') and k is None and not isinstance(value, ast.Name):
                    self.env.pop(nm, None)        # rebound to something that is not an iterator

    def _bind_tables(self, target, it):
        if self.kind(it) == 'tcoll' or (isinstance(it, ast.Call) and _call_name(it) in ('enumerate', 'zip', 'reversed')
                                        and any(self.kind(a) == 'tcoll' for a in it.args)):
            for nm in self._targets(target):
                self.env[nm] = 'table'

    def _over_coll(self, e):
        return self.kind(e) == 'coll' or (isinstance(e, ast.Call) and _call_name(e) in ('zip', 'izip', 'enumerate')
                                          and any(self.kind(a) == 'coll' for a in e.args))

    # ---- expressions: effects in evaluation order -------------------------------------------------------------------------
    def expr(self, e):
        out = []
        if e is None:
            return out
        if isinstance(e, (ast.Yield, ast.YieldFrom)):
            if isinstance(e, ast.YieldFrom):
                if self.is_iter(e.value):
                    return [self.loop(e.value, 'Yield')]
                if self.kind(e.value) in ('table', 'maybe'):
                    return ['For (Yield)']
                return self.expr(e.value) + ['Rep (Yield)']
            return self.expr(e.value) + ['Yield']
        if isinstance(e, ast.Call):
            nm = _call_name(e)
            args = list(e.args) + [k.value for k in e.keywords]
            recv = e.func.value if isinstance(e.func, ast.Attribute) else None
            inner = []
            for a in args:
                if not self.is_src(a):
                    inner += self.expr(a)
            if recv is not None and not self.is_src(recv):
                inner += self.expr(recv)
            src_args = [a for a in args if self.is_src(a)]
            if not src_args:
                return inner
            kinds = [self.kind(a) for a in src_args]
            if nm == 'iter' or nm in HARMLESS or nm in TABLE_LAZY:
                return inner
            if (nm in view_funcs() or (nm or '').endswith('View')) and all(k == 'table' for k in kinds):
                return inner                           # constructing another view around the table: lazy by the same theorem
            if nm == 'next':
                k = kinds[0]
                if k == 'iter1':
                    return inner + ['Pull']
                return inner + ['Rep (Pull)']          # next() on a view that skips rows: no bound on the pulls
            if nm in HEADER_READERS and all(k == 'table' for k in kinds):
                return inner + ['Pull'] * len(kinds)   # a fresh iterator per table, one row each
            if nm == '__init__' and self.ctor:
                return inner                           # the base class constructor (translated on its own)
            if nm in LAZY:
                return inner                           # a lazy wrapper: effects happen where it is consumed
            if nm in ('append', 'add', 'put') and all(k in ('iter1', 'skip', 'coll') or isinstance(k, tuple) for k in kinds):
                return inner                           # storing an iterator in a collection
            return inner + ['Eager']                   # an eager consumer, or an unknown callee given the source
        if isinstance(e, (ast.ListComp, ast.SetComp, ast.DictComp, ast.GeneratorExp)):
            eager = not isinstance(e, ast.GeneratorExp)
            for g in e.generators:
                self._bind_tables(g.target, g.iter)
                if self._over_coll(g.iter):
                    for nm in self._targets(g.target):
                        self.env[nm] = 'iter1'
            srcs = [g for g in e.generators if self.is_src(g.iter)]
            if srcs:
                if all(self._over_coll(g.iter) for g in srcs):
                    pass                               # a loop over the collection of iterators: effects are in the element
                elif eager:
                    return ['Eager']
                else:
                    return []                          # a lazy generator expression
            body = []
            for g in e.generators:
                if not self.is_src(g.iter):
                    body += self.expr(g.iter)
                for c in g.ifs:
                    body += self.truth(c)
            elts = [e.key, e.value] if isinstance(e, ast.DictComp) else [e.elt]
            for x in elts:
                body += self.expr(x)
            if body and not eager:
                return ['Eager']                       # effects inside a lazy expression: give up (fail-safe)
            return ['Rep (%s)' % seq(body)] if body else []
        if isinstance(e, (ast.Lambda,)):
            names = {n.id for n in ast.walk(e) if isinstance(n, ast.Name)}
            return ['Eager'] if any(self.env.get(x) not in (None, 'table') for x in names) else []
        for child in ast.iter_child_nodes(e):
            if isinstance(child, ast.expr):
                out += self.expr(child)
            elif isinstance(child, ast.comprehension):
                out += self.expr(child.iter)
        return out

    def loop(self, it_expr, body):
        """for x in <it_expr>: body"""
        k = self.kind(it_expr)
        if k == 'iter1':
            return 'For (%s)' % body
        if k == 'skip':
            return 'For (Alt (Cont) (%s))' % body
        if isinstance(k, tuple):
            return 'For (Seq (Pull) (%s))' % body      # more than one source row per iteration
        raise AssertionError(k)

    # ---- statements ------------------------------------------------------------------------------------------------------
    def block(self, stmts):
        return seq([x for s in stmts for x in self.stmt(s)])

    def _while_next(self, s):
        """while True: try: x = next(it) except StopIteration: return|break ; rest   ==  for x in it: rest"""
        if not (isinstance(s.test, ast.Constant) and s.test.value is True and s.body):
            return None
        i = 0
        while i < len(s.body) and not isinstance(s.body[i], ast.Try):
            if not isinstance(s.body[i], (ast.Assign, ast.Expr)) or self.block([s.body[i]]) != 'Skip':
                return None
            i += 1
        if i >= len(s.body):
            return None
        t = s.body[i]
        if not (len(t.body) == 1 and isinstance(t.body[0], ast.Assign) and isinstance(t.body[0].value, ast.Call)
                and _call_name(t.body[0].value) == 'next' and len(t.body[0].value.args) == 1
                and self.kind(t.body[0].value.args[0]) == 'iter1' and not t.orelse and not t.finalbody
                and len(t.handlers) == 1 and isinstance(t.handlers[0].type, ast.Name)
                and t.handlers[0].type.id == 'StopIteration' and len(t.handlers[0].body) == 1
                and isinstance(t.handlers[0].body[0], (ast.Return, ast.Break))):
            return None
        if isinstance(t.handlers[0].body[0], ast.Return) and t.handlers[0].body[0].value is not None:
            return None
        # statements evaluated around the next() call inside the loop (timers ...) must be effect-free for the source
        return 'For (%s)' % self.block(s.body[i + 1:])

    def stmt(self, s):
        if isinstance(s, ast.Expr):
            return self.expr(s.value)
        if isinstance(s, (ast.Assign, ast.AugAssign, ast.AnnAssign)):
            tg = s.targets if isinstance(s, ast.Assign) else [s.target]
            out = self.expr(s.value)
            for t in tg:
                if not isinstance(t, ast.Name):
                    out += self.expr(t)
            if s.value is not None and not isinstance(s, ast.AugAssign):
                self._assign(tg, s.value)
            return out
        if isinstance(s, ast.Return):
            return self.expr(s.value) + ['Ret']
        if isinstance(s, ast.Raise):
            return self.expr(s.exc) + ['Ret']
        if isinstance(s, ast.Break):
            return ['Brk']
        if isinstance(s, ast.Continue):
            return ['Cont']
        if isinstance(s, (ast.Pass, ast.Import, ast.ImportFrom, ast.Global, ast.Nonlocal, ast.Assert, ast.Delete)):
            return self.expr(s.test) if isinstance(s, ast.Assert) else []
        if isinstance(s, ast.If):
            pre = self.truth(s.test)
            env0 = dict(self.env)
            a = self.block(s.body)
            env_a = self.env
            self.env = dict(env0)
            b = self.block(s.orelse)
            self.env = self._join(env_a, self.env)
            return pre + ['Alt (%s) (%s)' % (a, b)]
        if isinstance(s, ast.For):
            self._bind_tables(s.target, s.iter)
            if self._over_coll(s.iter):
                for nm in self._targets(s.target):
                    self.env[nm] = 'iter1'
            env0 = dict(self.env)
            self.block(s.body)                         # first pass: assignments inside the body reach its beginning
            self.env = self._join(env0, self.env)
            body = self.block(s.body)
            self.env = self._join(env0, self.env)
            if self._over_coll(s.iter):
                out = ['Rep (%s)' % body]
            elif self.is_iter(s.iter):
                out = [self.loop(s.iter, body)]
            elif self.kind(s.iter) in ('table', 'maybe'):
                out = ['For (%s)' % body]              # iterating the container directly
            else:
                out = self.expr(s.iter) + ['Rep (%s)' % body]
            if s.orelse:
                out.append(self.block(s.orelse))
            return out
        if isinstance(s, ast.While):
            env0 = dict(self.env)
            self.block(s.body)
            self.env = self._join(env0, self.env)
            wn = self._while_next(s)
            if wn is not None:
                return [wn]
            cond = self.truth(s.test)
            out = ['Rep (%s)' % seq(cond + [self.block(s.body)])]
            self.env = self._join(env0, self.env)
            if s.orelse:
                out.append(self.block(s.orelse))
            return out
        if isinstance(s, ast.With):
            pre = [x for it in s.items for x in self.expr(it.context_expr)]
            return pre + [self.block(s.body)]
        if isinstance(s, ast.Try):
            body = self.block(list(s.body) + list(s.orelse))
            hs = [self.block(h.body) for h in s.handlers]
            term = body
            if hs:
                h = hs[0]
                for x in hs[1:]:
                    h = 'Alt (%s) (%s)' % (h, x)
                term = 'Try (%s) (%s)' % (body, h)
            out = [term]
            if s.finalbody:
                out.append(self.block(s.finalbody))
            return out
        if isinstance(s, (ast.FunctionDef, ast.ClassDef)):
            names = {n.id for n in ast.walk(s) if isinstance(n, ast.Name)}
            return ['Eager'] if any(self.env.get(x) is not None for x in names) else []
        raise TranslationError('streaming', 'statement kind %s not handled' % type(s).__name__, s)


_VIEW_FUNCS = None


def view_funcs():
    """module-level functions that only construct a view: `return SomeView(...)` or `return other_view_func(...)`"""
    global _VIEW_FUNCS
    if _VIEW_FUNCS is not None:
        return _VIEW_FUNCS
    cands = {}
    for rel in MODULES:
        mod, _ = parse_module(rel)
        for n in mod.body:
            if isinstance(n, ast.FunctionDef) and not _is_generator(n):
                rets = [x for x in ast.walk(n) if isinstance(x, ast.Return) and x.value is not None]
                if rets and all(isinstance(r.value, ast.Call) and _call_name(r.value) for r in rets):
                    cands[n.name] = (n, [_call_name(r.value) for r in rets])
    good = set()
    _VIEW_FUNCS = good
    changed = True
    while changed:
        changed = False
        for nm, (fn, callees) in cands.items():
            if nm in good or not all(c.endswith('View') or c in good or c == nm for c in callees):
                continue
            good.add(nm)                               # tentatively (recursive calls such as rowslice -> head)
            term = Skel(fn, ctor=True).block(fn.body)
            if 'Eager' in term or 'For' in term or 'Rep (Pull' in term:
                good.discard(nm)                       # hands a table to something unknown, or iterates it: not a mere constructor
            else:
                changed = True
    _VIEW_FUNCS = good
    return good


def seq(parts):
    parts = [p for p in parts if p and p != 'Skip']
    if not parts:
        return 'Skip'
    term = parts[-1]
    for p in reversed(parts[:-1]):
        term = 'Seq (%s) (%s)' % (p, term)
    return term


def _is_generator(fn):
    for n in ast.walk(fn):
        if isinstance(n, (ast.Yield, ast.YieldFrom)):
            # not inside a nested function
            return True
    return False


def skeletons():
    out = []
    for rel in MODULES:
        mod, _ = parse_module(rel)
        modname = rel[:-3].replace('/', '.')
        for n in mod.body:
            if isinstance(n, ast.FunctionDef) and _is_generator(n):
                out.append(('%s.%s' % (modname, n.name), 'gen', Skel(n).block(n.body)))
            elif isinstance(n, ast.FunctionDef) and n.name in view_funcs() and not n.name.startswith('_'):
                out.append(('%s.%s' % (modname, n.name), 'ctor', Skel(n, ctor=True).block(n.body)))
            elif isinstance(n, ast.ClassDef):
                for m in n.body:
                    if isinstance(m, ast.FunctionDef):
                        if m.name == '__init__':
                            out.append(('%s.%s.__init__' % (modname, n.name), 'ctor', Skel(m, ctor=True).block(m.body)))
                        elif _is_generator(m):
                            out.append(('%s.%s.%s' % (modname, n.name, m.name), 'gen', Skel(m).block(m.body)))
    return out


def expected():
    p = os.path.join(os.path.dirname(os.path.abspath(__file__)), 'streaming_expected.json')
    with open(p) as f:
        return json.load(f)


def generate():
    sk = skeletons()
    lines = ['(* GENERATED by translator/streaming.py from the petl sources — do not edit. *)',
             'From Verif Require Import PyVal GenIR.', 'From Coq Require Import String.', 'Open Scope string_scope.', '',
             'Definition gen_skeletons : list (string * stmt) :=', '  [']
    gens = [(n, t) for n, k, t in sk if k == 'gen']
    ctors = [(n, t) for n, k, t in sk if k == 'ctor']
    lines.append(';\n'.join('   ("%s",\n    %s)' % (n, t) for n, t in gens))
    lines += ['  ].', '', 'Definition ctor_skeletons : list (string * stmt) :=', '  [']
    lines.append(';\n'.join('   ("%s",\n    %s)' % (n, t) for n, t in ctors))
    lines += ['  ].', '']
    # the committed expectation: which generator functions are in which streaming class
    exp = expected()
    maps = sorted(n for n, c in exp['generators'].items() if c == 'map')
    filts = sorted(n for n, c in exp['generators'].items() if c in ('map', 'filter'))
    pure = sorted(exp['ctors_pure'])
    hdr = sorted(exp['ctors_header_only'])
    for nm, names in (('expected_map', maps), ('expected_filter', filts), ('expected_ctor_pure', pure),
                      ('expected_ctor_header_only', hdr)):
        lines += ['Definition %s : list string :=' % nm, '  [' + '; '.join('"%s"' % n for n in names) + '].', '']
    return '\n'.join(lines) + '\n'


# ---- a reference evaluator of the Coq functions on terms (used only to bootstrap / refresh the expectation file) ----------
def parse_term(s):
    toks = s.replace('(', ' ( ').replace(')', ' ) ').split()
    pos = [0]

    def atom():
        t = toks[pos[0]]
        if t == '(':
            pos[0] += 1
            x = app()
            assert toks[pos[0]] == ')'
            pos[0] += 1
            return x
        pos[0] += 1
        return (t,)

    def app():
        head = toks[pos[0]]
        pos[0] += 1
        arity = {'Seq': 2, 'Alt': 2, 'Try': 2, 'For': 1, 'Rep': 1}.get(head, 0)
        return (head,) + tuple(atom() for _ in range(arity))
    return app()


def pull_free(t):
    h = t[0]
    if h in ('Pull', 'Eager', 'For'):
        return False
    return all(pull_free(x) for x in t[1:])


def no_cont(t):
    h = t[0]
    if h == 'Cont':
        return False
    if h in ('Seq', 'Alt', 'Try'):
        return no_cont(t[1]) and no_cont(t[2])
    return True


def must_yield(t):
    h = t[0]
    if h in ('Yield', 'Ret', 'Brk'):
        return True
    if h == 'Seq':
        return must_yield(t[1]) or (must_yield(t[2]) and no_cont(t[1]))
    if h in ('Alt', 'Try'):
        return must_yield(t[1]) and must_yield(t[2])
    return False


def slack(t):
    h = t[0]
    if h in ('Pull', 'For'):
        return 1
    if h in ('Seq', 'Try'):
        return slack(t[1]) + slack(t[2])
    if h == 'Alt':
        return max(slack(t[1]), slack(t[2]))
    return 0


def wf(t, need_yield):
    h = t[0]
    if h == 'Eager':
        return False
    if h == 'For':
        return pull_free(t[1]) and (must_yield(t[1]) or not need_yield)
    if h == 'Rep':
        return pull_free(t[1])
    if h in ('Seq', 'Alt', 'Try'):
        return wf(t[1], need_yield) and wf(t[2], need_yield)
    return True


def has_for(t):
    return t[0] == 'For' or any(has_for(x) for x in t[1:])


def classify():
    gens, pure, hdr, other = {}, [], [], []
    for name, kind, term in skeletons():
        t = parse_term(term)
        if kind == 'gen':
            gens[name] = 'map' if wf(t, True) else ('filter' if wf(t, False) else 'none')
        else:
            if pull_free(t):
                pure.append(name)
            elif wf(t, True) and not has_for(t):
                hdr.append(name)
            else:
                other.append(name)
    return {'generators': gens, 'ctors_pure': sorted(pure), 'ctors_header_only': sorted(hdr), 'ctors_other': sorted(other)}


if __name__ == '__main__':
    import sys
    c = classify()
    if '--write' in sys.argv:
        with open(os.path.join(os.path.dirname(os.path.abspath(__file__)), 'streaming_expected.json'), 'w') as f:
            json.dump(c, f, indent=1, sort_keys=True)
    from collections import Counter
    print(Counter(c['generators'].values()), len(c['ctors_pure']), len(c['ctors_header_only']), c['ctors_other'])
    for k, v in sorted(c['generators'].items()):
        print(v, k)
