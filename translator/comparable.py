"""petl/comparison.py + petl/compat.py  ->  coq/gen/ComparableGen.v   (tie T1, fail-closed).

Grammar (DESIGN.md appendix B):
  __init__ : self.inner = obj ; if isinstance(obj, (list, tuple)): obj = tuple(Comparable(o) for o in obj) ; self.obj = obj
  __lt__   : obj = self.obj ; if isinstance(other, Comparable): other = other.obj ;
             ( if <test>: return <bool> )* ;
             try: return obj < other  except TypeError: return _typestr(obj) < _typestr(other)
  <test>   : X is None | isinstance(X, T) | not t | t and t | t or t      X in {obj, other}, T in {numeric_types,text_type,binary_type}
  __eq__   : if isinstance(other, Comparable): return self.obj == other.obj ; return self.obj == other
  __le__/__gt__/__ge__ : boolean expressions over  self < other,  self == other,  self > other ...
  _typestr : ( if isinstance(x, T): return '<lit>' )* ; return type(x).__name__
  _itemgetter_with_default : default=None constants
"""
import ast
from .common import TranslationError, parse_module, find_class, find_func, strip_doc, coq_string

ITEM = 'petl.comparison'

KIND = {'bool': 'KBool', 'int': 'KInt', 'float': 'KFloat', 'Decimal': 'KDecimal'}


def _py3_branch_assigns(mod):
    """Return {name: ast value} for the assignments in the `else:` (Python 3) branch of `if PY2:`."""
    for n in mod.body:
        if isinstance(n, ast.If) and isinstance(n.test, ast.Name) and n.test.id == 'PY2':
            out = {}
            for s in n.orelse:
                if isinstance(s, ast.Assign) and len(s.targets) == 1 and isinstance(s.targets[0], ast.Name):
                    out[s.targets[0].id] = s.value
            return out
    raise TranslationError('petl.compat', 'no `if PY2:` block found')


def compat_types():
    mod, _ = parse_module('petl/compat.py')
    a = _py3_branch_assigns(mod)
    for k in ('numeric_types', 'text_type', 'binary_type'):
        if k not in a:
            raise TranslationError('petl.compat', 'no Python-3 definition of %s' % k)
    nt = a['numeric_types']
    if not isinstance(nt, ast.Tuple) or not all(isinstance(e, ast.Name) for e in nt.elts):
        raise TranslationError('petl.compat', 'numeric_types is not a tuple of names', nt)
    kinds = []
    for e in nt.elts:
        if e.id not in KIND:
            raise TranslationError('petl.compat', 'numeric_types mentions %s, unknown to the value model' % e.id, e)
        kinds.append(KIND[e.id])
    tt, bt = a['text_type'], a['binary_type']
    if not (isinstance(tt, ast.Name) and tt.id == 'str'):
        raise TranslationError('petl.compat', 'text_type is not str', tt)
    if not (isinstance(bt, ast.Name) and bt.id == 'bytes'):
        raise TranslationError('petl.compat', 'binary_type is not bytes', bt)
    return kinds


TYPEPRED = {'numeric_types': 'is_numeric_g', 'text_type': 'is_text', 'binary_type': 'is_binary'}


def _test(e, names, item):
    """Translate a boolean test over the variables in `names` (python name -> coq name)."""
    if isinstance(e, ast.Compare) and len(e.ops) == 1 and isinstance(e.ops[0], (ast.Is, ast.IsNot)) \
            and isinstance(e.left, ast.Name) and e.left.id in names \
            and isinstance(e.comparators[0], ast.Constant) and e.comparators[0].value is None:
        t = '(is_none %s)' % names[e.left.id]
        return t if isinstance(e.ops[0], ast.Is) else '(negb %s)' % t
    if isinstance(e, ast.Call) and isinstance(e.func, ast.Name) and e.func.id == 'isinstance' and len(e.args) == 2 \
            and not e.keywords and isinstance(e.args[0], ast.Name) and e.args[0].id in names \
            and isinstance(e.args[1], ast.Name) and e.args[1].id in TYPEPRED:
        return '(%s %s)' % (TYPEPRED[e.args[1].id], names[e.args[0].id])
    if isinstance(e, ast.UnaryOp) and isinstance(e.op, ast.Not):
        return '(negb %s)' % _test(e.operand, names, item)
    if isinstance(e, ast.BoolOp):
        op = ' && ' if isinstance(e.op, ast.And) else ' || '
        return '(' + op.join(_test(v, names, item) for v in e.values) + ')'
    raise TranslationError(item, 'test outside the ladder grammar: %s' % ast.dump(e)[:120], e)


def _const_bool(e, item):
    if isinstance(e, ast.Constant) and isinstance(e.value, bool):
        return 'true' if e.value else 'false'
    raise TranslationError(item, 'return value is not a boolean constant', e)


def _is_attr(e, base, attr):
    return isinstance(e, ast.Attribute) and isinstance(e.value, ast.Name) and e.value.id == base and e.attr == attr


def translate_lt(fn):
    item = ITEM + '.Comparable.__lt__'
    body = strip_doc(fn.body)
    if [a.arg for a in fn.args.args] != ['self', 'other']:
        raise TranslationError(item, 'unexpected signature', fn)
    # prelude
    if len(body) < 3:
        raise TranslationError(item, 'body too short', fn)
    s0, s1 = body[0], body[1]
    if not (isinstance(s0, ast.Assign) and len(s0.targets) == 1 and isinstance(s0.targets[0], ast.Name)
            and s0.targets[0].id == 'obj' and _is_attr(s0.value, 'self', 'obj')):
        raise TranslationError(item, 'expected `obj = self.obj`', s0)
    ok = (isinstance(s1, ast.If) and not s1.orelse and len(s1.body) == 1
          and isinstance(s1.test, ast.Call) and isinstance(s1.test.func, ast.Name) and s1.test.func.id == 'isinstance'
          and len(s1.test.args) == 2 and isinstance(s1.test.args[0], ast.Name) and s1.test.args[0].id == 'other'
          and isinstance(s1.test.args[1], ast.Name) and s1.test.args[1].id == 'Comparable'
          and isinstance(s1.body[0], ast.Assign) and len(s1.body[0].targets) == 1
          and isinstance(s1.body[0].targets[0], ast.Name) and s1.body[0].targets[0].id == 'other'
          and _is_attr(s1.body[0].value, 'other', 'obj'))
    if not ok:
        raise TranslationError(item, 'expected `if isinstance(other, Comparable): other = other.obj`', s1)
    names = {'obj': 'obj', 'other': 'other'}
    rungs = []
    for s in body[2:-1]:
        if not (isinstance(s, ast.If) and not s.orelse and len(s.body) == 1 and isinstance(s.body[0], ast.Return)):
            raise TranslationError(item, 'rung is not `if <test>: return <bool>`', s)
        rungs.append((_test(s.test, names, item), _const_bool(s.body[0].value, item)))
    last = body[-1]
    ok = (isinstance(last, ast.Try) and not last.orelse and not last.finalbody and len(last.body) == 1
          and len(last.handlers) == 1 and isinstance(last.body[0], ast.Return))
    if not ok:
        raise TranslationError(item, 'ladder does not end in try/except', last)
    r = last.body[0].value
    if not (isinstance(r, ast.Compare) and len(r.ops) == 1 and isinstance(r.ops[0], ast.Lt)
            and isinstance(r.left, ast.Name) and r.left.id == 'obj'
            and isinstance(r.comparators[0], ast.Name) and r.comparators[0].id == 'other'):
        raise TranslationError(item, 'native attempt is not `return obj < other`', r)
    h = last.handlers[0]
    if not (isinstance(h.type, ast.Name) and h.type.id == 'TypeError' and len(h.body) == 1
            and isinstance(h.body[0], ast.Return)):
        raise TranslationError(item, 'handler is not `except TypeError: return ...`', h)
    fb = h.body[0].value

    def is_typestr(e, v):
        return (isinstance(e, ast.Call) and isinstance(e.func, ast.Name) and e.func.id == '_typestr'
                and len(e.args) == 1 and isinstance(e.args[0], ast.Name) and e.args[0].id == v)
    if not (isinstance(fb, ast.Compare) and len(fb.ops) == 1 and isinstance(fb.ops[0], ast.Lt)
            and is_typestr(fb.left, 'obj') and is_typestr(fb.comparators[0], 'other')):
        raise TranslationError(item, 'fallback is not `_typestr(obj) < _typestr(other)`', fb)
    return rungs


def translate_typestr(fn):
    item = ITEM + '._typestr'
    body = strip_doc(fn.body)
    if [a.arg for a in fn.args.args] != ['x']:
        raise TranslationError(item, 'unexpected signature', fn)
    rungs = []
    for s in body[:-1]:
        if not (isinstance(s, ast.If) and not s.orelse and len(s.body) == 1 and isinstance(s.body[0], ast.Return)
                and isinstance(s.body[0].value, ast.Constant) and isinstance(s.body[0].value.value, str)):
            raise TranslationError(item, "rung is not `if isinstance(x, T): return '<lit>'`", s)
        rungs.append((_test(s.test, {'x': 'x'}, item), s.body[0].value.value))
    last = body[-1]
    ok = (isinstance(last, ast.Return) and isinstance(last.value, ast.Attribute) and last.value.attr == '__name__'
          and isinstance(last.value.value, ast.Call) and isinstance(last.value.value.func, ast.Name)
          and last.value.value.func.id == 'type' and len(last.value.value.args) == 1
          and isinstance(last.value.value.args[0], ast.Name) and last.value.value.args[0].id == 'x')
    if not ok:
        raise TranslationError(item, 'last statement is not `return type(x).__name__`', last)
    return rungs


def _derived(e, item):
    """boolean expression over self < other / self == other etc."""
    if isinstance(e, ast.Compare) and len(e.ops) == 1 and isinstance(e.left, ast.Name) and e.left.id == 'self' \
            and isinstance(e.comparators[0], ast.Name) and e.comparators[0].id == 'other':
        op = {ast.Lt: 'clt a b', ast.Eq: 'ceq a b', ast.LtE: 'cle a b', ast.Gt: 'cgt a b', ast.GtE: 'cge a b',
              ast.NotEq: 'negb (ceq a b)'}.get(type(e.ops[0]))
        if op is None:
            raise TranslationError(item, 'unknown comparison', e)
        return '(%s)' % op
    if isinstance(e, ast.Compare) and len(e.ops) == 1 and isinstance(e.left, ast.Name) and e.left.id == 'other' \
            and isinstance(e.comparators[0], ast.Name) and e.comparators[0].id == 'self':
        op = {ast.Lt: 'clt b a', ast.Eq: 'ceq b a', ast.LtE: 'cle b a', ast.Gt: 'cgt b a', ast.GtE: 'cge b a'}.get(
            type(e.ops[0]))
        if op is None:
            raise TranslationError(item, 'unknown comparison', e)
        return '(%s)' % op
    if isinstance(e, ast.UnaryOp) and isinstance(e.op, ast.Not):
        return '(negb %s)' % _derived(e.operand, item)
    if isinstance(e, ast.BoolOp):
        op = ' && ' if isinstance(e.op, ast.And) else ' || '
        return '(' + op.join(_derived(v, item) for v in e.values) + ')'
    raise TranslationError(item, 'expression outside the derived-operator grammar', e)


def translate_derived(cls, name):
    item = ITEM + '.Comparable.' + name
    fn = find_func(cls.body, name)
    if fn is None:
        raise TranslationError(item, 'method missing')
    body = strip_doc(fn.body)
    if len(body) != 1 or not isinstance(body[0], ast.Return):
        raise TranslationError(item, 'body is not a single return', fn)
    return _derived(body[0].value, item)


def check_init(cls):
    item = ITEM + '.Comparable.__init__'
    fn = find_func(cls.body, '__init__')
    if fn is None:
        raise TranslationError(item, 'missing')
    body = strip_doc(fn.body)
    src = [ast.dump(s) for s in body]
    want = ast.parse(
        "self.inner = obj\n"
        "if isinstance(obj, (list, tuple)):\n"
        "    obj = tuple(Comparable(o) for o in obj)\n"
        "self.obj = obj\n").body
    if src != [ast.dump(s) for s in want]:
        raise TranslationError(item, 'constructor differs from the modelled wrapping of lists/tuples', fn)


def check_eq(cls):
    item = ITEM + '.Comparable.__eq__'
    fn = find_func(cls.body, '__eq__')
    if fn is None:
        raise TranslationError(item, 'missing')
    want = ast.parse(
        "if isinstance(other, Comparable):\n"
        "    return self.obj == other.obj\n"
        "return self.obj == other\n").body
    if [ast.dump(s) for s in strip_doc(fn.body)] != [ast.dump(s) for s in want]:
        raise TranslationError(item, '__eq__ differs from `self.obj == other.obj`', fn)


def itemgetter_default(mod):
    """The default substituted for missing cells by comparable_itemgetter."""
    item = ITEM + '._itemgetter_with_default'
    fn = find_func(mod.body, '_itemgetter_with_default')
    if fn is None:
        raise TranslationError(item, 'missing')
    defaults = []
    for n in ast.walk(fn):
        if isinstance(n, ast.Call):
            for kw in n.keywords:
                if kw.arg == 'default':
                    defaults.append(kw.value)
    if len(defaults) != 2:
        raise TranslationError(item, 'expected exactly two default= arguments', fn)
    for d in defaults:
        if not (isinstance(d, ast.Constant) and d.value is None):
            raise TranslationError(item, 'default for a missing cell is not the constant None', d)
    cg = find_func(mod.body, 'comparable_itemgetter')
    if cg is None:
        raise TranslationError(ITEM + '.comparable_itemgetter', 'missing')
    want = ast.parse(
        "def comparable_itemgetter(*args):\n"
        "    getter = operator.itemgetter(*args)\n"
        "    getter_with_default = _itemgetter_with_default(*args)\n"
        "    def _getter_with_fallback(obj):\n"
        "        try:\n"
        "            return getter(obj)\n"
        "        except (IndexError, KeyError):\n"
        "            return getter_with_default(obj)\n"
        "    g = lambda x: Comparable(_getter_with_fallback(x))\n"
        "    return g\n").body[0]
    if ast.dump(cg) != ast.dump(want):
        raise TranslationError(ITEM + '.comparable_itemgetter', 'differs from the modelled getter', cg)
    return 'VNone'


def generate():
    kinds = compat_types()
    mod, _ = parse_module('petl/comparison.py')
    cls = find_class(mod, 'Comparable')
    if cls is None:
        raise TranslationError(ITEM, 'class Comparable missing')
    check_init(cls)
    check_eq(cls)
    lt = find_func(cls.body, '__lt__')
    if lt is None:
        raise TranslationError(ITEM + '.Comparable.__lt__', 'missing')
    rungs = translate_lt(lt)
    ts = find_func(mod.body, '_typestr')
    if ts is None:
        raise TranslationError(ITEM + '._typestr', 'missing')
    tsr = translate_typestr(ts)
    le = translate_derived(cls, '__le__')
    gt = translate_derived(cls, '__gt__')
    ge = translate_derived(cls, '__ge__')
    default = itemgetter_default(mod)

    out = []
    w = out.append
    w('(* GENERATED on every run by translator/comparable.py from /repo/petl/comparison.py and petl/compat.py. *)')
    w('(* Do not edit; not committed. *)')
    w('From Verif Require Import PyVal.')
    w('Open Scope bool_scope.')
    w('')
    w('(* compat.numeric_types (Python 3 branch) *)')
    w('Definition is_numeric_g (v : val) : bool :=')
    w('  match v with')
    for k in ('KBool', 'KInt', 'KFloat', 'KDecimal'):
        w('  | VNum %s _ => %s' % (k, 'true' if k in kinds else 'false'))
    w('  | _ => false')
    w('  end.')
    w('')
    w('(* _typestr *)')
    w('Definition typestr (x : val) : list Z :=')
    for t, lit in tsr:
        w('  if %s then zs %s else' % (t, coq_string(lit)))
    w('  py_typename x.')
    w('')
    w('(* Comparable.__eq__ : self.obj == other.obj, where __init__ stores lists and tuples as tuples of Comparable *)')
    w('Fixpoint ceq (a b : val) {struct a} : bool :=')
    w('  match a, b with')
    w('  | VSeq _ l1, VSeq _ l2 =>')
    w('      (fix seq_eq (l1 l2 : list val) : bool :=')
    w('         match l1, l2 with')
    w('         | [], [] => true')
    w('         | x :: xs, y :: ys => ceq x y && seq_eq xs ys')
    w('         | _, _ => false')
    w('         end) l1 l2')
    w('  | _, _ => native_scalar_eq a b')
    w('  end.')
    w('')
    w('(* Comparable.__lt__ : the decision ladder as written; `native` is CPython\'s obj < other (None = TypeError), *)')
    w('(* whose tuple case compares element-wise through Comparable.__eq__ / __lt__ of the wrapped elements. *)')
    w('Fixpoint clt (obj other : val) {struct obj} : bool :=')
    w('  let native : option bool :=')
    w('    match obj, other with')
    w('    | VSeq _ l1, VSeq _ l2 =>')
    w('        Some ((fix seq_lt (l1 l2 : list val) : bool :=')
    w('                 match l1, l2 with')
    w('                 | [], [] => false')
    w('                 | [], _ :: _ => true')
    w('                 | _ :: _, [] => false')
    w('                 | x :: xs, y :: ys => if ceq x y then seq_lt xs ys else clt x y')
    w('                 end) l1 l2)')
    w('    | _, _ => native_scalar_lt obj other')
    w('    end in')
    for t, r in rungs:
        w('  if %s then %s else' % (t, r))
    w('  match native with')
    w('  | Some r => r')
    w('  | None => zl_lt (typestr obj) (typestr other)')
    w('  end.')
    w('')
    w('(* derived operators, as written *)')
    w('Definition cle (a b : val) : bool := %s.' % le)
    w('Definition cgt (a b : val) : bool := %s.' % gt)
    w('Definition cge (a b : val) : bool := %s.' % ge)
    w('')
    w('(* comparable_itemgetter: default for a missing cell *)')
    w('Definition missing_key_default : val := %s.' % default)
    w('Definition ladder_rungs : nat := %d.' % len(rungs))
    w('')
    return '\n'.join(out)
