"""Shared helpers for the fail-closed Python-ast -> Gallina translators."""
import ast
import os

REPO = os.environ.get('VERIF_REPO', '/repo')


class TranslationError(Exception):
    """Raised when the source leaves the grammar the translator knows (fail-closed)."""

    def __init__(self, item, msg, node=None):
        self.item = item
        self.msg = msg
        self.lineno = getattr(node, 'lineno', None)
        super().__init__('%s: %s%s' % (item, msg, '' if self.lineno is None else ' (line %d)' % self.lineno))


def parse_module(relpath):
    path = os.path.join(REPO, relpath)
    with open(path, 'r', encoding='utf-8') as f:
        src = f.read()
    return ast.parse(src, filename=path), src


def find_class(mod, name):
    for n in mod.body:
        if isinstance(n, ast.ClassDef) and n.name == name:
            return n
    return None


def find_func(body, name):
    for n in body:
        if isinstance(n, ast.FunctionDef) and n.name == name:
            return n
    return None


def strip_doc(body):
    """Drop a leading docstring expression."""
    if body and isinstance(body[0], ast.Expr) and isinstance(getattr(body[0], 'value', None), ast.Constant) \
            and isinstance(body[0].value.value, str):
        return body[1:]
    return body


def coq_string(s):
    return '"' + s.replace('"', '""') + '"'


def write_if_changed(path, text):
    try:
        with open(path, 'r', encoding='utf-8') as f:
            if f.read() == text:
                return False
    except OSError:
        pass
    tmp = path + '.tmp%d' % os.getpid()
    with open(tmp, 'w', encoding='utf-8') as f:
        f.write(text)
    os.replace(tmp, path)
    return True
