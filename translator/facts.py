"""Fact extraction (no expression translation): coq/gen/Forwarding.v, Catalogue.v, DbProg.v  (fail-closed).

Forwarding.v — every call, inside petl/transform/*.py, from a function or __init__ that itself takes the strategy
parameters (buffersize / tempdir / cache) to a callee that takes them too: which of the three are forwarded, and whether
each is forwarded from the same-named parameter.
"""
import ast
import os

from .common import TranslationError, parse_module, coq_string, REPO

STRATEGY = ('buffersize', 'tempdir', 'cache')
TRANSFORM_FILES = ['sorts', 'joins', 'setops', 'dedup', 'reductions', 'reshape', 'maps', 'basics', 'hashjoins',
                   'intervals', 'unpacks', 'regex', 'selects', 'conversions', 'fills', 'headers', 'validation']


def _params(fn):
    a = fn.args
    names = [x.arg for x in a.args] + [x.arg for x in a.kwonlyargs]
    return names


def _collect_defs():
    """name -> set of parameter names, for every module-level function and class __init__ in petl/transform."""
    defs = {}
    mods = {}
    for m in TRANSFORM_FILES:
        path = 'petl/transform/%s.py' % m
        if not os.path.exists(os.path.join(REPO, path)):
            continue
        mod, _ = parse_module(path)
        mods[m] = mod
        for n in mod.body:
            if isinstance(n, ast.FunctionDef):
                defs[n.name] = set(_params(n))
            elif isinstance(n, ast.ClassDef):
                for b in n.body:
                    if isinstance(b, ast.FunctionDef) and b.name == '__init__':
                        defs[n.name] = set(_params(b)) - {'self'}
    return defs, mods


def _callee_name(call):
    f = call.func
    if isinstance(f, ast.Name):
        return f.id
    return None


def forwarding_sites():
    defs, mods = _collect_defs()
    takes = {name for name, ps in defs.items() if all(s in ps for s in STRATEGY)}
    sites = []
    for m, mod in sorted(mods.items()):
        scopes = []
        for n in mod.body:
            if isinstance(n, ast.FunctionDef):
                scopes.append((n.name, n))
            elif isinstance(n, ast.ClassDef):
                for b in n.body:
                    if isinstance(b, ast.FunctionDef) and b.name == '__init__':
                        scopes.append((n.name + '.__init__', b))
        for sname, fn in scopes:
            ps = set(_params(fn))
            if not all(s in ps for s in STRATEGY):
                continue
            for node in ast.walk(fn):
                if not isinstance(node, ast.Call):
                    continue
                cn = _callee_name(node)
                if cn is None or cn not in takes:
                    continue
                if any(kw.arg is None for kw in node.keywords):
                    raise TranslationError('Forwarding', '%s.%s passes **kwargs to %s: cannot tell what is forwarded'
                                           % (m, sname, cn), node)
                kws = {kw.arg: kw.value for kw in node.keywords}
                fw = []
                for s in STRATEGY:
                    v = kws.get(s)
                    fw.append(isinstance(v, ast.Name) and v.id == s)
                sites.append(('%s.%s' % (m, sname), cn, node.lineno, fw))
    if not sites:
        raise TranslationError('Forwarding', 'no call sites found (source layout changed?)')
    return sites


def generate_forwarding():
    sites = forwarding_sites()
    out = []
    w = out.append
    w('(* GENERATED on every run by translator/facts.py from /repo/petl/transform/*.py. *)')
    w('From Coq Require Import String List Bool.')
    w('Import ListNotations.')
    w('Open Scope string_scope.')
    w('Record fwd_call := { fw_site : string; fw_callee : string; fw_line : nat;')
    w('                     fw_buffersize : bool; fw_tempdir : bool; fw_cache : bool }.')
    w('Definition fwd_calls : list fwd_call := [')
    rows = []
    for site, callee, line, fw in sites:
        rows.append('  {| fw_site := %s; fw_callee := %s; fw_line := %d; fw_buffersize := %s; fw_tempdir := %s; fw_cache := %s |}'
                    % (coq_string(site), coq_string(callee), line, *('true' if x else 'false' for x in fw)))
    w(';\n'.join(rows))
    w('].')
    w('Definition forwards_all (c : fwd_call) : bool := fw_buffersize c && fw_tempdir c && fw_cache c.')
    w('')
    return '\n'.join(out)


def generate_catalogue():
    raise TranslationError('Catalogue', 'not implemented yet')


def generate_dbprog():
    raise TranslationError('DbProg', 'not implemented yet')
