"""Fact extraction (no expression translation): coq/gen/Forwarding.v, Catalogue.v, DbProg.v  (fail-closed).

Forwarding.v — every call, inside petl/transform/*.py, from a function or __init__ that itself takes the strategy
parameters (buffersize / tempdir / cache) to a callee that takes them too: which of the three are forwarded, and whether
each is forwarded from the same-named parameter.
"""
import ast
import os

from .common import TranslationError, parse_module, coq_string, REPO

STRATEGY = ('buffersize', 'tempdir', 'cache')
TRANSFORM_FILES = ['sorts', 'joins', 'setops', 'dedup', 'reductions', 'reshape', 'maps', 'basics', 'hashjoins',
                   'intervals', 'unpacks', 'regex', 'selects', 'conversions', 'fills', 'headers', 'validation']


def _params(fn):
    a = fn.args
    names = [x.arg for x in a.args] + [x.arg for x in a.kwonlyargs]
    return names


def _collect_defs():
    """name -> set of parameter names, for every module-level function and class __init__ in petl/transform."""
    defs = {}
    mods = {}
    for m in TRANSFORM_FILES:
        path = 'petl/transform/%s.py' % m
        if not os.path.exists(os.path.join(REPO, path)):
            continue
        mod, _ = parse_module(path)
        mods[m] = mod
        for n in mod.body:
            if isinstance(n, ast.FunctionDef):
                defs[n.name] = set(_params(n))
            elif isinstance(n, ast.ClassDef):
                for b in n.body:
                    if isinstance(b, ast.FunctionDef) and b.name == '__init__':
                        defs[n.name] = set(_params(b)) - {'self'}
    return defs, mods


def _callee_name(call):
    f = call.func
    if isinstance(f, ast.Name):
        return f.id
    return None


def forwarding_sites():
    defs, mods = _collect_defs()
    takes = {name for name, ps in defs.items() if all(s in ps for s in STRATEGY)}
    sites = []
    for m, mod in sorted(mods.items()):
        scopes = []
        for n in mod.body:
            if isinstance(n, ast.FunctionDef):
                scopes.append((n.name, n))
            elif isinstance(n, ast.ClassDef):
                for b in n.body:
                    if isinstance(b, ast.FunctionDef) and b.name == '__init__':
                        scopes.append((n.name + '.__init__', b))
        for sname, fn in scopes:
            ps = set(_params(fn))
            if not all(s in ps for s in STRATEGY):
                continue
            for node in ast.walk(fn):
                if not isinstance(node, ast.Call):
                    continue
                cn = _callee_name(node)
                if cn is None or cn not in takes:
                    continue
                if any(kw.arg is None for kw in node.keywords):
                    raise TranslationError('Forwarding', '%s.%s passes **kwargs to %s: cannot tell what is forwarded'
                                           % (m, sname, cn), node)
                kws = {kw.arg: kw.value for kw in node.keywords}
                fw = []
                for s in STRATEGY:
                    v = kws.get(s)
                    fw.append(isinstance(v, ast.Name) and v.id == s)
                sites.append(('%s.%s' % (m, sname), cn, node.lineno, fw))
    if not sites:
        raise TranslationError('Forwarding', 'no call sites found (source layout changed?)')
    return sites


def generate_forwarding():
    sites = forwarding_sites()
    out = []
    w = out.append
    w('(* GENERATED on every run by translator/facts.py from /repo/petl/transform/*.py. *)')
    w('From Coq Require Import String List Bool.')
    w('Import ListNotations.')
    w('Open Scope string_scope.')
    w('Record fwd_call := { fw_site : string; fw_callee : string; fw_line : nat;')
    w('                     fw_buffersize : bool; fw_tempdir : bool; fw_cache : bool }.')
    w('Definition fwd_calls : list fwd_call := [')
    rows = []
    for site, callee, line, fw in sites:
        rows.append('  {| fw_site := %s; fw_callee := %s; fw_line := %d; fw_buffersize := %s; fw_tempdir := %s; fw_cache := %s |}'
                    % (coq_string(site), coq_string(callee), line, *('true' if x else 'false' for x in fw)))
    w(';\n'.join(rows))
    w('].')
    w('Definition forwards_all (c : fwd_call) : bool := fw_buffersize c && fw_tempdir c && fw_cache c.')
    w('')
    return '\n'.join(out)


def generate_catalogue():
    raise TranslationError('Catalogue', 'not implemented yet')


def generate_dbprog():
    raise TranslationError('DbProg', 'not implemented yet')


# ---------------------------------------------------------------------------------------------------------------
# Catalogue.v — per view class: attributes of `self` written (assigned or mutated) from __iter__, transitively through
# the methods it calls, and process-wide state touched.  A view with no entry here is stateless.
# ---------------------------------------------------------------------------------------------------------------
MUTATORS = {'append', 'extend', 'insert', 'pop', 'remove', 'clear', 'update', 'add', 'sort', 'reverse', 'setdefault',
            'popitem', 'discard', 'seek', 'write', 'truncate', 'close', 'flush', 'appendleft', 'popleft'}
GLOBAL_EFFECTS = {('pyrandom', 'seed'), ('pyrandom', 'setstate'), ('random', 'seed'), ('random', 'setstate')}


def _self_attr(node):
    """self.X (possibly behind subscripts) -> 'X'."""
    while isinstance(node, ast.Subscript):
        node = node.value
    if isinstance(node, ast.Attribute) and isinstance(node.value, ast.Name) and node.value.id == 'self':
        return node.attr
    return None


def _scan_method(cls_methods, name, seen, writes, effects, where):
    if name in seen or name not in cls_methods:
        return
    seen.add(name)
    fn = cls_methods[name]
    for node in ast.walk(fn):
        if isinstance(node, (ast.Assign, ast.AugAssign, ast.AnnAssign)):
            targets = node.targets if isinstance(node, ast.Assign) else [node.target]
            for t in targets:
                for el in (t.elts if isinstance(t, (ast.Tuple, ast.List)) else [t]):
                    a = _self_attr(el)
                    if a is not None:
                        writes.add(a)
        elif isinstance(node, ast.Delete):
            for t in node.targets:
                a = _self_attr(t)
                if a is not None:
                    writes.add(a)
        elif isinstance(node, ast.Global):
            for g in node.names:
                effects.add('global:' + g)
        elif isinstance(node, ast.Call):
            f = node.func
            if isinstance(f, ast.Attribute):
                # self.X.mutator(...)
                a = _self_attr(f.value)
                if a is not None and f.attr in MUTATORS:
                    writes.add(a)
                # self.method(...)
                if isinstance(f.value, ast.Name) and f.value.id == 'self':
                    _scan_method(cls_methods, f.attr, seen, writes, effects, where)
                if isinstance(f.value, ast.Name) and (f.value.id, f.attr) in GLOBAL_EFFECTS:
                    effects.add('%s.%s' % (f.value.id, f.attr))
            # `self` handed to a function that is not one of its own methods: cannot be followed
            for arg in list(node.args) + [kw.value for kw in node.keywords]:
                if isinstance(arg, ast.Name) and arg.id == 'self':
                    if not (isinstance(f, ast.Name) and f.id in ('super', 'isinstance', 'type', 'id', 'repr', 'str')):
                        raise TranslationError('Catalogue', '%s passes self to %s: effects cannot be followed'
                                               % (where, ast.dump(f)[:60]), node)


def view_classes():
    import glob
    out = []
    files = sorted(glob.glob(os.path.join(REPO, 'petl', '**', '*.py'), recursive=True))
    for path in files:
        rel = os.path.relpath(path, REPO)
        if '/test/' in rel or rel.endswith('csv_py2.py'):
            continue
        try:
            mod, _ = parse_module(rel)
        except SyntaxError as e:
            raise TranslationError('Catalogue', 'cannot parse %s: %s' % (rel, e))
        classes = {n.name: n for n in mod.body if isinstance(n, ast.ClassDef)}
        for cname, cls in sorted(classes.items()):
            methods = {}
            # own methods plus those of base classes defined in the same module (nearest first)
            chain = [cls]
            for b in cls.bases:
                if isinstance(b, ast.Name) and b.id in classes:
                    chain.append(classes[b.id])
            for c in reversed(chain):
                for m in c.body:
                    if isinstance(m, ast.FunctionDef):
                        methods[m.name] = m
            if '__iter__' not in methods:
                continue
            writes, effects = set(), set()
            _scan_method(methods, '__iter__', set(), writes, effects, '%s:%s' % (rel, cname))
            out.append((rel[:-3].replace('/', '.'), cname, sorted(writes), sorted(effects)))
    if len(out) < 50:
        raise TranslationError('Catalogue', 'only %d view classes found (source layout changed?)' % len(out))
    return out


def generate_catalogue():
    views = view_classes()
    out = []
    w = out.append
    w('(* GENERATED on every run by translator/facts.py from /repo/petl/**/*.py. *)')
    w('From Coq Require Import String List Bool.')
    w('Import ListNotations.')
    w('Open Scope string_scope.')
    w('Record view_fact := { vf_module : string; vf_class : string; vf_writes : list string; vf_effects : list string }.')
    w('Definition view_count : nat := %d.' % len(views))
    w('(* only the views whose __iter__ (transitively) writes shared state; all others are stateless *)')
    w('Definition stateful_views : list view_fact := [')
    rows = []
    for m, c, ws, es in views:
        if ws or es:
            rows.append('  {| vf_module := %s; vf_class := %s; vf_writes := [%s]; vf_effects := [%s] |}'
                        % (coq_string(m), coq_string(c), '; '.join(coq_string(x) for x in ws),
                           '; '.join(coq_string(x) for x in es)))
    w(';\n'.join(rows))
    w('].')
    w('')
    return '\n'.join(out)
