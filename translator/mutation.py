"""Who may be mutated: atoms of petl's functions  ->  coq/gen/MutGen.v   (model: coq/model/Alias.v).

For every function of the listed modules the body is reduced to the SET of its atomic statements over variables:
    AFresh x   x = list(...) / [...] / {...} / a comprehension / dict() / set() / deque() / sorted(...) / y[a:b] / y + z /
               tuple(...) / a constant ...                       (a newly allocated object)
    ASrc x     x is a parameter, the target of a loop over a source, x = next(it)        (an object of the caller)
    AExt x     x = <any other call or attribute>                                          (unknown origin)
    ACopy x y  x = y ;  x = y[i] is ACopy x y[] where y[] stands for "an element of y";  x = self.a is ACopy x self.a
    AMut x     x.append / extend / insert / pop / remove / sort / reverse / clear / update / add / discard / setdefault /
               popleft / appendleft / popitem (...),  x[i] = ...,  del x[i],  x += ... when x may be a mutable object
    AYield x   yield x   (yield <expression building a new tuple / list> delivers a fresh object and needs no atom)
Elements: storing e into x (x[i] = e, x.append(e), x.setdefault(k, e) ...) defines x[] from e; x = list(y) / tuple(y) /
sorted(y) copies y[] to x[]; a variable bound to a caller's object has caller's objects as elements.
The alias classes (connected components of the copy edges) are computed here and CHECKED in Coq (copies_ok).
"""
import ast
import json
import os
from .common import TranslationError, parse_module
from . import streaming

MODULES = streaming.MODULES
MUT_METHODS = {'append', 'extend', 'insert', 'pop', 'remove', 'sort', 'reverse', 'clear', 'update', 'add', 'discard',
               'setdefault', 'popleft', 'appendleft', 'popitem', 'extendleft', 'rotate'}
STORE_ELEM = {'append': 0, 'add': 0, 'appendleft': 0, 'insert': 1, 'setdefault': 1}
FRESH_CALLS = {'list', 'dict', 'set', 'frozenset', 'deque', 'Counter', 'defaultdict', 'OrderedDict', 'sorted', 'tuple',
               'bytearray', 'str', 'int', 'float', 'bool', 'len', 'repr', 'text_type', 'range', 'zip', 'map', 'enumerate',
               'sum', 'min', 'max', 'abs', 'round', 'type', 'isinstance', 'callable', 'hasattr', 'format', 'join', 'split',
               'strip', 'lower', 'upper', 'copy', 'deepcopy', 'namedtuple', 'Record', 'asdict', 'asindices', 'rowgetter',
               'itemgetter', 'attrgetter', 'comparable_itemgetter', 'Comparable', 'count', 'index', 'keys', 'values', 'items',
               'iter', 'islice', 'chain', 'izip_longest', 'zip_longest', 'time', 'perf_counter', 'compile', 'Random', 'hash'}
COPY_ELEMS = {'list', 'tuple', 'sorted', 'set', 'frozenset', 'deque', 'reversed'}


class Atoms(object):
    def __init__(self, fn, cls=None):
        self.fn = fn
        self.cls = cls
        self.atoms = []            # (kind, x, y)
        self.maybe_mutable = set()
        self.sk = streaming.Skel(fn)      # for the source kinds of iterables (same taint analysis as C02)
        params = [a.arg for a in fn.args.args + fn.args.kwonlyargs]
        if fn.args.vararg:
            params.append(fn.args.vararg.arg)
        if fn.args.kwarg:
            params.append(fn.args.kwarg.arg)
        for p in params:
            if p == 'self':
                continue
            self.emit('ASrc', p)
            self.emit('ASrc', p + '[]')
            self.maybe_mutable.add(p)
        if cls is not None:
            for m in cls.body:
                if isinstance(m, ast.FunctionDef):
                    for n in ast.walk(m):
                        if isinstance(n, ast.Assign):
                            for t in n.targets:
                                if isinstance(t, ast.Attribute) and isinstance(t.value, ast.Name) and t.value.id == 'self':
                                    self.define('self.' + t.attr, n.value)

    def emit(self, kind, x, y=None):
        a = (kind, x, y)
        if a not in self.atoms:
            self.atoms.append(a)

    # ---- names of the objects expressions denote ---------------------------------------------------------------------------
    def ref(self, e):
        """the variable that stands for the object e evaluates to, or None when e builds a new / unknown object"""
        if isinstance(e, ast.Name):
            return e.id
        if isinstance(e, ast.Attribute) and isinstance(e.value, ast.Name) and e.value.id == 'self':
            return 'self.' + e.attr
        if isinstance(e, ast.Subscript) and not isinstance(e.slice, ast.Slice):
            r = self.ref(e.value)
            return (r + '[]') if r else None
        if isinstance(e, ast.Starred):
            return self.ref(e.value)
        return None

    def define(self, x, e):
        """atoms for `x = e`"""
        if e is None:
            return
        if isinstance(e, ast.IfExp):
            self.define(x, e.body)
            self.define(x, e.orelse)
            return
        if isinstance(e, ast.BoolOp):
            for v in e.values:
                self.define(x, v)
            return
        r = self.ref(e)
        if r is not None:
            self.emit('ACopy', x, r)
            self.emit('ACopy', x + '[]', r + '[]')
            self.maybe_mutable.add(x)
            return
        if isinstance(e, ast.Call):
            nm = streaming._call_name(e)
            if nm == 'next' and e.args and self.sk.is_iter(e.args[0]):
                self.emit('ASrc', x)
                self.emit('ASrc', x + '[]')
                self.maybe_mutable.add(x)
                return
            if nm in FRESH_CALLS:
                self.emit('AFresh', x)
                if nm in ('list', 'dict', 'set', 'deque', 'Counter', 'defaultdict', 'OrderedDict', 'sorted', 'bytearray'):
                    self.maybe_mutable.add(x)
                if nm in COPY_ELEMS and e.args:
                    r0 = self.ref(e.args[0])
                    if r0:
                        self.emit('ACopy', x + '[]', r0 + '[]')
                    else:
                        self.emit('AExt', x + '[]')
                elif nm == 'defaultdict' and e.args and isinstance(e.args[0], ast.Name) and e.args[0].id in ('list', 'dict', 'set'):
                    self.emit('AFresh', x + '[]')
                else:
                    self.emit('AExt', x + '[]')
                return
            self.emit('AExt', x)
            self.emit('AExt', x + '[]')
            self.maybe_mutable.add(x)
            return
        if isinstance(e, (ast.List, ast.Set, ast.Tuple)):
            self.emit('AFresh', x)
            if not isinstance(e, ast.Tuple):
                self.maybe_mutable.add(x)
            for el in e.elts:
                self.define(x + '[]', el)
            return
        if isinstance(e, ast.Dict):
            self.emit('AFresh', x)
            self.maybe_mutable.add(x)
            for el in e.values:
                self.define(x + '[]', el)
            return
        if isinstance(e, (ast.ListComp, ast.SetComp, ast.DictComp)):
            self.emit('AFresh', x)
            self.maybe_mutable.add(x)
            self.define(x + '[]', e.value if isinstance(e, ast.DictComp) else e.elt)
            return
        if isinstance(e, ast.GeneratorExp):
            self.emit('AFresh', x)
            self.define(x + '[]', e.elt)
            return
        if isinstance(e, ast.Subscript):          # a slice: a new container with the same elements
            self.emit('AFresh', x)
            self.maybe_mutable.add(x)
            r0 = self.ref(e.value)
            if r0:
                self.emit('ACopy', x + '[]', r0 + '[]')
            else:
                self.emit('AExt', x + '[]')
            return
        if isinstance(e, ast.BinOp):
            self.emit('AFresh', x)
            for side in (e.left, e.right):
                r0 = self.ref(side)
                if r0:
                    self.emit('ACopy', x + '[]', r0 + '[]')
                    self.maybe_mutable.add(x)
                elif isinstance(side, (ast.List, ast.ListComp, ast.Call)):
                    self.maybe_mutable.add(x)
            return
        if isinstance(e, (ast.Constant, ast.Compare, ast.UnaryOp, ast.JoinedStr, ast.Lambda)):
            self.emit('AFresh', x)
            return
        if isinstance(e, ast.Attribute):
            self.emit('AExt', x)
            self.emit('AExt', x + '[]')
            self.maybe_mutable.add(x)
            return
        if isinstance(e, (ast.Yield, ast.Await)):
            self.emit('AExt', x)
            return
        self.emit('AExt', x)
        self.maybe_mutable.add(x)

    def bind_targets(self, target, value_kind, src=None):
        """loop / unpacking targets.  value_kind: 'src' (rows of a source), ('elem', y) (elements of y), 'ext'"""
        names = []
        if isinstance(target, ast.Name):
            names = [(target.id, 0)]
        elif isinstance(target, (ast.Tuple, ast.List)):
            for t in target.elts:
                self.bind_targets(t, value_kind if value_kind in ('src', 'ext') else ('elem', value_kind[1] + '[]'))
            return
        elif isinstance(target, ast.Starred):
            self.bind_targets(target.value, value_kind)
            return
        else:
            return
        for nm, _ in names:
            self.maybe_mutable.add(nm)
            if value_kind == 'src':
                self.emit('ASrc', nm)
                self.emit('ASrc', nm + '[]')
            elif value_kind == 'ext':
                self.emit('AExt', nm)
                self.emit('AExt', nm + '[]')
            else:
                self.emit('ACopy', nm, value_kind[1])
                self.emit('ACopy', nm + '[]', value_kind[1] + '[]')

    def iter_kind(self, it):
        """what iterating `it` hands out"""
        k = self.sk.kind(it)
        if k is not None and k != 'coll':
            return 'src'
        r = self.ref(it)
        if r is not None:
            return ('elem', r + '[]')
        if isinstance(it, ast.Call):
            nm = streaming._call_name(it)
            if nm in ('enumerate', 'zip', 'izip', 'izip_longest', 'zip_longest', 'reversed', 'sorted', 'list', 'tuple', 'islice'):
                kinds = [self.iter_kind(a) for a in it.args]
                if any(k2 == 'src' for k2 in kinds):
                    return 'src'
                refs = [k2 for k2 in kinds if isinstance(k2, tuple)]
                if refs:
                    return refs[0] if nm not in ('enumerate', 'zip', 'izip', 'izip_longest', 'zip_longest') else 'ext'
            if nm in ('range', 'xrange'):
                return None
            if nm in ('items', 'values', 'keys') and isinstance(it.func, ast.Attribute):
                r = self.ref(it.func.value)
                if r:
                    return ('elem', r + '[]') if nm == 'values' else 'ext'
        return 'ext'

    # ---- walk --------------------------------------------------------------------------------------------------------------
    def run(self):
        for n in ast.walk(self.fn):
            if n is not self.fn and isinstance(n, (ast.FunctionDef, ast.Lambda)):
                continue
            self.visit(n)
        return self

    def visit(self, n):
        if isinstance(n, ast.Assign):
            # keep the C02 taint environment roughly in step (flow-insensitive here: any assignment taints)
            try:
                self.sk._assign(n.targets, n.value)
            except Exception:
                pass
            for t in n.targets:
                if isinstance(t, ast.Name):
                    self.define(t.id, n.value)
                elif isinstance(t, (ast.Tuple, ast.List)):
                    if isinstance(n.value, (ast.Tuple, ast.List)) and len(n.value.elts) == len(t.elts):
                        for tt, vv in zip(t.elts, n.value.elts):
                            if isinstance(tt, ast.Name):
                                self.define(tt.id, vv)
                            else:
                                self.store(tt, vv)
                    else:
                        r = self.ref(n.value)
                        if r:
                            self.bind_targets(t, ('elem', r + '[]'))
                        elif isinstance(n.value, ast.Call) and streaming._call_name(n.value) == 'next' and n.value.args \
                                and self.sk.is_iter(n.value.args[0]):
                            self.bind_targets(t, 'src')
                        else:
                            self.bind_targets(t, 'ext')
                else:
                    self.store(t, n.value)
        elif isinstance(n, ast.AugAssign):
            if isinstance(n.target, ast.Name):
                if n.target.id in self.maybe_mutable or isinstance(n.value, (ast.List, ast.ListComp)):
                    self.pending_aug = getattr(self, 'pending_aug', [])
                    self.pending_aug.append(n.target.id)
            else:
                self.store(n.target, n.value)
        elif isinstance(n, ast.Delete):
            for t in n.targets:
                if isinstance(t, ast.Subscript):
                    self.mutate(t.value)
        elif isinstance(n, (ast.For, ast.comprehension)):
            k = self.iter_kind(n.iter)
            if k is not None:
                self.bind_targets(n.target, k)
        elif isinstance(n, ast.With):
            for it in n.items:
                if it.optional_vars is not None and isinstance(it.optional_vars, ast.Name):
                    self.emit('AExt', it.optional_vars.id)
        elif isinstance(n, ast.ExceptHandler):
            if n.name:
                self.emit('AFresh', n.name)
        elif isinstance(n, ast.Call):
            if isinstance(n.func, ast.Attribute) and n.func.attr in MUT_METHODS:
                self.mutate(n.func.value)
                pos = STORE_ELEM.get(n.func.attr)
                r = self.ref(n.func.value)
                if r is not None:
                    if pos is not None and len(n.args) > pos:
                        self.define(r + '[]', n.args[pos])
                    elif n.func.attr in ('extend', 'update', 'extendleft') and n.args:
                        r0 = self.ref(n.args[0])
                        if r0:
                            self.emit('ACopy', r + '[]', r0 + '[]')
                        else:
                            self.emit('AExt', r + '[]')
        elif isinstance(n, ast.Yield):
            if n.value is not None:
                self.yield_(n.value)
        elif isinstance(n, ast.YieldFrom):
            r = self.ref(n.value)
            if r:
                self.emit('AYield', r + '[]')

    def yield_(self, e):
        if isinstance(e, ast.IfExp):
            self.yield_(e.body)
            self.yield_(e.orelse)
            return
        r = self.ref(e)
        if r is not None:
            self.emit('AYield', r)

    def store(self, target, value):
        """target[...] = value  /  target.attr = value"""
        if isinstance(target, ast.Subscript):
            self.mutate(target.value)
            r = self.ref(target.value)
            if r is not None and value is not None and not isinstance(target.slice, ast.Slice):
                self.define(r + '[]', value)
        elif isinstance(target, ast.Attribute):
            if isinstance(target.value, ast.Name) and target.value.id == 'self':
                return                       # the view's own fields: C01's business
            self.mutate(target.value)

    def mutate(self, recv):
        r = self.ref(recv)
        if r is None:
            # a mutation of something that has no name here: bind a fresh name to it, of unknown origin
            r = '<anon%d>' % len(self.atoms)
            self.emit('AExt', r)
        self.emit('AMut', r)

    def finish(self):
        for x in getattr(self, 'pending_aug', []):
            if x in self.maybe_mutable:
                self.emit('AMut', x)
        # every variable that is used but never defined is of unknown origin
        defined = {x for k, x, y in self.atoms if k in ('AFresh', 'ASrc', 'AExt', 'ACopy')}
        used = {x for k, x, y in self.atoms} | {y for k, x, y in self.atoms if y}
        for v in sorted(used - defined):
            self.emit('AExt', v)
        # only what matters: classes that are mutated or yielded (and what they are connected to)
        return self.atoms


def components(atoms):
    parent = {}

    def find(x):
        parent.setdefault(x, x)
        while parent[x] != x:
            parent[x] = parent[parent[x]]
            x = parent[x]
        return x
    for k, x, y in atoms:
        find(x)
        if k == 'ACopy':
            find(y)
            parent[find(x)] = find(y)
    roots = {}
    comp = {}
    for v in sorted(parent):
        r = find(v)
        roots.setdefault(r, len(roots) + 1)
        comp[v] = roots[r]
    return comp


def prune(atoms):
    """keep only the atoms of alias classes that contain a mutation or (a yield and a mutation elsewhere is irrelevant) —
    i.e. classes with an AMut; AYield atoms are kept when their class has an AMut.  Dropping other classes cannot change
    the verdict of imm_ok (they contribute `true` to every conjunct)."""
    comp = components(atoms)
    hot = {comp[x] for k, x, y in atoms if k == 'AMut'}
    return [(k, x, y) for k, x, y in atoms if comp[x] in hot]


def functions():
    out = []
    for rel in MODULES:
        mod, _ = parse_module(rel)
        modname = rel[:-3].replace('/', '.')
        for n in mod.body:
            if isinstance(n, ast.FunctionDef):
                out.append(('%s.%s' % (modname, n.name), n, None))
            elif isinstance(n, ast.ClassDef):
                for m in n.body:
                    if isinstance(m, ast.FunctionDef):
                        out.append(('%s.%s.%s' % (modname, n.name, m.name), m, n))
    return out


def analyse():
    res = []
    for name, fn, cls in functions():
        a = Atoms(fn, cls).run()
        atoms = prune(a.finish())
        comp = components(atoms)
        res.append((name, atoms, comp))
    return res


def conjuncts(atoms, comp):
    """(copies_ok, muts_clean, yields_ok) as in coq/model/Alias.v"""
    def clean(c):
        return not any(k in ('ASrc', 'AExt') and comp[x] == c for k, x, y in atoms)
    copies = all(comp[x] == comp[y] for k, x, y in atoms if k == 'ACopy')
    muts = all(clean(comp[x]) for k, x, y in atoms if k == 'AMut')
    mutated = {comp[x] for k, x, y in atoms if k == 'AMut'}
    ylds = all(comp[x] not in mutated for k, x, y in atoms if k == 'AYield')
    return copies, muts, ylds


def imm_ok(atoms, comp):
    return all(conjuncts(atoms, comp))


def expected():
    p = os.path.join(os.path.dirname(os.path.abspath(__file__)), 'mutation_expected.json')
    with open(p) as f:
        return json.load(f)


def generate():
    res = analyse()
    lines = ['(* GENERATED by translator/mutation.py from the petl sources — do not edit. *)',
             'From Verif Require Import Alias.', 'From Coq Require Import List String.', 'Import ListNotations.',
             'Open Scope string_scope.', '',
             '(* (function, alias class of each variable, atomic statements); variables are numbered per function *)',
             'Definition mut_progs : list (string * list (nat * nat) * list atom) :=', '  [']
    items = []
    for name, atoms, comp in res:
        idx = {v: i + 1 for i, v in enumerate(sorted(comp))}

        def term(a):
            k, x, y = a
            return '%s %d %d' % (k, idx[x], idx[y]) if k == 'ACopy' else '%s %d' % (k, idx[x])
        cl = '; '.join('(%d, %d)' % (idx[v], comp[v]) for v in sorted(comp))
        at = '; '.join(term(a) for a in atoms)
        items.append('   ("%s", [%s],\n    [%s])' % (name, cl, at))
    lines.append(';\n'.join(items))
    lines += ['  ].', '']
    exp = expected()
    for nm, key in (('expected_immutable', 'ok'), ('expected_copies_ok', 'copies_ok'), ('expected_muts_clean', 'muts_clean'),
                    ('expected_yields_ok', 'yields_ok')):
        lines += ['Definition %s : list string :=' % nm,
                  '  [' + '; '.join('"%s"' % n for n in sorted(exp[key])) + '].', '']
    return '\n'.join(lines) + '\n'


if __name__ == '__main__':
    import sys
    res = analyse()
    ok = sorted(n for n, a, c in res if imm_ok(a, c))
    bad = sorted(n for n, a, c in res if not imm_ok(a, c))
    cj = {n: conjuncts(a, c) for n, a, c in res}
    if '--write' in sys.argv:
        with open(os.path.join(os.path.dirname(os.path.abspath(__file__)), 'mutation_expected.json'), 'w') as f:
            json.dump({'ok': ok, 'not_verified_statically': bad,
                       'copies_ok': sorted(n for n in cj if cj[n][0]), 'muts_clean': sorted(n for n in cj if cj[n][1]),
                       'yields_ok': sorted(n for n in cj if cj[n][2])}, f, indent=1, sort_keys=True)
    print(len(ok), 'ok;', len(bad), 'not verified statically')
    for n in bad:
        a, c = [(a, c) for nn, a, c in res if nn == n][0]
        print(' ', n, [(k, x, y) for k, x, y in a if k in ('AMut', 'AYield')][:6])
