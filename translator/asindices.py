"""petl/util/base.py: asindices  ->  coq/gen/AsIndicesGen.v   (fail-closed).

Grammar: flds = list(map(text_type, hdr)); indices = list();
         if not isinstance(spec, (list, tuple)): spec = (spec,)
         for s in spec:  if/elif/else chain whose tests are
              isinstance(s, int) and s < len(hdr)        (T_INT)
              s in flds                                    (T_NAME)
            and whose bodies are
              indices.append(s)                            (by index)
              idx = flds.index(s); indices.append(idx); [flds[idx] = None]   (by name, optionally consuming it)
              raise FieldSelectionError(s)
         return indices
"""
import ast
from .common import TranslationError, parse_module, find_func, strip_doc

ITEM = 'petl.util.base.asindices'


def _d(s):
    return ast.dump(ast.parse(s).body[0])


def generate():
    mod, _ = parse_module('petl/util/base.py')
    fn = find_func(mod.body, 'asindices')
    if fn is None:
        raise TranslationError(ITEM, 'missing')
    if [a.arg for a in fn.args.args] != ['hdr', 'spec']:
        raise TranslationError(ITEM, 'unexpected signature', fn)
    body = strip_doc(fn.body)
    if len(body) != 5:
        raise TranslationError(ITEM, 'expected 5 statements, found %d' % len(body), fn)
    if ast.dump(body[0]) != _d('flds = list(map(text_type, hdr))'):
        raise TranslationError(ITEM, 'expected `flds = list(map(text_type, hdr))`', body[0])
    if ast.dump(body[1]) not in (_d('indices = list()'), _d('indices = []')):
        raise TranslationError(ITEM, 'expected `indices = list()`', body[1])
    if ast.dump(body[2]) != _d('if not isinstance(spec, (list, tuple)):\n    spec = (spec,)'):
        raise TranslationError(ITEM, 'expected the scalar-spec wrapping', body[2])
    loop = body[3]
    if not (isinstance(loop, ast.For) and isinstance(loop.target, ast.Name) and loop.target.id == 's'
            and isinstance(loop.iter, ast.Name) and loop.iter.id == 'spec' and not loop.orelse):
        raise TranslationError(ITEM, 'expected `for s in spec:`', loop)
    if ast.dump(body[4]) != _d('def f():\n    return indices').replace('', '') and \
            ast.dump(body[4]) != ast.dump(ast.parse('def f():\n    return indices').body[0].body[0]):
        raise TranslationError(ITEM, 'expected `return indices`', body[4])
    lbody = [s for s in loop.body if not (isinstance(s, ast.Expr) and isinstance(s.value, ast.Constant))]
    if len(lbody) != 1 or not isinstance(lbody[0], ast.If):
        raise TranslationError(ITEM, 'loop body is not a single if-chain', loop)
    T_INT = ast.dump(ast.parse('isinstance(s, int) and s < len(hdr)').body[0].value)
    T_NAME = ast.dump(ast.parse('s in flds').body[0].value)
    B_INDEX = [_d('indices.append(s)')]
    B_NAME_MARK = [_d('idx = flds.index(s)'), _d('indices.append(idx)'), _d('flds[idx] = None')]
    B_NAME_NOMARK = B_NAME_MARK[:2]
    B_RAISE = [_d('raise FieldSelectionError(s)')]

    def body_kind(stmts):
        d = [ast.dump(s) for s in stmts]
        if d == B_INDEX:
            return 'BIndex'
        if d == B_NAME_MARK:
            return 'BNameConsume'
        if d == B_NAME_NOMARK:
            return 'BNameKeep'
        if d == B_RAISE:
            return 'BRaise'
        raise TranslationError(ITEM, 'branch body outside the grammar', stmts[0])

    chain = []
    node = lbody[0]
    while True:
        t = ast.dump(node.test)
        if t == T_INT:
            tk = 'TInt'
        elif t == T_NAME:
            tk = 'TName'
        else:
            raise TranslationError(ITEM, 'test outside the grammar', node.test)
        chain.append((tk, body_kind(node.body)))
        if len(node.orelse) == 1 and isinstance(node.orelse[0], ast.If):
            node = node.orelse[0]
            continue
        if not node.orelse:
            raise TranslationError(ITEM, 'if-chain has no else branch', node)
        final = body_kind(node.orelse)
        break

    out = []
    w = out.append
    w('(* GENERATED on every run by translator/asindices.py from /repo/petl/util/base.py (asindices). *)')
    w('From Verif Require Import PyVal Rows.')
    w('Open Scope Z_scope.')
    w('')
    w('Inductive ai_test := TInt | TName.')
    w('Inductive ai_body := BIndex | BNameConsume | BNameKeep | BRaise.')
    w('Definition ai_chain : list (ai_test * ai_body) := [%s].' % '; '.join('(%s, %s)' % c for c in chain))
    w('Definition ai_else : ai_body := %s.' % final)
    w('')
    w('Definition ai_test_holds (t : ai_test) (hdrlen : Z) (flds : list val) (s : val) : bool :=')
    w('  match t with')
    w('  | TInt => is_int s && (int_of s <? hdrlen)')
    w('  | TName => py_in s flds')
    w('  end.')
    w('')
    w('Definition ai_run_body (b : ai_body) (flds : list val) (indices : list Z) (s : val)')
    w('  : res (list val * list Z) :=')
    w('  match b with')
    w('  | BIndex => Ok (flds, indices ++ [int_of s])')
    w('  | BNameConsume => match py_index s flds with')
    w('                    | Some idx => Ok (set_nth (Z.to_nat idx) VNone flds, indices ++ [idx])')
    w('                    | None => Err ValueErr')
    w('                    end')
    w('  | BNameKeep => match py_index s flds with')
    w('                 | Some idx => Ok (flds, indices ++ [idx])')
    w('                 | None => Err ValueErr')
    w('                 end')
    w('  | BRaise => Err FieldSelectionErr')
    w('  end.')
    w('')
    w('Fixpoint ai_dispatch (chain : list (ai_test * ai_body)) (hdrlen : Z) (flds : list val) (indices : list Z)')
    w('  (s : val) : res (list val * list Z) :=')
    w('  match chain with')
    w('  | [] => ai_run_body ai_else flds indices s')
    w('  | (t, b) :: rest => if ai_test_holds t hdrlen flds s then ai_run_body b flds indices s')
    w('                      else ai_dispatch rest hdrlen flds indices s')
    w('  end.')
    w('')
    w('Fixpoint ai_loop (hdrlen : Z) (flds : list val) (indices : list Z) (spec : list val) : res (list Z) :=')
    w('  match spec with')
    w('  | [] => Ok indices')
    w('  | s :: rest => match ai_dispatch ai_chain hdrlen flds indices s with')
    w('                 | Ok (flds\', indices\') => ai_loop hdrlen flds\' indices\' rest')
    w('                 | Err e => Err e')
    w('                 end')
    w('  end.')
    w('')
    w('(* asindices(hdr, spec): a non-list/tuple spec is wrapped into a 1-tuple *)')
    w('Definition asindices (hdr : row) (spec : val) : res (list Z) :=')
    w('  let specl := match spec with VSeq _ l => l | _ => [spec] end in')
    w('  ai_loop (zlen hdr) (map hdr_text hdr) [] specl.')
    w('')
    return '\n'.join(out)
