"""Generators shared by all properties (DESIGN.md 2.5). Every choice derives from the rng passed in."""
import datetime
from decimal import Decimal

D = datetime.date
DT = datetime.datetime
TM = datetime.time

# scalar basis built to collide: equal numbers of different kinds, prefixes, same-day date/datetime, ...
SCALARS = [
    None, False, True, 0, 1, 1.0, Decimal('1'), -1, 2, 2 ** 70, 0.5, Decimal('0.5'), float('inf'), float('-inf'),
    Decimal('Infinity'), -2.5, 10, 3,
    '', 'a', 'A', 'ab', 'b', 'é', '1', 'None',
    b'', b'a', b'ab', b'b',
    D(2000, 1, 1), D(2000, 1, 2), DT(2000, 1, 1), DT(2000, 1, 1, 0, 0, 1), DT(2000, 1, 2), TM(0), TM(0, 0, 1),
    TM(12, 30),
]


def scalar(rng):
    r = rng.random()
    if r < 0.85:
        return rng.choice(SCALARS)
    if r < 0.92:
        return rng.randint(-5, 5)
    if r < 0.96:
        return ''.join(rng.choice('abABé ') for _ in range(rng.randint(0, 3)))
    return rng.choice([0.25, 1e10, -0.0, 3.5, Decimal('2.50'), Decimal('-1')])


def value(rng, depth=2):
    """A value of the C04 domain: scalars and nested tuples/lists."""
    if depth > 0 and rng.random() < 0.25:
        n = rng.choice([0, 1, 1, 2, 2, 3])
        items = [value(rng, depth - 1) for _ in range(n)]
        return list(items) if rng.random() < 0.4 else tuple(items)
    return scalar(rng)


def hashable_value(rng, depth=1):
    if depth > 0 and rng.random() < 0.15:
        return tuple(hashable_value(rng, depth - 1) for _ in range(rng.choice([0, 1, 2])))
    return scalar(rng)


KEY_ALPHABETS = [
    [None, 0, 1, 'a'],
    [None, 1, 1.0, True, 'a', b'a'],
    [0, 1, 2],
    ['a', 'b', 'A', ''],
    [None, D(2000, 1, 1), DT(2000, 1, 1), 1],
    [None, (1,), (1, 'a'), 1, 'a'],
    [2, 10, '2', '10', None],
]


def key_alphabet(rng):
    return rng.choice(KEY_ALPHABETS)


FIELDNAMES = ['foo', 'bar', 'baz', 'qux', 'id', 'x', 'y']


def header(rng, n=None, allow_dup=False):
    if n is None:
        n = rng.choice([1, 2, 2, 3, 3, 4])
    if allow_dup and rng.random() < 0.2:
        return [rng.choice(FIELDNAMES[:3]) for _ in range(n)]
    return rng.sample(FIELDNAMES, n)


def table(rng, maxrows=8, ncols=None, ragged=False, alphabet=None, cell=None, rows_as='tuple',
          allow_dup_fields=False, minrows=0):
    """A table as a list: header (list of str) + rows."""
    hdr = header(rng, ncols, allow_dup_fields)
    n = rng.randint(minrows, maxrows)
    if rng.random() < 0.15:
        n = minrows
    if alphabet is None and cell is None:
        alphabet = key_alphabet(rng) if rng.random() < 0.7 else None
    rows = []
    for _ in range(n):
        w = len(hdr)
        if ragged and rng.random() < 0.3:
            w = rng.choice([0, max(0, w - 1), w + 1, max(0, w - 2)])
        r = []
        for _j in range(w):
            if cell is not None:
                r.append(cell(rng))
            elif alphabet is not None and rng.random() < 0.85:
                r.append(rng.choice(alphabet))
            else:
                r.append(scalar(rng))
        rows.append(r)
    if rows_as == 'tuple':
        rows = [tuple(r) for r in rows]
    elif rows_as == 'mixed':
        rows = [tuple(r) if rng.random() < 0.5 else list(r) for r in rows]
    return [list(hdr) if rows_as != 'tuple' else tuple(hdr)] + rows


def freeze(t):
    """Table with every row a tuple (for use as a case argument)."""
    return tuple(tuple(r) for r in t)
