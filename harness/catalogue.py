"""The operator catalogue shared by C01, C02, C03 and C20: every public table-returning constructor of petl.transform /
petl.util (and the extractors that can run offline), with a way to build it over given source tables.

Standard sources have header ('k', 'a', 'v'):  k = key cells (None / ints / text), a = short text, v = small ints.
An entry:
  name    public function (with a variant suffix)
  nsrc    number of source tables
  make    lambda srcs -> view (or tuple of views; 'pick' selects one)
  flags   'stream'  : streaming operator of C02 (O(k) pulls for k rows)
          'sorted'  : sort-backed (materialises by design)
          'build'   : materialises ONE side by design (hash joins: the side at index build_side)
          'expand'/'drop' : documented to emit more / fewer rows than the input
          'noh'     : NOT expected to accept header-only input gracefully (documented / meaningless); excluded from C20
  prep    optional transformer of the standard source cells for operators that need special cells
A completeness test compares the names here with the exports of petl.transform / petl.util on every run.
"""
import operator


def _zoo():
    from . import zoo
    return zoo


def _etl():
    import petl as etl
    return etl


def _upper(v):
    return v.upper()


def _vplus(row):
    return row[2]


def _rowmap_f(row):
    return [row[0], row[2]]


def _rowmapmany_f(row):
    yield [row[0], 'a', row[1]]
    yield [row[0], 'v', row[2]]


def _ctx_query(prv, cur, nxt):
    return prv is None or prv[2] != cur[2]


def _ctx_add(prv, cur, nxt):
    return None if prv is None else prv[2]


def _rgm(key, rows):
    yield [key, len(list(rows))]


def prep_seq(t):
    """v cell becomes a 2-tuple (for unpack)."""
    return [list(t[0])] + [[r[0], r[1], (r[2], r[1])] + list(r[3:]) for r in t[1:]]


def prep_dict(t):
    return [list(t[0])] + [[r[0], r[1], {'p': r[2], 'q': r[1]}] + list(r[3:]) for r in t[1:]]


def prep_dict_uneven(t):
    """dict cells whose key sets differ from row to row"""
    out = [list(t[0])]
    for i, r in enumerate(t[1:]):
        d = {'p': r[2], 'q': r[1]} if i % 2 == 0 else {'q': r[1]}
        out.append([r[0], r[1], d] + list(r[3:]))
    return out


def prep_textkey(t):
    """k becomes text (for regex operators working on field k)."""
    return [list(t[0])] + [[('%s-%s' % (r[0], r[1])) if len(r) > 1 else str(r[0])] + list(r[1:]) for r in t[1:]]


def prep_melted(t):
    """(k, variable, value) rows for recast / pivot."""
    out = [['k', 'variable', 'value']]
    for r in t[1:]:
        if len(r) >= 3:
            out.append([r[0], 'a', r[1]])
            out.append([r[0], 'v', r[2]])
    return out


def prep_strkeys(t):
    return [list(t[0])] + [[str(r[0])] + list(r[1:]) for r in t[1:]]


def _mem(writer, table, **kw):
    import petl as etl
    m = etl.MemorySource()
    writer([tuple(r) for r in table], m, **kw)
    return etl.MemorySource(m.getvalue())


def _setitems(view, items):
    for k, v in items:
        view[k] = v
    return view


class LazyRows(object):
    """A table made of a header and a lazily produced sequence of rows (for accessors that return row iterables)."""
    def __init__(self, header, rows):
        self.header, self.rows = header, rows

    def __iter__(self):
        yield tuple(self.header)
        for r in self.rows():
            yield tuple(r)


def entries():
    etl = _etl()
    z = _zoo()
    E = []

    def add(name, nsrc, make, flags='', prep=None, pick=None):
        E.append({'name': name, 'nsrc': nsrc, 'make': make, 'flags': set(flags.split()), 'prep': prep, 'pick': pick})

    S = 'stream'
    # ---- basics
    add('cut', 1, lambda s: etl.cut(s[0], 'v', 'k'), S)
    add('cut:index', 1, lambda s: etl.cut(s[0], 0, 2), S)
    add('cutout', 1, lambda s: etl.cutout(s[0], 'a'), S)
    add('movefield', 1, lambda s: etl.movefield(s[0], 'v', 0), S)
    add('cat', 2, lambda s: etl.cat(s[0], s[1]), S)
    add('cat:header', 1, lambda s: etl.cat(s[0], header=['v', 'k', 'z']), S)
    add('stack', 2, lambda s: etl.stack(s[0], s[1]), S)
    add('stack:notrim', 2, lambda s: etl.stack(s[0], s[1], trim=False, missing='NA'), S)
    add('stack:nopad', 2, lambda s: etl.stack(s[0], s[1], pad=False), S)
    add('annex', 2, lambda s: etl.annex(s[0], s[1]), S)
    add('addcolumn:lazycol', 2, lambda s: etl.addcolumn(s[0], 'c', etl.values(s[1], 0)), S + ' nojudge')
    add('addfield', 1, lambda s: etl.addfield(s[0], 'n', 42), S)
    # suffix notation: arguments given after construction through __setitem__
    add('rename:setitem', 1, lambda s: _setitems(etl.rename(s[0]), [('a', 'b')]), S)
    add('convert:setitem', 1, lambda s: _setitems(etl.convert(s[0]), [('v', lambda v: v), ('a', 'upper')]), S)
    add('fieldmap:setitem', 1, lambda s: _setitems(etl.fieldmap(s[0]), [('kk', 'k'), ('vv', ('v', lambda v: v))]), S)
    add('addfield:fn', 1, lambda s: etl.addfield(s[0], 'n', lambda r: r['v'], index=1), S)
    add('addfields', 1, lambda s: etl.addfields(s[0], [('n', 1), ('m', lambda r: r['k'], 0)]), S)
    add('addcolumn', 1, lambda s: etl.addcolumn(s[0], 'c', [10, 20, 30]), S)
    add('addrownumbers', 1, lambda s: etl.addrownumbers(s[0]), S)
    add('addfieldusingcontext', 1, lambda s: etl.addfieldusingcontext(s[0], 'p', _ctx_add), S)
    add('rowslice', 1, lambda s: etl.rowslice(s[0], 1, 5, 2), S + ' drop')
    add('head', 1, lambda s: etl.head(s[0], 3), S + ' drop')
    add('tail', 1, lambda s: etl.tail(s[0], 2), 'drop')
    add('skipcomments', 1, lambda s: etl.skipcomments(s[0], '#'), S + ' drop')
    # ---- headers
    add('rename', 1, lambda s: etl.rename(s[0], 'a', 'b'), S)
    add('rename:dict', 1, lambda s: etl.rename(s[0], {'a': 'b', 'v': 'w'}), S)
    add('setheader', 1, lambda s: etl.setheader(s[0], ['x', 'y', 'z']), S)
    add('extendheader', 1, lambda s: etl.extendheader(s[0], ['e']), S)
    add('pushheader', 1, lambda s: etl.pushheader(s[0], ['x', 'y', 'z']), S + ' expand')
    add('skip', 1, lambda s: etl.skip(s[0], 1), S + ' drop')
    add('prefixheader', 1, lambda s: etl.prefixheader(s[0], 'p_'), S)
    add('suffixheader', 1, lambda s: etl.suffixheader(s[0], '_s'), S)
    add('sortheader', 1, lambda s: etl.sortheader(s[0]), S)
    # ---- conversions
    add('convert', 1, lambda s: etl.convert(s[0], 'a', _upper), S)
    add('convert:dict', 1, lambda s: etl.convert(s[0], {'a': _upper, 'v': str}), S)
    add('convert:where', 1, lambda s: etl.convert(s[0], 'v', lambda v: v * 2, where=lambda r: r['a'] == 'x'), S)
    add('convert:pass_row', 1, lambda s: etl.convert(s[0], 'v', lambda v, row: (v, row.a), pass_row=True), S)
    add('convertall', 1, lambda s: etl.convertall(s[0], str), S)
    add('convertnumbers', 1, lambda s: etl.convertnumbers(s[0]), S)
    add('replace', 1, lambda s: etl.replace(s[0], 'a', 'x', 'X'), S)
    add('replaceall', 1, lambda s: etl.replaceall(s[0], 'x', 'X'), S)
    add('update', 1, lambda s: etl.update(s[0], 'a', 'u'), S)
    add('format', 1, lambda s: etl.format(s[0], 'v', '{0:03d}'), S)
    add('formatall', 1, lambda s: etl.formatall(s[0], '<{0}>'), S)
    add('interpolate', 1, lambda s: etl.interpolate(s[0], 'v', '%03d'), S)
    add('interpolateall', 1, lambda s: etl.interpolateall(s[0], '<%s>'), S)
    # ---- selects
    add('select', 1, lambda s: etl.select(s[0], lambda r: r['v'] > 1), S + ' drop')
    add('select:field', 1, lambda s: etl.select(s[0], 'v', lambda v: v > 1), S + ' drop')
    add('select:expr', 1, lambda s: etl.select(s[0], '{v} > 1'), S + ' drop')
    add('select:complement', 1, lambda s: etl.select(s[0], lambda r: r['v'] > 1, complement=True), S + ' drop')
    add('selectop', 1, lambda s: etl.selectop(s[0], 'v', 2, operator.lt), S + ' drop')
    for nm, ref in (('selecteq', 2), ('selectne', 2), ('selectlt', 2), ('selectle', 2), ('selectgt', 2), ('selectge', 2)):
        add(nm, 1, (lambda f, ref: lambda s: f(s[0], 'v', ref))(getattr(etl, nm), ref), S + ' drop')
        add(nm + ':key', 1, (lambda f: lambda s: f(s[0], 'k', 1))(getattr(etl, nm)), S + ' drop')
    for nm in ('selectrangeopen', 'selectrangeopenleft', 'selectrangeopenright', 'selectrangeclosed'):
        add(nm, 1, (lambda f: lambda s: f(s[0], 'v', 1, 3))(getattr(etl, nm)), S + ' drop')
    add('selectin', 1, lambda s: etl.selectin(s[0], 'v', [1, 3]), S + ' drop')
    add('selectnotin', 1, lambda s: etl.selectnotin(s[0], 'v', [1, 3]), S + ' drop')
    add('selectis', 1, lambda s: etl.selectis(s[0], 'k', None), S + ' drop')
    add('selectisnot', 1, lambda s: etl.selectisnot(s[0], 'k', None), S + ' drop')
    add('selectisinstance', 1, lambda s: etl.selectisinstance(s[0], 'k', int), S + ' drop')
    add('selectcontains', 1, lambda s: etl.selectcontains(s[0], 'a', 'x'), S + ' drop')
    add('selecttrue', 1, lambda s: etl.selecttrue(s[0], 'k'), S + ' drop')
    add('selectfalse', 1, lambda s: etl.selectfalse(s[0], 'k'), S + ' drop')
    add('selectnone', 1, lambda s: etl.selectnone(s[0], 'k'), S + ' drop')
    add('selectnotnone', 1, lambda s: etl.selectnotnone(s[0], 'k'), S + ' drop')
    add('selectusingcontext', 1, lambda s: etl.selectusingcontext(s[0], _ctx_query), S + ' drop')
    add('rowlenselect', 1, lambda s: etl.rowlenselect(s[0], 3), S + ' drop')
    add('facet', 1, lambda s: etl.facet(s[0], 'a'), 'drop noh', pick=lambda d: d[sorted(d, key=repr)[0]] if d else None)
    add('biselect:true', 1, lambda s: etl.biselect(s[0], lambda r: r['v'] > 1), S + ' drop', pick=lambda p: p[0])
    add('biselect:false', 1, lambda s: etl.biselect(s[0], lambda r: r['v'] > 1), S + ' drop', pick=lambda p: p[1])
    # ---- sorts
    add('sort', 1, lambda s: etl.sort(s[0], 'k'), 'sorted')
    add('sort:nokey', 1, lambda s: etl.sort(s[0]), 'sorted')
    add('sort:buffered', 1, lambda s: etl.sort(s[0], 'k', buffersize=2), 'sorted')
    add('sort:nocache', 1, lambda s: etl.sort(s[0], 'k', cache=False), 'sorted')
    add('mergesort', 2, lambda s: etl.mergesort(s[0], s[1], key='k'), 'sorted')
    add('mergesort:presorted', 2, lambda s: etl.mergesort(s[0], s[1], key='k', presorted=True, missing='NA'))
    add('mergesort:header', 2, lambda s: etl.mergesort(s[0], s[1], key='k', header=['v', 'k', 'z'], presorted=True))
    # ---- joins
    for nm in ('join', 'leftjoin', 'rightjoin', 'outerjoin', 'antijoin', 'lookupjoin'):
        add(nm, 2, (lambda f: lambda s: f(s[0], etl.rename(s[1], {'a': 'b', 'v': 'w'}), key='k'))(getattr(etl, nm)), 'sorted')
    add('join:natural', 2, lambda s: etl.join(s[0], etl.rename(s[1], {'a': 'b', 'v': 'w'})), 'sorted')
    add('crossjoin', 2, lambda s: etl.crossjoin(s[0], etl.cut(s[1], 'v')), 'expand build')
    add('unjoin:left', 1, lambda s: etl.unjoin(s[0], 'a', key='k'), 'sorted', pick=lambda p: p[0])
    add('unjoin:right', 1, lambda s: etl.unjoin(s[0], 'a', key='k'), 'sorted', pick=lambda p: p[1])
    add('unjoin:nokey:left', 1, lambda s: etl.unjoin(s[0], 'a'), 'sorted', pick=lambda p: p[0])
    add('unjoin:nokey:right', 1, lambda s: etl.unjoin(s[0], 'a'), 'sorted', pick=lambda p: p[1])
    # ---- hash joins (stream the probe side, materialise the build side)
    for nm in ('hashjoin', 'hashleftjoin', 'hashantijoin', 'hashlookupjoin'):
        add(nm, 2, (lambda f: lambda s: f(s[0], etl.rename(s[1], {'a': 'b', 'v': 'w'}), key='k'))(getattr(etl, nm)),
            S + ' build')
    add('hashrightjoin', 2, lambda s: etl.hashrightjoin(s[0], etl.rename(s[1], {'a': 'b', 'v': 'w'}), key='k'),
        S + ' build buildleft')
    add('hashjoin:nocache', 2, lambda s: etl.hashjoin(s[0], etl.rename(s[1], {'a': 'b', 'v': 'w'}), key='k', cache=False),
        S + ' build')
    # ---- set operations
    add('complement', 2, lambda s: etl.complement(s[0], s[1]), 'sorted')
    add('complement:strict', 2, lambda s: etl.complement(s[0], s[1], strict=True), 'sorted')
    add('intersection', 2, lambda s: etl.intersection(s[0], s[1]), 'sorted')
    add('recordcomplement', 2, lambda s: etl.recordcomplement(s[0], etl.cut(s[1], 'v', 'k', 'a')), 'sorted')
    add('diff:added', 2, lambda s: etl.diff(s[0], s[1]), 'sorted', pick=lambda p: p[0])
    add('diff:subtracted', 2, lambda s: etl.diff(s[0], s[1]), 'sorted', pick=lambda p: p[1])
    add('recorddiff:added', 2, lambda s: etl.recorddiff(s[0], etl.cut(s[1], 'v', 'k', 'a')), 'sorted', pick=lambda p: p[0])
    add('recorddiff:subtracted', 2, lambda s: etl.recorddiff(s[0], etl.cut(s[1], 'v', 'k', 'a')), 'sorted',
        pick=lambda p: p[1])
    add('hashcomplement', 2, lambda s: etl.hashcomplement(s[0], s[1]), S + ' build')
    add('hashintersection', 2, lambda s: etl.hashintersection(s[0], s[1]), S + ' build')
    # ---- dedup
    add('duplicates', 1, lambda s: etl.duplicates(s[0], 'k'), 'sorted')
    add('unique', 1, lambda s: etl.unique(s[0], 'k'), 'sorted')
    add('conflicts', 1, lambda s: etl.conflicts(s[0], 'k'), 'sorted')
    add('distinct', 1, lambda s: etl.distinct(s[0]), 'sorted')
    add('distinct:key', 1, lambda s: etl.distinct(s[0], 'k'), 'sorted')
    add('distinct:count', 1, lambda s: etl.distinct(s[0], 'k', count='n'), 'sorted')
    # ---- reductions
    add('rowreduce', 1, lambda s: etl.rowreduce(s[0], 'k', z.REDUCER[0], header=['k', 'n']), 'sorted')
    add('mergeduplicates', 1, lambda s: etl.mergeduplicates(s[0], 'k'), 'sorted')
    add('aggregate', 1, lambda s: etl.aggregate(s[0], 'k', len), 'sorted')
    add('aggregate:value', 1, lambda s: etl.aggregate(s[0], 'k', sum, 'v'), 'sorted')
    add('aggregate:multi', 1, lambda s: etl.aggregate(s[0], 'k', [('n', len), ('s', 'v', sum)]), 'sorted')
    add('aggregate:nokey', 1, lambda s: etl.aggregate(s[0], None, [('n', len), ('s', 'v', sum)]), 'sorted')
    add('aggregate:nokey:simple', 1, lambda s: etl.aggregate(s[0], None, len), 'sorted')
    add('groupcountdistinctvalues', 1, lambda s: etl.groupcountdistinctvalues(s[0], 'k', 'a'), 'sorted')
    add('groupselectfirst', 1, lambda s: etl.groupselectfirst(s[0], 'k'), 'sorted')
    add('groupselectlast', 1, lambda s: etl.groupselectlast(s[0], 'k'), 'sorted')
    add('groupselectmin', 1, lambda s: etl.groupselectmin(s[0], 'k', 'v'), 'sorted')
    add('groupselectmax', 1, lambda s: etl.groupselectmax(s[0], 'k', 'v'), 'sorted')
    add('merge', 2, lambda s: etl.merge(s[0], s[1], key='k'), 'sorted')
    # ---- presorted=True: the sort-backed operators become streaming merges / run detectors (laziness is judged on these;
    #      the inputs need not be sorted for that)
    P = S + ' drop presorted'
    add('complement:presorted', 2, lambda s: etl.complement(s[0], s[1], presorted=True), P)
    add('intersection:presorted', 2, lambda s: etl.intersection(s[0], s[1], presorted=True), P)
    add('diff:presorted:added', 2, lambda s: etl.diff(s[0], s[1], presorted=True), P, pick=lambda p: p[0])
    add('diff:presorted:subtracted', 2, lambda s: etl.diff(s[0], s[1], presorted=True), P, pick=lambda p: p[1])
    for nm in ('join', 'leftjoin', 'rightjoin', 'outerjoin', 'antijoin', 'lookupjoin'):
        add(nm + ':presorted', 2, (lambda f: lambda s: f(s[0], etl.rename(s[1], {'a': 'b', 'v': 'w'}), key='k',
                                                          presorted=True))(getattr(etl, nm)), P)
    add('duplicates:presorted', 1, lambda s: etl.duplicates(s[0], 'k', presorted=True), P)
    add('unique:presorted', 1, lambda s: etl.unique(s[0], 'k', presorted=True), P)
    add('conflicts:presorted', 1, lambda s: etl.conflicts(s[0], 'k', presorted=True), P)
    add('distinct:presorted', 1, lambda s: etl.distinct(s[0], 'k', presorted=True), P)
    add('aggregate:presorted', 1, lambda s: etl.aggregate(s[0], 'k', len, presorted=True), P)
    add('aggregate:multi:presorted', 1, lambda s: etl.aggregate(s[0], 'k', [('n', len), ('s', 'v', sum)], presorted=True), P)
    add('rowreduce:presorted', 1, lambda s: etl.rowreduce(s[0], 'k', z.REDUCER[0], header=['k', 'n'], presorted=True), P)
    add('mergeduplicates:presorted', 1, lambda s: etl.mergeduplicates(s[0], 'k', presorted=True), P)
    add('groupselectfirst:presorted', 1, lambda s: etl.groupselectfirst(s[0], 'k', presorted=True), P)
    add('fold:presorted', 1, lambda s: etl.fold(s[0], 'k', z.FOLD2[1], 'v', presorted=True), P)
    add('fold', 1, lambda s: etl.fold(s[0], 'k', operator.add, 'v'), 'sorted')
    # ---- fills
    add('filldown', 1, lambda s: etl.filldown(s[0]), S)
    add('filldown:field', 1, lambda s: etl.filldown(s[0], 'k'), S)
    add('fillright', 1, lambda s: etl.fillright(s[0]), S)
    add('fillleft', 1, lambda s: etl.fillleft(s[0]), S)
    # ---- regex (text key)
    add('capture', 1, lambda s: etl.capture(s[0], 'k', '(.*)-(.*)', ['p', 'q']), S, prep=prep_textkey)
    add('capture:include', 1, lambda s: etl.capture(s[0], 'k', '(.*)-(.*)', ['p', 'q'], include_original=True), S,
        prep=prep_textkey)
    add('split', 1, lambda s: etl.split(s[0], 'k', '-', ['p', 'q']), S, prep=prep_textkey)
    add('search', 1, lambda s: etl.search(s[0], 'k', 'x'), S + ' drop', prep=prep_textkey)
    add('searchcomplement', 1, lambda s: etl.searchcomplement(s[0], 'k', 'x'), S + ' drop', prep=prep_textkey)
    add('sub', 1, lambda s: etl.sub(s[0], 'k', '-', '+'), S, prep=prep_textkey)
    add('splitdown', 1, lambda s: etl.splitdown(s[0], 'k', '-'), S + ' expand', prep=prep_textkey)
    # ---- reshape
    add('melt', 1, lambda s: etl.melt(s[0], 'k'), S + ' expand')
    add('melt:variables', 1, lambda s: etl.melt(s[0], key='k', variables=['v']), S + ' expand')
    add('recast', 1, lambda s: etl.recast(s[0]), 'sorted', prep=prep_melted)
    add('recast:variablefield', 1, lambda s: etl.recast(s[0], variablefield='variable', valuefield='value',
                                                        reducers={'a': list}), 'sorted', prep=prep_melted)
    add('transpose', 1, lambda s: etl.transpose(s[0]), 'sorted')
    add('pivot', 1, lambda s: etl.pivot(s[0], 'k', 'a', 'v', sum), 'sorted', prep=prep_strkeys)
    add('flatten', 1, lambda s: LazyRows(['value'], lambda: ([x] for x in etl.flatten(s[0]))), S + ' expand')
    add('unflatten', 1, lambda s: etl.unflatten(etl.values(s[0], 'v'), 2), S + ' drop noh')
    # ---- maps
    add('fieldmap', 1, lambda s: etl.fieldmap(s[0], {'kk': 'k', 'vv': ('v', lambda v: v * 2), 'r': _vplus}), S)
    add('rowmap', 1, lambda s: etl.rowmap(s[0], _rowmap_f, header=['k', 'v']), S)
    add('rowmapmany', 1, lambda s: etl.rowmapmany(s[0], _rowmapmany_f, header=['k', 'variable', 'value']), S + ' expand')
    add('rowgroupmap', 1, lambda s: etl.rowgroupmap(s[0], 'k', _rgm, header=['k', 'n']), 'sorted')
    # ---- unpacks
    add('unpack', 1, lambda s: etl.unpack(s[0], 'v', ['p', 'q']), S, prep=prep_seq)
    add('unpack:include', 1, lambda s: etl.unpack(s[0], 'v', ['p', 'q'], include_original=True), S, prep=prep_seq)
    add('unpackdict', 1, lambda s: etl.unpackdict(s[0], 'v', keys=['p', 'q']), S, prep=prep_dict)
    add('unpackdict:sample', 1, lambda s: etl.unpackdict(s[0], 'v', samplesize=2), 'sample', prep=prep_dict)
    add('unpackdict:missingkey', 1, lambda s: etl.unpackdict(s[0], 'v', keys=['p', 'zz', 'q'], missing='M'), S, prep=prep_dict_uneven)
    add('unpackdict:default', 1, lambda s: etl.unpackdict(s[0], 'v'), 'sample', prep=prep_dict_uneven)
    # ---- validation
    add('validate', 1, lambda s: etl.validate(s[0], constraints=[dict(name='v_int', field='v', test=int)],
                                              header=('k', 'a', 'v')), S + ' drop')
    # ---- util
    add('wrap', 1, lambda s: etl.wrap(s[0]), S)
    add('cache', 1, lambda s: etl.wrap(s[0]).cache(), S)
    add('cache:n', 1, lambda s: etl.wrap(s[0]).cache(2), S)
    add('progress', 1, lambda s: etl.progress(s[0], 2, out=_DEVNULL), S)
    add('clock', 1, lambda s: etl.clock(s[0]), S)
    add('data', 1, lambda s: LazyRows(['k', 'a', 'v'], lambda: (list(r) for r in etl.data(s[0]))), S)
    add('valuecounts', 1, lambda s: etl.valuecounts(s[0], 'k'), 'sorted')
    # extractors reading what the table serialises to (one MemorySource shared by all iterators of the view)
    add('frompickle:mem', 1, lambda s: etl.frompickle(_mem(etl.topickle, s[0])), 'sorted')
    add('fromcsv:mem', 1, lambda s: etl.fromcsv(_mem(etl.tocsv, s[0], encoding='utf-8'), encoding='utf-8'), 'sorted')
    add('fromtext:mem', 1, lambda s: etl.fromtext(_mem(etl.tocsv, s[0], encoding='utf-8'), encoding='utf-8'), 'sorted')
    add('fromjson:mem', 1, lambda s: etl.fromjson(_mem(etl.tojson, etl.cut(s[0], 'k', 'a', 'v'), lines=True), lines=True,
                                                  header=['k', 'a', 'v']), 'sorted')
    # a membership test against a lazy view over another table: building the selection must not read that table
    add('selectin:view', 2, lambda s: etl.selectin(s[0], 'v', etl.values(s[1], 'v')), 'drop')
    add('typecounts', 1, lambda s: etl.typecounts(s[0], 'k'), 'sorted')
    add('parsecounts', 1, lambda s: etl.parsecounts(s[0], 'a'), 'sorted')
    add('stringpatterns', 1, lambda s: etl.stringpatterns(s[0], 'a'), 'sorted')
    add('rowlengths', 1, lambda s: etl.rowlengths(s[0]), 'sorted')
    add('fromcolumns', 1, lambda s: etl.fromcolumns(etl.columns(s[0]).values(), header=list(etl.header(s[0]))),
        'sorted noh')
    add('fromdicts', 1, lambda s: etl.fromdicts(list(etl.dicts(s[0])), header=['k', 'a', 'v']), 'sorted')
    add('fromdicts:generator', 1, lambda s: etl.fromdicts((d for d in list(etl.dicts(s[0]))), header=['k', 'a', 'v']),
        'sorted')
    return E


class _DevNull(object):
    def write(self, *a):
        pass

    def flush(self):
        pass


_DEVNULL = _DevNull()


# public names that are deliberately not table constructors (functions returning scalars / dicts / containers, writers,
# parsers ...) or that cannot run offline here; the completeness test requires every other export to be in entries()
NOT_VIEWS = {
    'issorted', 'isunique', 'Conflict', 'nrows', 'header', 'fieldnames', 'values', 'records', 'dicts', 'namedtuples',
    'expr', 'rowgroupby', 'empty', 'Table', 'Record', 'lookup', 'lookupone', 'dictlookup', 'dictlookupone',
    'recordlookup', 'recordlookupone', 'dateparser', 'timeparser', 'datetimeparser', 'numparser', 'boolparser', 'look',
    'lookall', 'lookstr', 'lookallstr', 'see', 'randomtable', 'dummytable', 'parsecounter', 'typecounter', 'valuecount',
    'valuecounter', 'stringpatterncounter', 'listoflists', 'listoftuples', 'tupleoflists', 'tupleoftuples', 'columns',
    'facetcolumns', 'log_progress', 'limits', 'stats', 'typeset', 'diffheaders', 'diffvalues', 'nthword', 'strjoin',
    'coalesce', 'flatten',
    # interval operators need the optional intervaltree package (absent here)
    'intervaljoin', 'intervalleftjoin', 'intervaljoinvalues', 'intervalantijoin', 'intervallookup', 'intervallookupone',
    'intervalrecordlookup', 'intervalrecordlookupone', 'intervalsubtract', 'facetintervallookup',
    'facetintervallookupone', 'facetintervalrecordlookup', 'facetintervalrecordlookupone', 'collapsedintervals',
}


def completeness():
    """Names exported by petl.transform / petl.util that are neither in the catalogue nor in NOT_VIEWS."""
    import petl.transform as tr
    import petl.util as ut
    have = {e['name'].split(':')[0] for e in entries()}
    missing = []
    for mod in (tr, ut):
        for n in dir(mod):
            if n.startswith('_'):
                continue
            obj = getattr(mod, n)
            if not callable(obj) or isinstance(obj, type) and n[0].isupper():
                continue
            if getattr(obj, '__module__', '').startswith('petl') and n not in have and n not in NOT_VIEWS:
                missing.append(n)
    return sorted(set(missing))


def standard_sources(rng, nsrc, nrows=None, ragged=False, header_only=None):
    """Standard source tables (lists of lists). header_only: set of source indices that get no data rows."""
    alpha = [None, 0, 1, 2, 'b', 'c']
    out = []
    for i in range(nsrc):
        n = rng.choice([0, 1, 2, 3, 4, 6]) if nrows is None else nrows
        if header_only is not None and i in header_only:
            n = 0
        rows = []
        for _ in range(n):
            r = [rng.choice(alpha), rng.choice(['x', 'y', 'xy']), rng.choice([1, 2, 3])]
            if ragged and rng.random() < 0.25:
                r = r[:rng.choice([1, 2])] if rng.random() < 0.7 else r + ['extra']
            rows.append(r)
        out.append([['k', 'a', 'v']] + rows)
    return out


def build(entry, srcs):
    """Apply prep + make + pick."""
    if entry['prep'] is not None:
        srcs = [entry['prep'](t) if isinstance(t, list) else t for t in srcs]
    v = entry['make'](srcs)
    if entry['pick'] is not None:
        v = entry['pick'](v)
    return v


# ---- methods of Table bound under another name than the function's own (a T1-style fact read off the source) ----------------
EXPECTED_METHOD_ALIASES = {
    ('petl/io/pandas.py', 'todf', 'todataframe'),
    ('petl/transform/selects.py', 'eq', 'selecteq'), ('petl/transform/selects.py', 'ne', 'selectne'),
    ('petl/transform/selects.py', 'lt', 'selectlt'), ('petl/transform/selects.py', 'le', 'selectle'),
    ('petl/transform/selects.py', 'gt', 'selectgt'), ('petl/transform/selects.py', 'ge', 'selectge'),
    ('petl/transform/selects.py', 'true', 'selecttrue'), ('petl/transform/selects.py', 'false', 'selectfalse'),
    ('petl/transform/selects.py', 'none', 'selectnone'), ('petl/transform/selects.py', 'notnone', 'selectnotnone'),
    ('petl/util/materialise.py', 'lol', 'listoflists'), ('petl/util/materialise.py', 'tot', 'tupleoftuples'),
    ('petl/util/materialise.py', 'lot', 'listoftuples'), ('petl/util/materialise.py', 'tol', 'tupleoflists'),
    ('petl/util/vis.py', '__repr__', '_table_repr'), ('petl/util/vis.py', '__str__', '_table_str'),
    ('petl/util/vis.py', '__unicode__', '_table_str'), ('petl/util/vis.py', '_repr_html_', '_display_html'),
}


def method_aliases():
    """(file, attribute, function) for every module-level `Table.<attribute> = <function>` whose two names differ."""
    import ast
    import glob
    import os
    from .core import REPO
    out = set()
    for f in sorted(glob.glob(os.path.join(REPO, 'petl', '**', '*.py'), recursive=True)):
        rel = os.path.relpath(f, REPO)
        if '/test/' in rel:
            continue
        try:
            tree = ast.parse(open(f).read())
        except SyntaxError:
            out.add((rel, '?', 'unparsable'))
            continue
        for n in tree.body:
            if (isinstance(n, ast.Assign) and len(n.targets) == 1 and isinstance(n.targets[0], ast.Attribute)
                    and isinstance(n.targets[0].value, ast.Name) and n.targets[0].value.id == 'Table'):
                v = n.value
                nm = v.id if isinstance(v, ast.Name) else '<expr>'
                if n.targets[0].attr != nm:
                    out.add((rel, n.targets[0].attr, nm))
    return out


def method_alias_check():
    got = method_aliases()
    return ('static:method-bindings', got == EXPECTED_METHOD_ALIASES,
            'Table methods bound to another function than expected: %s' % sorted(got ^ EXPECTED_METHOD_ALIASES))
