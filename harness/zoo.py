"""The callable zoo shared with coq/model/Reductions.v, Conversions.v, Maps.v, Selects.v.
A callable travels in a case as the tuple ('!fn', id); `resolve` turns such markers into Python callables."""
import operator


class UserError(Exception):
    def __init__(self, tag=0):
        super().__init__('user error %d' % tag)
        self.tag = tag


def _first(g):
    return next(iter(g))


AGG = {
    0: len,
    1: list,
    2: sum,
    3: min,
    4: max,
    5: _first,
    6: tuple,
    7: lambda g: len(set(g)),
    8: lambda g: sum(1 for _ in g),
}


def _red_count(key, rows):
    return [key, len(list(rows))]


def _red_first(key, rows):
    return next(rows)


def _red_last(key, rows):
    row = None
    for row in rows:
        pass
    return row


REDUCER = {0: _red_count, 1: _red_first, 2: _red_last}

FOLD2 = {0: operator.add, 1: lambda a, b: b}


def is_fn(x):
    return isinstance(x, tuple) and len(x) == 2 and x[0] == '!fn' and isinstance(x[1], int)


def fn(i):
    return ('!fn', i)


def resolve(x, table):
    """Replace ('!fn', id) markers inside x by callables from `table` (recursively through tuples/lists)."""
    if is_fn(x):
        return table[x[1]]
    if isinstance(x, tuple):
        return tuple(resolve(y, table) for y in x)
    if isinstance(x, list):
        return [resolve(y, table) for y in x]
    return x


# ---- C12 / C19: functions of a record, cell converters, row mappers, row generators ---------------------------
def _raise(tag):
    raise UserError(tag)


ROWFN = {
    0: lambda rec: rec[0],
    1: lambda rec: len(rec),
    2: lambda rec: rec['v'],
    3: lambda rec: _raise(3),
}

CONV = {
    0: 'upper',
    1: int,
    2: lambda v: v * 2,
    3: lambda v: _raise(3) if v in (2, 'x') else ('ok', v),
    5: lambda v: v,
    6: lambda v, row: (v, len(row)),
    7: lambda v: _CODES[v],          # a lookup-table converter: KeyError on 2 and 'x'
    8: lambda v, row: _raise(8) if v in (2, 'x') else ('ok', v, len(row)),     # pass_row=True, fails on 2 and 'x'
    9: lambda v: _raise(9) if isinstance(v, tuple) else ('ok', v),             # fails on cells that are tuples
}
_CODES = {0: 'zero', 1: 'one', 'b': 'bee', None: 'none'}


def _rowmapper0(row):
    return [row[0], row[2]]


def _rowmapper1(row):
    if row[0] in (2, 'x'):
        raise UserError(1)
    return [row[0], len(row)]


def _rowmapper2(row):
    # a lazily evaluated row: the failure happens while petl builds the output tuple
    n = len(row)
    return (_raise(2) if (i == 0 and row[0] in (2, 'x')) else (row[0] if i == 0 else n) for i in range(2))


def _rowmapper3(row):
    # no row at all for the failing records: tuple(None) raises TypeError inside petl
    if row[0] in (2, 'x'):
        return None
    return [row[0], len(row)]


ROWMAPPER = {0: _rowmapper0, 1: _rowmapper1, 2: _rowmapper2, 3: _rowmapper3}


def _rowgen0(row):
    yield [row[0], 'a', row[1]]
    if row[0] in (2, 'x'):
        raise UserError(2)
    yield [row[0], 'v', row[2]]


ROWGEN = {0: _rowgen0}


def conv_of(spec):
    """('fn', id) | ('dict', pairs) | None  ->  converter accepted by petl.convert"""
    if spec is None:
        return None
    if spec[0] == 'fn':
        return CONV[spec[1]]
    if spec[0] == 'dict':
        return dict(spec[1])
    raise ValueError(spec)
