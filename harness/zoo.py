"""The callable zoo shared with coq/model/Reductions.v, Conversions.v, Maps.v, Selects.v.
A callable travels in a case as the tuple ('!fn', id); `resolve` turns such markers into Python callables."""
import operator


class UserError(Exception):
    def __init__(self, tag=0):
        super().__init__('user error %d' % tag)
        self.tag = tag


def _first(g):
    return next(iter(g))


AGG = {
    0: len,
    1: list,
    2: sum,
    3: min,
    4: max,
    5: _first,
    6: tuple,
    7: lambda g: len(set(g)),
    8: lambda g: sum(1 for _ in g),
}


def _red_count(key, rows):
    return [key, len(list(rows))]


def _red_first(key, rows):
    return next(rows)


def _red_last(key, rows):
    row = None
    for row in rows:
        pass
    return row


REDUCER = {0: _red_count, 1: _red_first, 2: _red_last}

FOLD2 = {0: operator.add, 1: lambda a, b: b}


def is_fn(x):
    return isinstance(x, tuple) and len(x) == 2 and x[0] == '!fn' and isinstance(x[1], int)


def fn(i):
    return ('!fn', i)


def resolve(x, table):
    """Replace ('!fn', id) markers inside x by callables from `table` (recursively through tuples/lists)."""
    if is_fn(x):
        return table[x[1]]
    if isinstance(x, tuple):
        return tuple(resolve(y, table) for y in x)
    if isinstance(x, list):
        return [resolve(y, table) for y in x]
    return x
