"""Entry point: python -m harness.main Cxx --tier quick|thorough [--replay FILE] [--seed N]"""
import importlib
import os
import sys


def main(argv):
    if not argv:
        print('usage: check Cxx [--tier quick|thorough] [--replay FILE] [--seed N]')
        return 2
    pid = argv[0]
    tier = os.environ.get('VERIF_TIER') or 'quick'
    seed = int(os.environ.get('VERIF_SEED') or 20260930)
    replay = None
    i = 1
    while i < len(argv):
        if argv[i] == '--tier':
            tier = argv[i + 1]
            i += 2
        elif argv[i] == '--replay':
            replay = argv[i + 1]
            i += 2
        elif argv[i] == '--seed':
            seed = int(argv[i + 1])
            i += 2
        else:
            print('unknown argument', argv[i])
            return 2
    if tier not in ('quick', 'thorough'):
        tier = 'quick'
    mod = importlib.import_module('harness.props.' + pid.lower())
    prop = mod.PROP()
    prop.tier = tier
    from .core import run_property
    return run_property(prop, tier, seed, replay)


if __name__ == '__main__':
    sys.exit(main(sys.argv[1:]))
