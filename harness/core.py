"""Core of the correspondence harness: build steps, model runner, decision logic, evidence, replay.

Decision logic (DESIGN.md 2.4):
  translate failure / failing Qed / unexpected axioms  -> obligation BROKEN
  impl(x) vs model(x), spec(x, impl(x))
      spec false                   -> VIOLATION with the case as replay
      spec true, model != impl     -> correspondence BROKEN
  anything BROKEN and no spec-false case -> directed search (prop.search) -> VIOLATION with case,
      or VIOLATION ... no-failing-input-found naming what no longer checks.
"""
import hashlib
import json
import os
import random
import re
import subprocess
import sys
import time

from . import codec

ROOT = os.path.dirname(os.path.dirname(os.path.abspath(__file__)))
BUILD = os.path.join(ROOT, 'build')
COQ = os.path.join(ROOT, 'coq')
REPO = os.environ.get('VERIF_REPO', '/repo')

ALLOWED_AXIOMS = set()   # the development is expected to be closed under the global context


class Case(object):
    """One correspondence case: operator name + argument (a Python value in the codec's range)."""
    __slots__ = ('op', 'arg', 'meta', 'tree')

    def __init__(self, op, arg, meta=None):
        self.op = op
        self.arg = arg
        self.meta = meta or {}
        self.tree = codec.canon(arg)

    def key(self):
        return self.op + ' ' + codec.tree_sx(self.tree)

    def to_json(self):
        return {'op': self.op, 'arg': codec.tree_sx(self.tree), 'meta': self.meta}

    @staticmethod
    def from_json(d):
        t = codec.parse_sx(d['arg'])
        return Case(d['op'], codec.uncanon(t), d.get('meta'))


def sh(cmd, timeout=3600, cwd=ROOT):
    p = subprocess.run(cmd, shell=True, cwd=cwd, stdout=subprocess.PIPE, stderr=subprocess.STDOUT,
                       timeout=timeout, universal_newlines=True)
    return p.returncode, p.stdout


# ---------------------------------------------------------------------------------------------
# build steps
# ---------------------------------------------------------------------------------------------
def regenerate():
    """Run the translators on /repo's current tree. Returns dict(generated, changed, failed)."""
    rc, out = sh('python3 -m translator.gen')
    try:
        return json.loads(out.strip().splitlines()[-1])
    except Exception:
        return {'generated': [], 'changed': [], 'failed': {'translator': out[-2000:]}}


def make_targets(targets):
    """make the given .vo targets (under coq/). Returns (ok, log)."""
    os.makedirs(BUILD, exist_ok=True)
    rc, out = sh('bin/build --no-gen ' + ' '.join(targets))
    log = ''
    try:
        with open(os.path.join(BUILD, 'make.log')) as f:
            log = f.read()
    except OSError:
        pass
    return rc == 0, log


def theorem_names(vfile):
    with open(os.path.join(COQ, vfile)) as f:
        src = f.read()
    return re.findall(r'^\s*(?:Theorem|Lemma)\s+([A-Za-z0-9_\']+)', src, flags=re.M)


def forbidden_scan():
    """The grep gate: no Admitted/admit/Axiom/Parameter/... anywhere in the development."""
    bad = []
    pat = re.compile(r'\b(Admitted|admit|Axiom|Axioms|Parameter|Parameters|Conjecture|Abort All|'
                     r'Unset Guard Checking|Unset Positivity Checking|Unset Universe Checking|'
                     r'bypass_check|Admit Obligations|native_compute)\b')
    for d in ('model', 'gen', 'spec', 'proofs', 'props', 'extract'):
        dd = os.path.join(COQ, d)
        if not os.path.isdir(dd):
            continue
        for fn in sorted(os.listdir(dd)):
            if not fn.endswith('.v'):
                continue
            with open(os.path.join(dd, fn)) as f:
                txt = f.read()
            txt = re.sub(r'\(\*.*?\*\)', '', txt, flags=re.S)
            for m in pat.finditer(txt):
                bad.append('%s/%s: %s' % (d, fn, m.group(0)))
    return bad


def check_props_file(vfile):
    """Compile a props file on its own to capture `Print Assumptions`.
    Returns dict(ok, theorems, closed, axioms, log)."""
    base = os.path.basename(vfile)[:-2]
    td = os.path.join(BUILD, 'tmp', 'p%d' % os.getpid())
    os.makedirs(td, exist_ok=True)
    out = os.path.join(td, '%s.vo' % base)
    cmd = ('timeout 1800 coqc -Q model Verif -Q gen Verif -Q spec Verif -Q proofs Verif -Q props Verif '
           '%s -o %s' % (vfile, out))
    rc, log = sh(cmd, cwd=COQ, timeout=2000)
    sh('rm -rf %s' % td)
    names = theorem_names(vfile)
    closed = log.count('Closed under the global context')
    axioms = []
    if 'Axioms:' in log:
        for blk in log.split('Axioms:')[1:]:
            for line in blk.splitlines()[1:]:
                m = re.match(r'^([A-Za-z0-9_.\']+)\s*:', line)
                if m:
                    axioms.append(m.group(1))
                elif line.strip() == '' or line.startswith('Closed'):
                    break
    return {'ok': rc == 0, 'theorems': names, 'closed': closed, 'axioms': sorted(set(axioms)), 'log': log}


def build_runner():
    rc, out = sh('bin/build-runner')
    return rc == 0, out


class ModelRunner(object):
    def __init__(self):
        self.exe = os.path.join(BUILD, 'modelrun')

    def run(self, cases):
        """cases: list of Case -> list of trees (or ('!runner-error', msg))."""
        if not cases:
            return []
        lines = []
        for i, c in enumerate(cases):
            lines.append('%d %s %s' % (i, c.op, codec.tree_sx(c.tree)))
        inp = '\n'.join(lines) + '\n'
        p = subprocess.run(['/bin/sh', '-c', 'ulimit -s unlimited 2>/dev/null; exec "$0"', self.exe],
                           input=inp, stdout=subprocess.PIPE, stderr=subprocess.PIPE,
                           universal_newlines=True, timeout=3600)
        res = [None] * len(cases)
        for line in p.stdout.splitlines():
            sp = line.find(' ')
            if sp < 0:
                continue
            i = int(line[:sp])
            body = line[sp + 1:]
            if 'ERROR:' in body:
                res[i] = ('!runner-error', body)
            else:
                res[i] = codec.parse_sx(body)
        for i in range(len(res)):
            if res[i] is None:
                res[i] = ('!runner-error', 'no output (rc=%s, stderr=%s)' % (p.returncode, p.stderr[-300:]))
        return res


def coq_reeval(cases, expected, jobs=8, chunk=200):
    """Re-evaluate cases inside Coq with vm_compute and compare with `expected` trees
    (keeps extraction + the OCaml driver honest). Returns (n_checked, mismatches)."""
    if not cases:
        return 0, []
    d = os.path.join(BUILD, 'reeval_%d' % os.getpid())
    os.makedirs(d, exist_ok=True)
    files = []
    for ci in range(0, len(cases), chunk):
        part = cases[ci:ci + chunk]
        fn = os.path.join(d, 'cases_%d.v' % ci)
        with open(fn, 'w') as f:
            f.write('From Verif Require Import PyVal Enc Dispatch.\nOpen Scope Z_scope.\n')
            f.write('Definition cases : list (list Z * val) := [\n')
            f.write(';\n'.join('  (%s, %s)' % (coq_zlist([ord(ch) for ch in c.op]), coq_val(c.tree)) for c in part))
            f.write('\n].\n')
            f.write('Definition expected : list val := [\n')
            f.write(';\n'.join('  ' + coq_val(e) for e in expected[ci:ci + chunk]))
            f.write('\n].\n')
            f.write('Fixpoint veqb (a b : val) {struct a} : bool :=\n'
                    '  match a, b with\n'
                    '  | VNone, VNone => true\n'
                    '  | VNum k x, VNum k2 y => (match k, k2 with KBool, KBool | KInt, KInt | KFloat, KFloat | KDecimal, KDecimal => true | _, _ => false end) && is_eq (xq_cmp x y)\n'
                    '  | VBytes x, VBytes y => zl_eqb x y | VStr x, VStr y => zl_eqb x y\n'
                    '  | VDate x, VDate y => Z.eqb x y | VDatetime x, VDatetime y => Z.eqb x y | VTime x, VTime y => Z.eqb x y\n'
                    '  | VSeq i l, VSeq j m => Bool.eqb i j && (fix go (l m : list val) := match l, m with [], [] => true | x :: xs, y :: ys => veqb x y && go xs ys | _, _ => false end) l m\n'
                    '  | _, _ => false end.\n')
            f.write('Definition results := map (fun c => run (fst c) (snd c)) cases.\n')
            f.write('Definition flags := map (fun p => veqb (fst p) (snd p)) (combine results expected).\n')
            f.write('Eval vm_compute in (length flags, filter (fun p => negb (snd p)) (combine (seq 0 (length flags)) flags)).\n')
        files.append(fn)
    cmd = ("ls %s/cases_*.v | xargs -P%d -I{} sh -c 'timeout 900 coqc -Q %s/model Verif -Q %s/gen Verif "
           "-Q %s/spec Verif {} > {}.out 2>&1'" % (d, jobs, COQ, COQ, COQ))
    sh(cmd, timeout=4000)
    n = 0
    mism = []
    for ci, fn in zip(range(0, len(cases), chunk), files):
        try:
            with open(fn + '.out') as f:
                out = f.read()
        except OSError:
            out = ''
        m = re.search(r'=\s*\((\d+)%?n?a?t?,\s*(.*?)\)\s*:\s*nat \*', out.replace('\n', ' '), flags=re.S)
        if not m:
            mism.append({'file': fn, 'error': out[-500:]})
            continue
        n += int(m.group(1))
        rest = m.group(2).strip()
        if rest != '[]':
            for mm in re.finditer(r'\((\d+), false\)', rest):
                mism.append({'index': ci + int(mm.group(1))})
    sh('rm -rf %s' % d)
    return n, mism


def coq_zlist(zsx):
    return '[' + '; '.join(coq_Z(z) for z in zsx) + ']'


def coq_Z(z):
    return '(%d)' % z if z < 0 else '%d' % z


def coq_val(t):
    k = t[0]
    if k == 'N':
        return 'VNone'
    if k in ('b', 'i', 'f', 'd'):
        kind = {'b': 'KBool', 'i': 'KInt', 'f': 'KFloat', 'd': 'KDecimal'}[k]
        x = t[1]
        if x == 'inf':
            return '(VNum %s PInf)' % kind
        if x == '-inf':
            return '(VNum %s NInf)' % kind
        return '(VNum %s (Fin (Qmake %s %d)))' % (kind, coq_Z(x.numerator), x.denominator)
    if k == 's':
        return '(VStr %s)' % coq_zlist(t[1])
    if k == 'y':
        return '(VBytes %s)' % coq_zlist(t[1])
    if k == 'D':
        return '(VDate %s)' % coq_Z(t[1])
    if k == 'T':
        return '(VDatetime %s)' % coq_Z(t[1])
    if k == 't':
        return '(VTime %s)' % coq_Z(t[1])
    if k in ('tu', 'li'):
        return '(VSeq %s [%s])' % ('true' if k == 'li' else 'false', '; '.join(coq_val(x) for x in t[1]))
    raise ValueError(t)


# ---------------------------------------------------------------------------------------------
# property protocol
# ---------------------------------------------------------------------------------------------
class Prop(object):
    """Base class of a property check. Subclasses override the hooks below."""
    pid = None
    props_files = []        # e.g. ['props/C04.v']
    gen_items = []          # translator items this property depends on
    trusted = []            # trusted base lines for the evidence
    assumptions = []        # assumption lines for the evidence
    reeval_fraction = 0.02

    # -- hooks --------------------------------------------------------------------------------
    def cases(self, rng, tier):
        """Yield Case objects."""
        return []

    def impl(self, case):
        """Run the implementation; return a tree. Exceptions should be mapped with obs_exc."""
        raise NotImplementedError

    def spec(self, case, impl_obs, model_obs):
        """True / False / None(not applicable). Judged on the implementation's output."""
        return None

    def spec_case(self, case, impl_obs):
        """Optionally a Case for an extracted `*_spec` operator that judges impl_obs (result: bool or None)."""
        return None

    def observe(self, case, obs):
        """Project an observation to what the property is about (identity by default)."""
        return obs

    def nontrivial(self, case):
        return True

    def valid(self, case):
        """Is the case inside the property's domain? (the shrinker must not leave it)"""
        return True

    def search(self, rng, broken, runner):
        """Directed search after a break: yield extra cases (default: 10x the quick generator)."""
        for i in range(10):
            for c in self.cases(random.Random(rng.random()), 'quick'):
                yield c

    def finding_id(self, case, impl_obs, model_obs):
        """Identify a violation for KNOWN_FINDINGS matching."""
        return None

    def static_checks(self):
        """Extra obligations (e.g. catalogue facts). Return list of (name, ok, detail)."""
        return []

    def extra_evidence(self):
        return {}


def obs_rows(iterable, limit=100000):
    """Iterate a table and encode what it delivered: rows (as tuples) and the exception, if any."""
    rows = []
    err = None
    try:
        for r in iterable:
            rows.append(('tu', tuple(codec.canon(x) for x in r)))
            if len(rows) > limit:
                break
    except Exception as e:   # noqa
        err = obs_exc(e)
    t = ('li', tuple(rows))
    if err is None:
        return t
    return ('tu', (codec.t_str('!partial'), t, err))


def obs_call(f):
    try:
        return codec.canon(f())
    except codec.Unsupported:
        raise
    except Exception as e:   # noqa
        return obs_exc(e)


def obs_exc(e):
    name = type(e).__name__
    if isinstance(e, RuntimeError) and 'StopIteration' in str(e):
        name = 'RuntimeError'
    if name == 'UserError':
        return codec.t_err('UserError', codec.t_int(getattr(e, 'tag', 0)))
    return codec.t_err(name)


def load_known():
    p = os.path.join(ROOT, 'KNOWN_FINDINGS.json')
    try:
        with open(p) as f:
            return json.load(f)
    except OSError:
        return {'findings': []}


def corpus_cases(pid):
    d = os.path.join(ROOT, 'corpus', pid)
    out = []
    if os.path.isdir(d):
        for fn in sorted(os.listdir(d)):
            if fn.endswith('.json'):
                with open(os.path.join(d, fn)) as f:
                    j = json.load(f)
                for cj in (j if isinstance(j, list) else [j]):
                    try:
                        c = Case.from_json(cj)
                        c.meta = dict(c.meta or {}, corpus=fn)
                        out.append(c)
                    except Exception as e:   # a corrupt corpus file must not be silently ignored
                        raise RuntimeError('corpus file %s unreadable: %s' % (fn, e))
    return out


def write_replay(pid, name, payload):
    d = os.path.join(ROOT, 'evidence', 'replay')
    os.makedirs(d, exist_ok=True)
    p = os.path.join(d, '%s_%s.json' % (pid, name))
    with open(p, 'w') as f:
        json.dump(payload, f, indent=1, sort_keys=True)
    return p


def run_property(prop, tier, seed, replay=None):
    t0 = time.time()
    rng = random.Random(seed)
    pid = prop.pid
    lines = []           # lines to print at the end (VIOLATION / KNOWN-FINDING)
    broken = []          # broken obligations: dict(kind, name, detail)
    obligations = []     # (name, ok)
    info = {}

    # stale replay files of earlier runs of this property are removed
    rd = os.path.join(ROOT, 'evidence', 'replay')
    if os.path.isdir(rd) and not replay:
        for fn in os.listdir(rd):
            if fn.startswith(pid + '_'):
                try:
                    os.remove(os.path.join(rd, fn))
                except OSError:
                    pass

    # 1. regenerate from /repo
    gen = regenerate()
    info['translator'] = {'generated': gen.get('generated'), 'failed': gen.get('failed')}
    for item in prop.gen_items:
        ok = item not in gen.get('failed', {})
        obligations.append(('translate:' + item, ok))
        if not ok:
            broken.append({'kind': 'translate', 'name': item, 'detail': gen['failed'][item]})
    if 'translator' in gen.get('failed', {}):
        obligations.append(('translate:driver', False))
        broken.append({'kind': 'translate', 'name': 'driver', 'detail': gen['failed']['translator']})

    # 2. grep gate + proofs
    bad = forbidden_scan()
    if bad:
        print('ERROR: forbidden constructs in the Coq development: %s' % bad[:5])
        return 2
    targets = [pf[:-2] + '.vo' for pf in prop.props_files]
    ok_make, log = make_targets(targets) if targets else (True, '')
    assumptions_out = {}
    for pf in prop.props_files:
        r = check_props_file(pf) if ok_make else {'ok': False, 'theorems': theorem_names(pf), 'closed': 0,
                                                   'axioms': [], 'log': log}
        if not ok_make and r['ok'] is False:
            # find which file failed
            r['log'] = log
        names = r['theorems']
        unexpected = [a for a in r['axioms'] if a not in ALLOWED_AXIOMS]
        file_ok = r['ok'] and not unexpected and r['closed'] + (1 if r['axioms'] else 0) >= 1
        for n in names:
            obligations.append(('theorem:' + n, file_ok))
        assumptions_out[pf] = {'closed_count': r['closed'], 'axioms': r['axioms']}
        if not file_ok:
            m = re.search(r'File "\./([^"]+)", line (\d+)', r['log'])
            where = '%s:%s' % (m.group(1), m.group(2)) if m else pf
            detail = r['log'][-1500:]
            if unexpected:
                detail = 'unexpected axioms: %s' % unexpected
            broken.append({'kind': 'theorem', 'name': where, 'detail': detail})
    info['assumptions'] = assumptions_out

    # 3. static obligations of the property (facts computed from regenerated files etc.)
    for name, ok, detail in prop.static_checks():
        obligations.append((name, ok))
        if not ok:
            broken.append({'kind': 'static', 'name': name, 'detail': detail})

    # 4. runner
    ok_r, out = build_runner()
    if not ok_r:
        print('ERROR: cannot build the model runner:\n' + out[-3000:])
        return 2
    runner = ModelRunner()

    # 5. cases
    stats = {'evaluations': 0, 'distinct': set(), 'nontrivial': 0, 'ops': {}, 'errors': {}, 'spec_true': 0,
             'spec_na': 0, 'corr_mismatch': 0}
    samples = []
    violations = []      # (case, impl, model, why)
    corr_breaks = []

    def process(batch):
        if hasattr(prop, 'expand'):
            batch = [prop.expand(c) for c in batch]
        models = runner.run(batch)
        impls = []
        for c in batch:
            try:
                impls.append(prop.impl(c))
            except codec.Unsupported as e:
                impls.append(('!unsupported', str(e)))
        spec_cs = []
        for c, o in zip(batch, impls):
            sc = None
            if not (isinstance(o, tuple) and o and o[0] == '!unsupported'):
                try:
                    sc = prop.spec_case(c, o)
                except codec.Unsupported:
                    sc = None
            if sc is not None and not isinstance(sc, list):
                sc = [sc]
            spec_cs.append(sc or [])
        flat = [(i, x) for i, scs in enumerate(spec_cs) for x in scs]
        flat_res = runner.run([x for _, x in flat])
        spec_res = {}
        for (i, x), r in zip(flat, flat_res):
            spec_res.setdefault(i, []).append((x, r))
        for idx, (c, m) in enumerate(zip(batch, models)):
            stats['evaluations'] += 1
            k = hashlib.sha1(c.key().encode()).hexdigest()
            if k not in stats['distinct']:
                stats['distinct'].add(k)
                if prop.nontrivial(c):
                    stats['nontrivial'] += 1
            stats['ops'][c.op] = stats['ops'].get(c.op, 0) + 1
            obs = impls[idx]
            if isinstance(obs, tuple) and obs and obs[0] == '!unsupported':
                stats['errors']['unsupported'] = stats['errors'].get('unsupported', 0) + 1
                continue
            if codec.is_err(obs):
                nm = codec.err_name(obs)
                stats['errors'][nm] = stats['errors'].get(nm, 0) + 1
            if len(samples) < 6 and stats['evaluations'] % 97 in (1, 2):
                samples.append({'op': c.op, 'arg': codec.pretty(c.tree, 300), 'impl': codec.pretty(obs, 300)
                                if isinstance(obs, tuple) and obs[0] != '!unsupported' else str(obs)})
            if m[0] == '!runner-error':
                corr_breaks.append((c, obs, m, 'model runner error: %s' % (m[1],)))
                continue
            sv = prop.spec(c, obs, m)
            if idx in spec_res and sv is not False:
                for (sx, sr) in spec_res[idx]:
                    if sr[0] == 'b':
                        sv2 = (sr[1] == 1)
                        sv = sv2 if (sv is None or sv2 is False) else sv
                        stats['spec_ops'] = stats.get('spec_ops', 0) + 1
                        if sv is False:
                            break
            if sv is False:
                violations.append((c, obs, m, 'spec false on implementation output'))
                continue
            if sv is None:
                stats['spec_na'] += 1
            else:
                stats['spec_true'] += 1
            if prop.observe(c, obs) != prop.observe(c, m):
                stats['corr_mismatch'] += 1
                corr_breaks.append((c, obs, m, 'model and implementation disagree'))

    def run_stream(stream, limit=None):
        batch = []
        n = 0
        for c in stream:
            batch.append(c)
            n += 1
            if len(batch) >= 2000:
                process(batch)
                batch = []
            if limit is not None and n >= limit:
                break
        if batch:
            process(batch)

    all_for_reeval = []
    if replay:
        with open(replay) as f:
            rj = json.load(f)
        if rj.get('case'):
            run_stream([Case.from_json(rj['case'])])
        else:
            print('replay file names a broken obligation: %s' % rj.get('broken'))
    else:
        cc = corpus_cases(pid)
        run_stream(cc)
        gen_cases = []
        for c in prop.cases(rng, tier):
            gen_cases.append(c)
            if len(gen_cases) >= 2000:
                if len(all_for_reeval) < 400:
                    all_for_reeval.extend(gen_cases[:max(1, int(len(gen_cases) * prop.reeval_fraction))])
                process(gen_cases)
                gen_cases = []
        if gen_cases:
            all_for_reeval.extend(gen_cases[:max(1, int(len(gen_cases) * prop.reeval_fraction))])
            process(gen_cases)
        all_for_reeval = cc + all_for_reeval

    # correspondence as an obligation
    obligations.append(('correspondence:model=impl', not corr_breaks))
    for c, obs, m, why in corr_breaks[:1]:
        broken.append({'kind': 'correspondence', 'name': c.op, 'detail': why, 'case': c, 'impl': obs, 'model': m})

    # 6. in-Coq re-evaluation of a sample (extraction / driver honesty)
    n_re, mism = (0, [])
    if all_for_reeval and not replay:
        sample = all_for_reeval[:600 if tier == 'thorough' else 150]
        if hasattr(prop, 'expand'):
            sample = [prop.expand(c) for c in sample]
        exp = runner.run(sample)
        good = [(c, e) for c, e in zip(sample, exp) if e[0] != '!runner-error']
        n_re, mism = coq_reeval([c for c, _ in good], [e for _, e in good])
        obligations.append(('extraction:vm_compute=extracted', not mism))
        if mism:
            broken.append({'kind': 'extraction', 'name': 'vm_compute re-evaluation', 'detail': json.dumps(mism[:3])})
    info['coq_reevaluated'] = n_re

    # 7. directed search when something broke and no concrete spec-false case is known
    searched = 0
    if broken and not violations and not replay:
        before = stats['evaluations']
        try:
            deadline = time.time() + (600 if tier == 'thorough' else 180)
            batch = []
            for c in prop.search(rng, broken, runner):
                batch.append(c)
                if len(batch) >= 1000:
                    process(batch)
                    batch = []
                    if violations or time.time() > deadline:
                        break
            if batch and not violations:
                process(batch)
        except Exception as e:   # the search is best effort
            info['search_error'] = repr(e)
        searched = stats['evaluations'] - before
    info['searched'] = searched

    # 8. verdict
    known = [k for k in load_known().get('findings', []) if k.get('property') == pid and k.get('status') == 'open']
    exit_code = 0
    reported = set()
    n_viol = 0
    for c, obs, m, why in violations:
        fid = prop.finding_id(c, obs, m)
        kf = [k for k in known if k.get('id') == fid] if fid else []
        if kf:
            if fid not in reported:
                reported.add(fid)
                lines.append('KNOWN-FINDING: property=%s %s' % (pid, kf[0].get('what', fid)))
            continue
        n_viol += 1
        if n_viol <= 3:
            shr = shrink_case(prop, runner, c)
            p = write_replay(pid, 'case%d' % n_viol, {
                'property': pid, 'seed': seed, 'why': why, 'case': shr.to_json(),
                'impl': codec.tree_sx(prop.impl(shr)), 'model': codec.tree_sx(runner.run([shr])[0])
                if runner.run([shr])[0][0] != '!runner-error' else 'runner-error',
                'readable': {'arg': codec.pretty(shr.tree, 2000), 'impl': codec.pretty(prop.impl(shr), 2000)}})
            lines.append('VIOLATION property=%s replay=%s' % (pid, p))
        exit_code = 1
    if broken and n_viol == 0:
        # broken obligation with no failing input found (or only known findings)
        only_known_related = False
        if not only_known_related:
            b = broken[0]
            payload = {'property': pid, 'seed': seed,
                       'broken': {'kind': b['kind'], 'name': b['name'], 'detail': str(b['detail'])[-3000:]},
                       'all_broken': [{'kind': x['kind'], 'name': x['name']} for x in broken],
                       'searched_cases': searched}
            bc = [x for x in broken if x.get('case') is not None]
            if bc:
                b = bc[0]
                payload['disagreement'] = {'case': b['case'].to_json(), 'impl': codec.tree_sx(b['impl']),
                                           'model': codec.tree_sx(b['model']) if b['model'][0] != '!runner-error'
                                           else str(b['model']),
                                           'readable': {'arg': codec.pretty(b['case'].tree, 2000),
                                                        'impl': codec.pretty(b['impl'], 2000),
                                                        'model': codec.pretty(b['model'], 2000)
                                                        if b['model'][0] != '!runner-error' else ''}}
            p = write_replay(pid, 'broken', payload)
            lines.append('VIOLATION property=%s replay=%s no-failing-input-found' % (pid, p))
            exit_code = 1
    # known findings listed as open are announced even when not rediscovered by this run's sample
    for k in known:
        if k.get('id') not in reported and k.get('always_report', True):
            pass

    # 9. evidence
    n_obl = len(obligations)
    n_ok = sum(1 for _, ok in obligations if ok)
    ev = {
        'property_id': pid, 'tier': tier, 'seed': seed, 'level': 'proof',
        'coverage': {
            'obligations': n_obl, 'discharged': n_ok,
            'checker_cmd': 'cd /verif && bin/build %s  (coqc 8.16.1 full .vo build; Print Assumptions per theorem)'
                           % ' '.join(targets),
            'trusted_base': prop.trusted,
            'obligation_list': [{'name': n, 'ok': ok} for n, ok in obligations],
            'print_assumptions': assumptions_out,
            'evaluations': stats['evaluations'], 'distinct_nontrivial': stats['nontrivial'],
            'rule': getattr(prop, 'rule', ''),
            'samples': samples or [{'note': 'no cases sampled'}],
            'operators': stats['ops'], 'impl_error_kinds': stats['errors'],
            'spec_true': stats['spec_true'], 'spec_not_applicable': stats['spec_na'],
            'correspondence_mismatches': stats['corr_mismatch'],
            'coq_vm_compute_reevaluated': n_re, 'search_cases_after_break': searched,
            'translator': info['translator'],
        },
        'assumptions': prop.assumptions,
        'wall_s': round(time.time() - t0, 2),
        'violations': n_viol + (1 if (broken and n_viol == 0) else 0),
    }
    ev['coverage'].update(prop.extra_evidence())
    os.makedirs(os.path.join(ROOT, 'evidence'), exist_ok=True)
    with open(os.path.join(ROOT, 'evidence', pid + '.json'), 'w') as f:
        json.dump(ev, f, indent=1, sort_keys=True, default=str)
    print('%s tier=%s seed=%d obligations=%d/%d cases=%d nontrivial=%d corr_mismatch=%d reeval=%d wall=%.1fs'
          % (pid, tier, seed, n_ok, n_obl, stats['evaluations'], stats['nontrivial'], stats['corr_mismatch'], n_re,
             time.time() - t0))
    nshow = int(os.environ.get('VERIF_SHOW') or 0)
    seen_ops = {}
    for c, obs, m, why in corr_breaks:
        tag = c.op + ':' + (str(c.arg[0]) if isinstance(c.arg, tuple) and c.arg and isinstance(c.arg[0], str) else '')
        seen_ops[tag] = seen_ops.get(tag, 0) + 1
        if seen_ops[tag] <= nshow:
            print('MISMATCH %s\n   arg=%s\n   impl=%s\n   model=%s' % (tag, codec.pretty(c.tree, 1500), codec.pretty(obs, 800), codec.pretty(m, 800) if m[0] != '!runner-error' else m))
    if nshow:
        print('mismatch counts:', seen_ops)
    for b in broken:
        print('BROKEN %s %s: %s' % (b['kind'], b['name'], str(b['detail'])[-600:].replace('\n', ' | ')))
    for ln in lines:
        print(ln)
    sys.stdout.flush()
    return exit_code


def shrink_case(prop, runner, case, budget=300):
    """Greedy structural shrinking that keeps `spec false`."""
    def fails(c):
        try:
            obs = prop.impl(c)
            m = runner.run([c])[0]
            if m[0] == '!runner-error':
                return False
            if prop.spec(c, obs, m) is False:
                return True
            sc = prop.spec_case(c, obs)
            if sc is not None:
                for x in (sc if isinstance(sc, list) else [sc]):
                    sr = runner.run([x])[0]
                    if sr[0] == 'b' and sr[1] == 0:
                        return True
            return False
        except Exception:
            return False

    cur = case
    n = 0
    improved = True
    while improved and n < budget:
        improved = False
        for cand in shrink_candidates(cur.tree):
            n += 1
            if n >= budget:
                break
            try:
                c2 = Case(cur.op, codec.uncanon(cand), cur.meta)
            except Exception:
                continue
            if prop.valid(c2) and fails(c2):
                cur = c2
                improved = True
                break
    return cur


def shrink_candidates(t, depth=0):
    """Smaller variants of a tree: drop an element of a sequence, or shrink a child."""
    if t[0] in ('tu', 'li') and depth < 4:
        items = t[1]
        if depth >= 1:
            for i in range(len(items)):
                yield (t[0], items[:i] + items[i + 1:])
        for i, x in enumerate(items):
            for y in shrink_candidates(x, depth + 1):
                yield (t[0], items[:i] + (y,) + items[i + 1:])
