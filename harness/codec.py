"""Value codec: Python values <-> canonical trees <-> s-expressions (DESIGN.md 3.1, appendix C).

A *tree* is the canonical, comparable form of a model value:
  ('N',) | ('b'|'i'|'f'|'d', Fraction | 'inf' | '-inf') | ('s', (cp,...)) | ('y', (byte,...))
  | ('D', ordinal) | ('T', micros) | ('t', micros) | ('tu', (tree,...)) | ('li', (tree,...))
"""
import datetime
from decimal import Decimal
from fractions import Fraction


class Unsupported(Exception):
    pass


_EPOCH_ORD = 1


def canon(v):
    """Python value -> tree."""
    if v is None:
        return ('N',)
    if isinstance(v, bool):
        return ('b', Fraction(int(v)))
    if isinstance(v, int):
        return ('i', Fraction(v))
    if isinstance(v, float):
        if v != v:
            raise Unsupported('NaN')
        if v == float('inf'):
            return ('f', 'inf')
        if v == float('-inf'):
            return ('f', '-inf')
        return ('f', Fraction(*v.as_integer_ratio()))
    if isinstance(v, Decimal):
        if v.is_nan():
            raise Unsupported('NaN')
        if v.is_infinite():
            return ('d', 'inf' if v > 0 else '-inf')
        return ('d', Fraction(*v.as_integer_ratio()))
    if isinstance(v, str):
        return ('s', tuple(ord(c) for c in v))
    if isinstance(v, (bytes, bytearray)):
        return ('y', tuple(v))
    if isinstance(v, datetime.datetime):
        if v.tzinfo is not None:
            raise Unsupported('aware datetime')
        days = v.toordinal()
        micros = ((days * 24 + v.hour) * 60 + v.minute) * 60 + v.second
        return ('T', micros * 1000000 + v.microsecond)
    if isinstance(v, datetime.date):
        return ('D', v.toordinal())
    if isinstance(v, datetime.time):
        if v.tzinfo is not None:
            raise Unsupported('aware time')
        return ('t', ((v.hour * 60 + v.minute) * 60 + v.second) * 1000000 + v.microsecond)
    if isinstance(v, tuple):
        return ('tu', tuple(canon(x) for x in v))
    if isinstance(v, list):
        return ('li', tuple(canon(x) for x in v))
    raise Unsupported(type(v).__name__)


def uncanon(t):
    """tree -> Python value (inverse of canon on its range)."""
    k = t[0]
    if k == 'N':
        return None
    if k in 'bifd' and len(k) == 1 and k != 'D':
        x = t[1]
        if k == 'b':
            return bool(x)
        if k == 'i':
            return int(x)
        if k == 'f':
            if x == 'inf':
                return float('inf')
            if x == '-inf':
                return float('-inf')
            return x.numerator / x.denominator
        if k == 'd':
            if x == 'inf':
                return Decimal('Infinity')
            if x == '-inf':
                return Decimal('-Infinity')
            return Decimal(x.numerator) / Decimal(x.denominator)
    if k == 's':
        return ''.join(chr(c) for c in t[1])
    if k == 'y':
        return bytes(t[1])
    if k == 'D':
        return datetime.date.fromordinal(t[1])
    if k == 'T':
        secs, us = divmod(t[1], 1000000)
        days, rem = divmod(secs, 86400)
        return datetime.datetime.fromordinal(days) + datetime.timedelta(seconds=rem, microseconds=us)
    if k == 't':
        secs, us = divmod(t[1], 1000000)
        h, rem = divmod(secs, 3600)
        m, s = divmod(rem, 60)
        return datetime.time(h, m, s, us)
    if k == 'tu':
        return tuple(uncanon(x) for x in t[1])
    if k == 'li':
        return [uncanon(x) for x in t[1]]
    raise ValueError('bad tree %r' % (t,))


def tree_sx(t):
    """tree -> s-expression text."""
    k = t[0]
    if k == 'N':
        return 'N'
    if k in ('b', 'i', 'f', 'd'):
        x = t[1]
        if isinstance(x, str):
            return '(%s %s)' % (k, x)
        return '(%s %d %d)' % (k, x.numerator, x.denominator)
    if k in ('s', 'y'):
        return '(' + ' '.join([k] + [str(c) for c in t[1]]) + ')'
    if k in ('D', 'T', 't'):
        return '(%s %d)' % (k, t[1])
    if k in ('tu', 'li'):
        return '(' + ' '.join([k] + [tree_sx(x) for x in t[1]]) + ')'
    raise ValueError('bad tree %r' % (t,))


def to_sx(v):
    return tree_sx(canon(v))


def _tokens(s):
    i, n = 0, len(s)
    while i < n:
        c = s[i]
        if c == ' ':
            i += 1
        elif c in '()':
            yield c
            i += 1
        else:
            j = i
            while j < n and s[j] not in ' ()':
                j += 1
            yield s[i:j]
            i = j


def parse_sx(s):
    """s-expression text -> tree (numbers normalised)."""
    stack = [[]]
    for tok in _tokens(s):
        if tok == '(':
            stack.append([])
        elif tok == ')':
            items = stack.pop()
            stack[-1].append(_mk(items))
        else:
            stack[-1].append(tok)
    if len(stack) != 1 or len(stack[0]) != 1:
        raise ValueError('bad s-expression: %r' % s[:200])
    r = stack[0][0]
    return ('N',) if r == 'N' else r


def _mk(items):
    k = items[0]
    if k in ('b', 'i', 'f', 'd'):
        if len(items) == 2:
            if items[1] in ('inf', '-inf'):
                return (k, items[1])
            return (k, Fraction(int(items[1])))
        return (k, Fraction(int(items[1]), int(items[2])))
    if k in ('s', 'y'):
        return (k, tuple(int(x) for x in items[1:]))
    if k in ('D', 'T', 't'):
        return (k, int(items[1]))
    if k in ('tu', 'li'):
        return (k, tuple(('N',) if x == 'N' else x for x in items[1:]))
    raise ValueError('bad constructor %r' % (k,))


def tree_json(t):
    """tree -> JSON-able structure (for replay files / evidence samples)."""
    return tree_sx(t)


# ---- helpers for observations ---------------------------------------------------------------
def t_str(s):
    return ('s', tuple(ord(c) for c in s))


def t_err(name, *extra):
    return ('tu', (t_str('!err'), t_str(name)) + tuple(extra))


def t_bool(b):
    return ('b', Fraction(int(bool(b))))


def t_int(n):
    return ('i', Fraction(int(n)))


def is_err(t):
    return t[0] == 'tu' and len(t[1]) >= 2 and t[1][0] == t_str('!err')


def err_name(t):
    return ''.join(chr(c) for c in t[1][1][1])


def pretty(t, limit=400):
    """Readable rendering of a tree for messages."""
    try:
        s = repr(uncanon(t))
    except Exception:
        s = tree_sx(t)
    return s if len(s) <= limit else s[:limit] + '...'
