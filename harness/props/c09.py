"""C09 — grouping and aggregation conserve rows: each row in exactly one group."""
from collections import OrderedDict

from .. import codec, gen, zoo
from ..core import Prop, Case, obs_rows, obs_exc


def canon_conflicts(t):
    """Sort the members of ('!conflict', ...) markers (frozenset order is arbitrary)."""
    if t[0] in ('tu', 'li'):
        items = tuple(canon_conflicts(x) for x in t[1])
        if t[0] == 'tu' and items and items[0] == codec.t_str('!conflict'):
            return ('tu', (items[0],) + tuple(sorted(items[1:], key=codec.tree_sx)))
        return (t[0], items)
    return t


def encode_conflicts(rows):
    from petl.transform.reductions import Conflict
    for r in rows:
        yield tuple(('!conflict',) + tuple(x) if isinstance(x, Conflict) else x for x in r)


class C09(Prop):
    pid = 'C09'
    props_files = ['props/C09.v']
    gen_items = ['ComparableGen', 'AsIndicesGen']
    rule = ('tables with duplicate / None / mixed-type / compound keys (header-only included) x aggregate in all forms '
            '(callable, (field, fn), dict/list of them, key=None), rowreduce, groupselectfirst/last/min/max, mergeduplicates, '
            'fold, valuecounts x buffersize; non-trivial = at least 2 data rows')
    trusted = [
        'Coq 8.16.1 kernel; no axioms',
        'model/Reductions.v hand transcription of rowgroupby, itersimpleaggregate, itermultiaggregate (spec normalisation), '
        'iterrowreduce, groupselect*, itermergeduplicates, iterfold, valuecounts (tied by this correspondence run)',
        'the callable zoo is defined twice (Reductions.v / harness/zoo.py) and exercised on the same inputs',
        'translators; extraction + OCaml driver; harness/codec.py',
    ]
    assumptions = ['keys are field names/indices (callable keys are not modelled)',
                   'valuecounts: the float frequency column is not compared']

    def cases(self, rng, tier):
        n = 200 if tier == 'quick' else 3000
        for _ in range(n):
            alpha = gen.key_alphabet(rng)[:rng.choice([2, 3, 4])]
            w = rng.choice([2, 3])
            hdr = tuple(gen.header(rng, w))
            nrows = rng.choice([0, 1, 2, 4, 6])
            rows = tuple(tuple(rng.choice(alpha) if j == 0 else rng.choice([1, 2, 3, 10, True]) if j == 1
                               else rng.choice(['x', 'y', None]) for j in range(w)) for _ in range(nrows))
            t = (hdr,) + rows
            key = rng.choice([hdr[0], hdr[0], 0, (hdr[0],), (hdr[0], hdr[1]), hdr[1], (hdr[1], hdr[0]), 1])
            bs = rng.choice([None, None, 1, 2])
            val = hdr[1]
            agg = rng.choice([0, 1, 2, 3, 4, 5, 6, 7])
            yield Case('reduce', ('aggregate_simple', False, bs, t, key, zoo.fn(agg), rng.choice([None, val, val]), 'value'))
            yield Case('reduce', ('aggregate_simple', False, None, t, None, zoo.fn(rng.choice([0, 1, 2, 6])), val, 'value'))
            aggs = []
            forms = [lambda: zoo.fn(0), lambda: val, lambda: (val,), lambda: (zoo.fn(6),), lambda: (val, zoo.fn(2)),
                     lambda: (val, zoo.fn(3)), lambda: ((hdr[0], val), zoo.fn(1)), lambda: (val, zoo.fn(7)),
                     # other single source fields than `val`, so that one spec names several different ones
                     lambda: (hdr[0], zoo.fn(1)), lambda: (hdr[-1], zoo.fn(1)), lambda: (hdr[-1], zoo.fn(6)), lambda: (hdr[0], zoo.fn(7))]
            for i in range(rng.choice([0, 1, 2, 3])):
                aggs.append(('o%d' % i, rng.choice(forms)()))
            yield Case('reduce', ('aggregate_multi', False, bs, t, rng.choice([key, key, None]), tuple(aggs)),
                       {'as': rng.choice(['dict', 'list'])})
            yield Case('reduce', ('rowreduce', False, bs, t, key, zoo.fn(rng.choice([0, 1, 2])),
                                  rng.choice([None, None, ('k', 'n')])))
            yield Case('reduce', ('groupselect', False, bs, t, rng.choice([0, 1, 2, 3]), key, val))
            # presorted=True on a table that is sorted by the key (values in any order within and across the groups)
            import petl as etl
            try:
                ts = tuple(tuple(r) for r in etl.sort([list(r) for r in t], key))
            except Exception:
                ts = None
            if ts is not None:
                yield Case('reduce', ('groupselect', True, None, ts, rng.choice([0, 1, 2, 3, 2, 3]), key, val))
            yield Case('reduce', ('mergeduplicates', False, bs, t,
                                  rng.choice([hdr[0], (hdr[0],), (hdr[0], hdr[1]), hdr[1], (hdr[1], hdr[0]), hdr[-1]]),
                                  rng.choice([None, None, 'x'])))
            # ragged rows (the key cell is always there) with and without a missing value of its own
            rag1 = (hdr,) + tuple(r if rng.random() < 0.5 else r[:rng.choice([1, max(1, w - 1)])] for r in rows)
            yield Case('reduce', ('mergeduplicates', False, bs, rag1, rng.choice([hdr[0], (hdr[0],)]),
                                  rng.choice([None, 'x', 'M'])))
            # merge(t1, t2, key): tables with different headers and short rows; every row lands in the group of its own key
            h2 = (hdr[0],) + tuple(rng.sample(['p', 'q'] + list(hdr[1:]), rng.choice([1, 2])))
            t2 = (h2,) + tuple(tuple(rng.choice(alpha) if j == 0 else rng.choice([1, 2, 'x', None]) for j in range(len(h2)))
                               for _ in range(rng.choice([0, 1, 2, 3])))
            short = lambda tt: (tt[0],) + tuple(r if rng.random() < 0.6 else r[:rng.randint(1, len(r))] for r in tt[1:])   # noqa
            # (missing stays None: merge hands `missing` to mergesort only, so any other marker is an ordinary value to the
            #  mergeduplicates stage - behaviour as written, outside what C09 states)
            yield Case('merge', (hdr[0], None, (short(t), short(t2))))
            # zero-length rows belong to the group of the missing key (None): nothing is dropped
            te = (hdr,) + tuple(r if rng.random() < 0.7 else () for r in rows) + ((),)
            yield Case('counts', (hdr[0], bs, te))
            # rowgroupmap: the mapper sees each group once, groups in ascending key order, rows in table order, any buffersize
            yield Case('rgm', (rng.choice([hdr[0], (hdr[0], hdr[1]), hdr[1]]), rng.choice([None, 1, 2, 3]), t))
            # groupcountdistinctvalues: per key, the number of distinct values (judged on the implementation's output)
            yield Case('gcdv', (hdr[0], hdr[1], t))
            rag = (hdr,) + tuple(r if rng.random() < 0.6 else r[:rng.choice([0, 1])] for r in rows)
            yield Case('vcm', (rng.choice([hdr[1], hdr[-1]]), rng.choice(['M', 'NA', None]), rag))
            yield Case('reduce', ('fold', False, bs, t, key, zoo.fn(rng.choice([0, 1])), rng.choice([val, val, None])))
            yield Case('reduce', ('valuecounts', False, None, t, rng.choice([(hdr[0],), (hdr[0], hdr[1])]), None))
            # several fields in another order than the header's, on ragged rows
            yield Case('vc_multi', (tuple(reversed(hdr[:rng.choice([2, w])])), rng.choice(['M', None]), rag))

    def impl(self, case):
        import petl as etl
        if case.op == 'const_true':
            try:
                if case.arg and case.arg[0] == 'vcm':
                    return codec.t_bool(self._vcm(*case.arg[1:]))
                if case.arg and case.arg[0] == 'rgm':
                    return codec.t_bool(self._rgm(*case.arg[1:]))
                if case.arg and case.arg[0] == 'merge':
                    return codec.t_bool(self._merge(*case.arg[1:]))
                if case.arg and case.arg[0] == 'vc_multi':
                    return codec.t_bool(self._vc_multi(*case.arg[1:]))
                if case.arg and case.arg[0] == 'counts':
                    return codec.t_bool(self._counts(*case.arg[1:]))
                return codec.t_bool(self._gcdv(*case.arg))
            except Exception as e:   # noqa
                return obs_exc(e)
        opn, pre, bs, t = case.arg[:4]
        args = case.arg[4:]
        src = [list(r) for r in t]
        try:
            if opn == 'aggregate_simple':
                key, agg, value, field = args
                v = etl.aggregate(src, key, zoo.resolve(agg, zoo.AGG), value=value, presorted=pre, buffersize=bs, field=field)
            elif opn == 'aggregate_multi':
                key, aggs = args
                aggs = [(o, zoo.resolve(a, zoo.AGG)) for o, a in aggs]
                if case.meta.get('as') == 'list':
                    spec = [(o,) + (a if isinstance(a, tuple) else (a,)) for o, a in aggs]
                else:
                    spec = OrderedDict(aggs)
                v = etl.aggregate(src, key, spec, presorted=pre, buffersize=bs)
            elif opn == 'rowreduce':
                key, red, header = args
                v = etl.rowreduce(src, key, zoo.resolve(red, zoo.REDUCER), header=header, presorted=pre, buffersize=bs)
            elif opn == 'groupselect':
                which, key, value = args
                kw = dict(presorted=pre, buffersize=bs)
                v = [lambda: etl.groupselectfirst(src, key, **kw), lambda: etl.groupselectlast(src, key, **kw),
                     lambda: etl.groupselectmin(src, key, value, **kw), lambda: etl.groupselectmax(src, key, value, **kw)][which]()
            elif opn == 'mergeduplicates':
                key, missing = args
                v = encode_conflicts(etl.mergeduplicates(src, key, missing=missing, presorted=pre, buffersize=bs))
            elif opn == 'fold':
                key, f, value = args
                v = etl.fold(src, key, zoo.resolve(f, zoo.FOLD2), value=value, presorted=pre, buffersize=bs)
            elif opn == 'valuecounts':
                fields, missing = args
                v = (r[:-1] for r in etl.valuecounts(src, *fields, missing=missing))
            else:
                raise ValueError(opn)
        except Exception as e:
            return obs_exc(e)
        return obs_rows(v)

    def observe(self, case, obs):
        return canon_conflicts(obs)

    def expand(self, case):
        if case.op == 'gcdv':
            return Case('const_true', case.arg, dict(case.meta, orig='gcdv'))
        if case.op == 'vcm':
            return Case('const_true', ('vcm',) + tuple(case.arg), dict(case.meta, orig='vcm'))
        if case.op in ('rgm', 'merge', 'counts', 'vc_multi'):
            return Case('const_true', (case.op,) + tuple(case.arg), dict(case.meta, orig=case.op))
        return case

    @staticmethod
    def _sorted_groups(t, key):
        """[(key value, [rows in table order])] in ascending key order - a reference that uses nothing of petl but Comparable"""
        from petl.comparison import Comparable
        hdr = list(t[0])
        idx = [hdr.index(k) for k in (key if isinstance(key, tuple) else (key,))]
        kf = (lambda r: r[idx[0]]) if not isinstance(key, tuple) else (lambda r: tuple(r[i] for i in idx))
        groups = []          # in order of first appearance, keys compared with ==
        for r in t[1:]:
            for g in groups:
                if Comparable(g[0]) == Comparable(kf(r)):
                    g[1].append(tuple(r))
                    break
            else:
                groups.append((kf(r), [tuple(r)]))
        # ascending key order (the C04 ordering); a stable insertion sort so that nothing but < is used
        srt = []
        for g in groups:
            i = len(srt)
            while i > 0 and Comparable(g[0]) < Comparable(srt[i - 1][0]):
                i -= 1
            srt.insert(i, g)
        return srt

    def _md_expected(self, t, key, missing):
        """mergeduplicates as documented: per key one row; per other field the one value present, `missing` when there is none,
        a Conflict of the distinct values otherwise; cells a short row does not have count as absent"""
        hdr = list(t[0])
        if isinstance(key, tuple) and len(key) == 1:
            key = key[0]
        keys = key if isinstance(key, tuple) else (key,)
        vidx = [i for i, f in enumerate(hdr) if f not in keys]
        out = [tuple(keys) + tuple(hdr[i] for i in vidx)]
        for k, rows in self._sorted_groups(t, key):
            o = list(k) if isinstance(key, tuple) else [k]
            for i in vidx:
                vals = []
                for r in rows:
                    if len(r) > i and r[i] != missing and not any(r[i] == v for v in vals):
                        vals.append(r[i])
                o.append(vals[0] if len(vals) == 1 else missing if not vals else ('!conflict',) + tuple(vals))
            out.append(tuple(o))
        return out

    def _merge(self, key, missing, tabs):
        import petl as etl
        # the union table by field name: a short row simply lacks its last cells
        fields = []
        for t in tabs:
            for f in t[0]:
                if f not in fields:
                    fields.append(f)
        rows = []
        for t in tabs:
            for r in t[1:]:
                rec = dict(zip(t[0], r))
                rows.append(tuple(rec.get(f, missing) for f in fields))
        want = self._md_expected((tuple(fields),) + tuple(rows), key, missing)
        got = [tuple(r) for r in encode_conflicts(etl.merge(*[[list(r) for r in t] for t in tabs], key=key, missing=missing))]
        norm = lambda rs: [tuple(('!conflict',) + tuple(sorted(x[1:], key=repr)) if isinstance(x, tuple) and x[:1] == ('!conflict',)   # noqa
                                 else x for x in r) for r in rs]
        return norm(got) == norm(want)

    def _vc_multi(self, fields, missing, t):
        """valuecounts / valuecounter over several fields: every row counts under the tuple of ITS OWN cells for those fields, in
        the order asked for, `missing` standing in for cells a short row does not have"""
        import petl as etl
        hdr = list(t[0])
        idx = [hdr.index(f) for f in fields]
        want = {}
        for r in t[1:]:
            k = tuple(r[i] if i < len(r) else missing for i in idx)
            want[k] = want.get(k, 0) + 1
        got = dict(etl.valuecounter([list(r) for r in t], *fields, missing=missing))
        rows = [tuple(r) for r in etl.valuecounts([list(r) for r in t], *fields, missing=missing)]
        got2 = {tuple(r[:len(fields)]): r[len(fields)] for r in rows[1:]}
        vals = [tuple(v) for v in etl.values([list(r) for r in t], *fields, missing=missing)]
        return (got == want and got2 == want and sum(want.values()) == len(t) - 1
                and vals == [tuple(r[i] if i < len(r) else missing for i in idx) for r in t[1:]])

    def _counts(self, key, bs, t):
        """group sizes add up to the number of rows, for every grouping operator, also when some rows are empty"""
        import petl as etl
        n = len(t) - 1
        src = lambda: [list(r) for r in t]   # noqa
        kw = {} if bs is None else {'buffersize': bs}
        a = sum(r[-1] for r in list(etl.aggregate(src(), key, len, **kw))[1:])
        b = sum(r[-1] for r in list(etl.aggregate(src(), key, {'n': len}, **kw))[1:])
        c = sum(r[-1] for r in list(etl.rowreduce(src(), key, lambda k, rows: [k, len(list(rows))], header=['k', 'n'], **kw))[1:])
        d = sum(r[-1] for r in list(etl.rowgroupmap(src(), key, lambda k, rows: [[k, len(list(rows))]], header=['k', 'n'], **kw))[1:])
        e = sum(len(list(g)) for _k, g in etl.rowgroupby(src(), key))
        return (a, b, c, d, e) == (n, n, n, n, n)

    def _rgm(self, key, bs, t):
        import petl as etl
        srt = self._sorted_groups(t, key)
        want = [('k', 'n', 'rows')] + [(g[0], len(g[1]), tuple(g[1])) for g in srt]

        def mapper(k, rows):
            rows = [tuple(r) for r in rows]
            yield [k, len(rows), tuple(rows)]
        kw = {} if bs is None else {'buffersize': bs}
        got = [tuple(r) for r in etl.rowgroupmap([list(r) for r in t], key, mapper, header=['k', 'n', 'rows'], **kw)]
        return got == want

    def _vcm(self, field, missing, t):
        """valuecounts(table, field, missing=m): short rows count under m; counts sum to the number of rows"""
        import petl as etl
        i = t[0].index(field)
        vals = [r[i] if i < len(r) else missing for r in t[1:]]
        want = {}
        for v in vals:
            want[v] = want.get(v, 0) + 1
        got = list(etl.valuecounts([list(r) for r in t], field, missing=missing))
        if tuple(got[0]) != (field, 'count', 'frequency'):
            return False
        d = {}
        for r in got[1:]:
            d[r[0]] = d.get(r[0], 0) + r[1]
        return d == want and sum(r[1] for r in got[1:]) == len(t) - 1

    def _gcdv(self, key, value, t):
        import petl as etl
        from petl.comparison import Comparable
        got = list(etl.groupcountdistinctvalues([list(r) for r in t], key, value))
        ki, vi = t[0].index(key), t[0].index(value)
        groups = []
        for r in t[1:]:
            for g in groups:
                if g[0] == r[ki]:
                    g[1].append(r[vi])
                    break
            else:
                groups.append([r[ki], [r[vi]]])
        groups.sort(key=lambda g: Comparable(g[0]))
        rows = []
        for k, vals in groups:
            distinct = []
            for v in vals:
                if not any(v == d for d in distinct):
                    distinct.append(v)
            rows.append((k, len(distinct)))
        return [tuple(r) for r in got[1:]] == rows and tuple(got[0]) == (key, 'value')

    def valid(self, case):
        if case.op == 'const_true':
            try:
                if case.arg[0] == 'vcm':
                    _, field, missing, t = case.arg
                    return len(t) >= 1 and field in t[0] and len(set(t[0])) == len(t[0])
                if case.arg[0] == 'merge':
                    _, key, missing, tabs = case.arg
                    return missing is None and len(tabs) >= 1 and all(len(t) >= 1 and key in t[0] and t[0][0] == key and len(set(t[0])) == len(t[0])
                               and all(1 <= len(r) <= len(t[0]) for r in t[1:]) for t in tabs)
                if case.arg[0] == 'vc_multi':
                    _, fields, missing, t = case.arg
                    return (len(t) >= 1 and len(fields) >= 2 and len(set(fields)) == len(fields) and all(f in t[0] for f in fields)
                            and len(set(t[0])) == len(t[0]))
                if case.arg[0] == 'counts':
                    _, key, bs, t = case.arg
                    return len(t) >= 1 and key in t[0] and all(len(r) in (0, len(t[0])) for r in t[1:])
                if case.arg[0] == 'rgm':
                    _, key, bs, t = case.arg
                    ks = key if isinstance(key, tuple) else (key,)
                    return (len(t) >= 1 and all(k in t[0] for k in ks) and len(set(t[0])) == len(t[0])
                            and all(len(r) == len(t[0]) for r in t[1:]) and (bs is None or (isinstance(bs, int) and bs >= 1)))
                key, value, t = case.arg
                return len(t) >= 1 and key in t[0] and value in t[0] and all(len(r) == len(t[0]) for r in t[1:])
            except Exception:
                return False
        try:
            t = case.arg[3]
            if len(t) < 1 or len(t[0]) < 1 or not all(isinstance(f, str) for f in t[0]):
                return False
            if len(set(t[0])) != len(t[0]):
                return False
            if case.arg[0] == 'mergeduplicates':
                return all(1 <= len(r) <= len(t[0]) for r in t[1:])     # short rows allowed, the key cell is there
            return all(len(r) == len(t[0]) for r in t[1:])
        except Exception:
            return False

    def spec(self, case, impl_obs, model_obs):
        if case.op == 'const_true':
            return impl_obs == codec.t_bool(True)
        if case.op == 'reduce' and case.arg[0] == 'mergeduplicates' and impl_obs[0] == 'li' and self.valid(case):
            t, key, missing = case.arg[3], case.arg[4], case.arg[5]
            try:
                ks = key if isinstance(key, tuple) else (key,)
                if not all(k in t[0] for k in ks) or len(set(ks)) != len(ks):
                    return None
                if any(len(r) <= max(list(t[0]).index(k) for k in ks) for r in t[1:]):
                    return None
                want = ('li', tuple(('tu', tuple(codec.canon(x) for x in r)) for r in self._md_expected(t, key, missing)))
            except Exception:
                return None
            return canon_conflicts(want) == canon_conflicts(impl_obs)
        return None

    def spec_case(self, case, impl_obs):
        if case.op == 'const_true' or not self.valid(case) or impl_obs[0] != 'li':
            return None
        opn, pre, bs, t = case.arg[:4]
        args = case.arg[4:]
        out = codec.uncanon(impl_obs)
        if opn == 'aggregate_simple' and args[0] is not None:
            key, agg, value, field = args
            scs = [Case('group_spec', ('aggregate', t, out, key, agg, value))]
            if agg[1] == 0:
                scs.append(Case('group_spec', ('counts_sum', t, out)))
            return scs
        if opn == 'rowreduce' and args[1][1] == 0:
            return Case('group_spec', ('counts_sum', t, out))
        if opn == 'valuecounts':
            return Case('group_spec', ('counts_sum', t, out))
        if opn == 'groupselect':
            which, key, value = args
            return Case('group_spec', ('groupselect', t, out, which, key, value))
        return None

    def nontrivial(self, case):
        if case.op in ('const_true', 'gcdv', 'rgm', 'vcm', 'merge', 'counts', 'vc_multi'):
            return len(case.arg[-1]) >= 3
        return len(case.arg[3]) >= 3


PROP = C09
