"""C08 — set operations obey multiset algebra; hash variants agree."""
import itertools

from .. import codec, gen
from ..core import Prop, Case, obs_rows, obs_exc


class C08(Prop):
    pid = 'C08'
    props_files = ['props/C08.v']
    gen_items = ['ComparableGen', 'AsIndicesGen']
    rule = ('pairs of rectangular tables of equal width with duplicated rows on either side, None / mixed-type cells, empty '
            'sides x strict on/off x {complement, intersection, hashcomplement, hashintersection, recordcomplement}; '
            'thorough adds ALL pairs of <=3+3 rows over a 3-row alphabet; non-trivial = both sides have data rows')
    trusted = [
        'Coq 8.16.1 kernel; no axioms',
        'model/SetOps.v hand transcription of itercomplement / iterintersection / iterhashcomplement / iterhashintersection / '
        'recordcomplement (tied by this correspondence run); collections.Counter modelled as an association list under ==',
        'translators; extraction + OCaml driver; harness/codec.py',
    ]
    assumptions = ['rows have the header\'s length; cells contain no lists (hashable, and == agrees with the Comparable '
                   'equivalence)']

    def _call(self, opn, strict, pre, bs, ta, tb, meta=None):
        import petl as etl
        meta = meta or {}
        a = [list(r) for r in ta]
        b = [list(r) for r in tb]
        if meta.get('via') == 'diff_added':          # diff(b, a)[0] = complement(a, b)   (a, b as in the case)
            return etl.diff(b, a, buffersize=bs, strict=strict)[0]
        if meta.get('via') == 'diff_subtracted':     # diff(a, b)[1] = complement(a, b)
            return etl.diff(a, b, buffersize=bs, strict=strict)[1]
        if meta.get('via') == 'recorddiff_subtracted':
            return etl.recorddiff(a, b, buffersize=bs, strict=strict)[1]
        if meta.get('wrap'):
            # inputs that are petl views already (sorted the other way round, sorted, or plain wrappers)
            w = {'rsort': lambda t: etl.sort(t, reverse=True), 'sort': lambda t: etl.sort(t), 'wrap': etl.wrap}[meta['wrap']]
            a, b = w(a), w(b)
        if meta.get('mixed'):
            # presorted inputs whose rows are lists on one side and tuples on the other
            a = [list(r) for r in etl.sort(a)]
            b = [tuple(r) for r in etl.sort(b)]
            if meta['mixed'] == 'tl':
                a, b = [tuple(r) for r in a], [list(r) for r in b]
            pre = True
        if opn == 'complement':
            return etl.complement(a, b, presorted=pre, buffersize=bs, strict=strict)
        if opn == 'intersection':
            return etl.intersection(a, b, presorted=pre, buffersize=bs)
        if opn == 'hashcomplement':
            return etl.hashcomplement(a, b, strict=strict)
        if opn == 'hashintersection':
            return etl.hashintersection(a, b)
        if opn == 'recordcomplement':
            return etl.recordcomplement(a, b, buffersize=bs, strict=strict)
        raise ValueError(opn)

    def _pair(self, rng, maxrows):
        w = rng.choice([1, 2, 2, 3, 4, 4])
        alpha = gen.key_alphabet(rng)[:rng.choice([2, 3, 4])]
        pool = [tuple(rng.choice(alpha) for _ in range(w)) for _ in range(rng.choice([2, 3, 4]))]

        hdrs = [tuple(gen.header(rng, w)), tuple(gen.header(rng, w))]
        if rng.random() < 0.25:
            pool = pool + hdrs          # data rows that look like a header row (of this table or of the other one)

        def tab(hdr):
            n = rng.randint(0, maxrows)
            rows = tuple(rng.choice(pool) if rng.random() < 0.8 else tuple(gen.scalar(rng) for _ in range(w))
                         for _ in range(n))
            return (hdr,) + rows
        return tab(hdrs[0]), tab(hdrs[1])

    def cases(self, rng, tier):
        n = 200 if tier == 'quick' else 3000
        for _ in range(n):
            ta, tb = self._pair(rng, 6 if tier == 'quick' else 10)
            bs = rng.choice([None, None, 1, 2])
            for opn in ('complement', 'hashcomplement'):
                for strict in (False, True):
                    yield Case('setop', (opn, strict, False, bs, ta, tb))
            for opn in ('intersection', 'hashintersection'):
                yield Case('setop', (opn, False, False, bs, ta, tb))
            # recordcomplement: b's fields are a permutation of a's
            perm = list(range(len(ta[0])))
            rng.shuffle(perm)
            tb2 = (tuple(ta[0][i] for i in perm),) + tuple(tuple(r[i] for i in perm) for r in tb[1:])
            yield Case('setop', ('recordcomplement', rng.random() < 0.3, False, bs, ta, tb2))
            # the same operators reached through diff / recorddiff, and with presorted inputs of mixed row types
            st = rng.random() < 0.5
            yield Case('setop', ('complement', st, False, bs, ta, tb), {'via': rng.choice(['diff_added', 'diff_subtracted'])})
            yield Case('setop', ('recordcomplement', st, False, bs, ta, tb2), {'via': 'recorddiff_subtracted'})
            wr = rng.choice(['rsort', 'rsort', 'sort', 'wrap'])
            yield Case('setop', ('complement', st, False, bs, ta, tb), {'wrap': wr})
            yield Case('setop', ('intersection', False, False, bs, ta, tb), {'wrap': wr})
            mixed = rng.choice(['lt', 'tl'])
            yield Case('setop', ('complement', st, False, None, ta, tb), {'mixed': mixed})
            yield Case('setop', ('intersection', False, False, None, ta, tb), {'mixed': mixed})
        # rows that differ but hash alike (-1 / -2, 0 / 2**61-1): the hash variants count rows, not hashes
        for ra, rb in ((((-1, 'x'), (5, 'y')), ((-2, 'x'), (-2, 'x'), (5, 'y'))), (((0, 'x'),), ((2 ** 61 - 1, 'x'),)),
                       (((-1, 'x'), (-2, 'x'), (-1, 'x')), ((-2, 'x'),)), (((-1.0, 'x'),), ((-2, 'x'), (-1, 'x')))):
            ta = (('k', 'v'),) + ra
            tb = (('k', 'v'),) + rb
            for a, b in ((ta, tb), (tb, ta)):
                for opn in ('complement', 'hashcomplement'):
                    for strict in (False, True):
                        yield Case('setop', (opn, strict, False, None, a, b))
                for opn in ('intersection', 'hashintersection'):
                    yield Case('setop', (opn, False, False, None, a, b))
        if tier == 'thorough':
            alpha = [(None, 0), (0, 'a'), (0, 0)]
            for na in range(0, 4):
                for nb in range(0, 4):
                    for ra in itertools.product(alpha, repeat=na):
                        for rb in itertools.product(alpha, repeat=nb):
                            ta = (('x', 'y'),) + ra
                            tb = (('x', 'y'),) + rb
                            for strict in (False, True):
                                yield Case('setop', ('complement', strict, False, None, ta, tb))
                            yield Case('setop', ('intersection', False, False, None, ta, tb))

    def impl(self, case):
        opn, strict, pre, bs, ta, tb = case.arg
        try:
            v = self._call(opn, strict, pre, bs, ta, tb, case.meta)
        except Exception as e:
            return obs_exc(e)
        return obs_rows(v)

    def valid(self, case):
        try:
            opn, strict, pre, bs, ta, tb = case.arg
            for t in (ta, tb):
                if len(t) < 1 or len(t[0]) < 1 or not all(isinstance(f, str) for f in t[0]):
                    return False
                if len(set(t[0])) != len(t[0]) or not all(len(r) == len(t[0]) for r in t[1:]):
                    return False
            if len(ta[0]) != len(tb[0]):
                return False
            if opn == 'recordcomplement' and set(ta[0]) != set(tb[0]):
                return False
            return True
        except Exception:
            return False

    def spec(self, case, impl_obs, model_obs):
        if self.valid(case) and impl_obs[0] != 'li':
            return False      # inside the domain nothing may raise (empty sides included)
        return None

    def spec_case(self, case, impl_obs):
        if not self.valid(case) or impl_obs[0] != 'li':
            return None
        opn, strict, pre, bs, ta, tb = case.arg
        out = codec.uncanon(impl_obs)
        scs = []
        if opn == 'recordcomplement':
            idx = [tb[0].index(f) for f in ta[0]]
            tb = (ta[0],) + tuple(tuple(r[i] for i in idx) for r in tb[1:])
        if opn in ('complement', 'hashcomplement', 'recordcomplement'):
            scs.append(Case('setop_spec', (0, strict, ta, tb, out)))
        else:
            scs.append(Case('setop_spec', (1, False, ta, tb, out)))
        if opn in ('hashcomplement', 'hashintersection'):
            scs.append(Case('subseq', (out, ta)))
        if opn == 'complement' and not strict:
            inter = obs_rows(self._call('intersection', False, pre, bs, ta, tb))
            if inter[0] == 'li':
                scs.append(Case('reassemble', (ta, out, codec.uncanon(inter))))
        return scs

    def nontrivial(self, case):
        return len(case.arg[4]) > 1 and len(case.arg[5]) > 1


PROP = C08
