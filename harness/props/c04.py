"""C04 — Comparable: one consistent total preorder (None < numbers < rest)."""
import itertools

from .. import codec, gen
from ..core import Prop, Case, obs_exc


class C04(Prop):
    pid = 'C04'
    props_files = ['props/C04.v']
    gen_items = ['ComparableGen']
    rule = ('pairs (a,b) of values from a 38-value colliding scalar basis + random scalars + nested tuples/lists '
            '(depth<=2); non-trivial = the two values are not identical objects and at least one is not None; '
            'triples are checked for transitivity/congruence on the implementation\'s own answers')
    trusted = [
        'Coq 8.16.1 kernel (coqc), vm_compute only; no axioms (Print Assumptions: closed under the global context)',
        'translator/comparable.py: Python-ast -> Gallina for Comparable.__lt__/__eq__/__le__/__gt__/__ge__, _typestr, '
        'compat.numeric_types (fail-closed grammar)',
        'model of CPython native comparisons (PyVal.native_scalar_lt / native_scalar_eq, tuple comparison algorithm); '
        'validated by this correspondence run',
        'extraction (ExtrOcamlBasic only, no Extract Constant) + OCaml driver coq/extract/main.ml; '
        'a sample is re-evaluated with vm_compute inside Coq',
        'harness/codec.py (Python value <-> val)',
    ]
    assumptions = ['floats are non-NaN, datetimes naive (the property\'s stated domain)',
                   'CPython compares int/float/Decimal/bool exactly by mathematical value']

    def cases(self, rng, tier):
        n_pairs = 4000 if tier == 'quick' else 60000
        basis = gen.SCALARS
        if tier == 'thorough':
            ext = basis + [(), (1,), (1, 'a'), [1], (None,), ((1,), 2), [1, 'a'], ('a',), (1.0,), [[1]], (b'a',)]
            for a, b in itertools.product(ext, ext):
                yield Case('cmp', (a, b))
        else:
            for a in basis:
                for b in rng.sample(basis, 8):
                    yield Case('cmp', (a, b))
        for _ in range(n_pairs):
            a = gen.value(rng)
            b = gen.value(rng) if rng.random() < 0.8 else self._near(rng, a)
            yield Case('cmp', (a, b))
        for c in self._sites(rng, tier):
            yield c
        for c in self._join_sites(rng, tier):
            yield c

    # ---- "sort, issorted, the selectors and the merge joins use this ordering": a sample of their own checks ------------------
    def _sites(self, rng, tier):
        import random as _r
        from . import c13 as _c13, c05 as _c05
        self._c13 = getattr(self, '_c13', None) or _c13.PROP()
        self._c05 = getattr(self, '_c05', None) or _c05.PROP()
        lim13 = 260 if tier == 'quick' else 2500
        n = 0
        for c in self._c13.cases(_r.Random(rng.randrange(1 << 30)), 'quick' if tier == 'quick' else 'thorough'):
            if c.op == 'select' and c.arg[2][0] in ('lt', 'le', 'gt', 'ge', 'rangeopenleft', 'rangeopenright', 'rangeopen',
                                                     'rangeclosed'):
                yield c
                n += 1
                if n >= lim13:
                    break
        lim05 = 60 if tier == 'quick' else 600
        seen = {'sort': 0, 'issorted': 0, 'issorted_none': 0}
        for c in self._c05.cases(_r.Random(rng.randrange(1 << 30)), 'quick'):
            kind = c.op
            if kind == 'issorted' and c.arg[0] is None:
                kind = 'issorted_none'      # whole-row keys, ragged rows included
            if kind in seen and seen[kind] < lim05:
                seen[kind] += 1
                yield c

    def _join_sites(self, rng, tier):
        import random as _r
        from . import c06 as _c06
        self._c06 = getattr(self, '_c06', None) or _c06.PROP()
        lim = 80 if tier == 'quick' else 800
        n = 0
        # key cells that are lists / tuples / mixed on either side: partners are found by the C04 equivalence
        l = (('id', 'a'), ([1], 'x'), ((1,), 'y'), ([2, None], 'z'), (None, 'w'), ('s', 'v'))
        r = (('id', 'b'), ((1,), 'p'), ([1], 'q'), ([2, None], 'r'), ('s', 't'), (None, 'u'))
        for kn in _c06.KINDS:
            for a, b in ((l, r), (r, l)):
                yield Case('join', (kn, 'id', None, None, False, None, None, None, None, a, b))
        for c in self._c06.cases(_r.Random(rng.randrange(1 << 30)), 'quick'):
            if c.op == 'join':
                yield c
                n += 1
                if n >= lim:
                    break

    def _near(self, rng, a):
        """A value likely to be equal/adjacent to a."""
        if isinstance(a, (tuple, list)):
            l = list(a)
            r = rng.random()
            if r < 0.3:
                return list(l) if isinstance(a, tuple) else tuple(l)
            if r < 0.6 and l:
                return tuple(l[:-1])
            return tuple(l + [gen.scalar(rng)])
        return a

    def _delegate(self, case):
        from . import c13 as _c13, c05 as _c05
        if case.op == 'select':
            self._c13 = getattr(self, '_c13', None) or _c13.PROP()
            return self._c13
        if case.op in ('sort', 'issorted', 'sort_spec'):
            self._c05 = getattr(self, '_c05', None) or _c05.PROP()
            return self._c05
        if case.op in ('join', 'join_spec'):
            from . import c06 as _c06
            self._c06 = getattr(self, '_c06', None) or _c06.PROP()
            return self._c06
        return None

    def spec_case(self, case, impl_obs):
        d = self._delegate(case)
        return d.spec_case(case, impl_obs) if d is not None else None

    def valid(self, case):
        d = self._delegate(case)
        return d.valid(case) if d is not None else True

    def impl(self, case):
        d = self._delegate(case)
        if d is not None:
            return d.impl(case)
        from petl.comparison import Comparable
        a, b = case.arg
        try:
            ca, cb = Comparable(a), Comparable(b)
            lt = ca < cb
            eq = ca == cb
            le = ca <= cb
            gt = ca > cb
            ge = ca >= cb
            return ('tu', tuple(codec.t_bool(x) for x in (lt, eq, le, gt, ge)))
        except Exception as e:
            return obs_exc(e)

    def observe(self, case, obs):
        d = self._delegate(case)
        if d is not None:
            return d.observe(case, obs)
        # the model also returns the reference order (vlt, veq) in positions 5,6
        if obs[0] == 'tu' and len(obs[1]) == 7:
            return ('tu', obs[1][:5])
        return obs

    def spec(self, case, impl_obs, model_obs):
        d = self._delegate(case)
        if d is not None:
            return d.spec(case, impl_obs, model_obs)
        # the reference order of spec/Order.v judges the implementation's answers
        if model_obs[0] != 'tu' or len(model_obs[1]) != 7:
            return None
        if impl_obs[0] != 'tu' or len(impl_obs[1]) != 5 or codec.is_err(impl_obs):
            return False
        vlt = model_obs[1][5][1] == 1
        veq = model_obs[1][6][1] == 1
        lt, eq, le, gt, ge = [x[1] == 1 for x in impl_obs[1]]
        return (lt == vlt and eq == veq and le == (vlt or veq) and gt == (not vlt and not veq)
                and ge == (not vlt))

    def nontrivial(self, case):
        if case.op != 'cmp':
            return True
        a, b = case.arg
        return not (a is None and b is None)

    def static_checks(self):
        """Order axioms on the implementation's own answers over triples of a basis."""
        import random
        from petl.comparison import Comparable
        rng = random.Random(12345)
        vals = gen.SCALARS + [(), (1,), (1, 'a'), [1], (None,), ((1,), 2), ('a',), (1.0, None)]
        bad = None
        n = 0
        C = [Comparable(v) for v in vals]
        idx = range(len(vals))
        trips = itertools.product(idx, idx, idx) if self.tier == 'thorough' else \
            ((rng.choice(idx), rng.choice(idx), rng.choice(idx)) for _ in range(6000))
        for i, j, k in trips:
            n += 1
            a, b, c = C[i], C[j], C[k]
            if a < b and b < c and not (a < c):
                bad = ('transitivity', vals[i], vals[j], vals[k])
                break
            if a == b and ((a < c) != (b < c) or (c < a) != (c < b)):
                bad = ('congruence', vals[i], vals[j], vals[k])
                break
            if (a < b) + (a == b) + (b < a) != 1:
                bad = ('trichotomy', vals[i], vals[j])
                break
        self._triples = n
        return [('impl-order-axioms-on-triples', bad is None, repr(bad))]

    def extra_evidence(self):
        return {'impl_triples_checked': getattr(self, '_triples', 0)}


PROP = C04
