"""C16 — pass-through views are transparent; a consumed tee writes what to* writes."""
import gzip
import io
import logging
import os
import pickle
import re
import tempfile

from .. import codec, gen
from ..core import Prop, Case, obs_exc
from . import c01 as _c01

_C01 = None


def c01():
    global _C01
    if _C01 is None:
        _C01 = _c01.PROP()
    return _C01

CELLS = [None, '', 'a', 'a,b', 'say "hi"', 'x\ny', 'é', 0, 12, -3, True, 'tab\there', '<b>&', "it's", 'long text here']
ENCODINGS = ['utf-8', 'utf-8', 'utf-16', 'latin-1']
QUOTING = {0: 0, 1: 1, 2: 2}


def _rows(rng, ncols, maxrows=5):
    n = rng.choice([0, 0, 1, 2, 3, maxrows])
    rows = []
    for _ in range(n):
        w = ncols if rng.random() < 0.7 else rng.choice([0, 1, ncols + 1, max(ncols - 1, 0)])
        rows.append(tuple(rng.choice(CELLS) for _ in range(w)))
    return tuple(rows)


def _table(rng):
    if rng.random() < 0.06:
        return ()                                # no row at all, not even a header
    ncols = rng.choice([1, 2, 3])
    hdr = tuple(['foo', 'bar', 'baz'][:ncols])
    return (hdr,) + _rows(rng, ncols)


def _as_rows(t, aslist):
    return [list(r) if aslist else tuple(r) for r in t]


class C16(Prop):
    pid = 'C16'
    props_files = ['props/C16.v']
    gen_items = []
    rule = ('tables without any row, header-only and with 1..5 data rows, ragged rows, None / text with delimiters, quotes, newlines, markup, '
            'non-ASCII / int / bool cells, rows as lists or tuples x {teecsv, teetsv, teepickle, teetext, teehtml, progress, '
            'log_progress, clock, wrap, cache} x write_header / delimiter / quoting / pickle protocol / prologue / epilogue / '
            'caption / index_header / truncate / td_styles / tr_style / batch size 1..4 / cache limit x encodings utf-8, utf-16, '
            'latin-1 x sinks (path, .gz, MemorySource) x k = 0..len+1 calls of next() before the iterator is dropped; '
            'non-trivial = at least 2 data rows')
    trusted = [
        'Coq 8.16.1 kernel; no axioms',
        'model/Tees.v hand transcription of the tee / to / progress / clock / wrap generator bodies as effect scripts; tied by '
        'this correspondence run for every k (rows obtained, sink contents after dropping the iterator, messages, exhaustion)',
        'per-row serialisers (csv via model/Csv.v; pickle.dumps, template.format, petl.io.html._write_begin/_write_row/_write_end '
        'called by the harness) are shared by tee* and to*, and enter the model as chunks',
        'model/Machines.v CacheView machine (tied by the C01 schedules, re-run here)',
        'extraction + OCaml driver; harness/codec.py; text codecs and gzip as black boxes',
    ]
    assumptions = ['progress batch size >= 1',
                   'QUOTE_NONE is exercised by C15 only (the writer refuses unrepresentable cells)']

    # ---- cases ----------------------------------------------------------------------------------------------------------
    def cases(self, rng, tier):
        n = 25 if tier == 'quick' else 400
        for _ in range(n):
            t = _table(rng)
            aslist = rng.random() < 0.5
            sink = rng.choice(['path', 'gz', 'mem'])
            ks = self._ks(rng, t, tier)
            enc = rng.choice(ENCODINGS)
            for k in ks:
                yield Case('tee_hl', ('csv', (rng.choice([',', ';', '|']), rng.choice(['"', "'"]), rng.choice([0, 1, 2]),
                                              rng.random() < 0.7, enc, sink), t, aslist, k))
                yield Case('tee_hl', ('tsv', (rng.random() < 0.7, enc, sink), t, aslist, k))
                if t and rng.random() < 0.5:
                    # header fields that are not text (None, numbers): the header goes through the same writer as the rows
                    t2 = ((rng.choice([None, 1, 'foo']),) + tuple(t[0][1:]),) + tuple(t[1:])
                    yield Case('tee_hl', ('csv', (',', '"', rng.choice([0, 2]), True, 'utf-8', sink), t2, aslist, k))
                if rng.random() < 0.4:
                    lossy = {'enc_errors': ['ascii', rng.choice(['replace', 'xmlcharrefreplace', 'ignore'])]}
                    yield Case('tee_hl', ('csv', (',', '"', 0, True, 'utf-8', sink), t, aslist, k), lossy)
                    yield Case('tee_hl', ('text', ('P', 'E', '{foo}\n', 'utf-8', sink), t, aslist, k), lossy)
                    yield Case('tee_hl', ('html', ('cap é', False, None, None, None, '\n', 'utf-8', sink), t, aslist, k), lossy)
                yield Case('tee_hl', ('pickle', (rng.random() < 0.7, rng.choice([-1, 0, 2, 4]), sink), t, aslist, k))
                yield Case('tee_hl', ('text', (rng.choice([None, 'BEGIN\n', '']), rng.choice([None, 'END', '\n']),
                                               rng.choice(['{foo}\n', '{foo}|{foo!r}', 'x', '']), enc, sink), t, aslist, k))
                yield Case('tee_hl', ('html', (rng.choice([None, 'cap é']), rng.random() < 0.3, rng.choice([None, 3]),
                                               rng.choice([None, 'color: red', 'dict']), rng.choice([None, 'font: x', 'fn']),
                                               rng.choice(['\n', '\r\n']), enc, sink), t, aslist, k))
                yield Case('tee_hl', ('progress', (rng.choice([1, 2, 3, 4]), rng.choice(['', 'p: ']), rng.random() < 0.5),
                                      t, aslist, k))
                yield Case('tee_hl', ('clock', (), t, aslist, k))
                yield Case('tee_hl', ('wrap', (), t, aslist, k))
        # cache(n): schedules of interleaved iterators (the CacheView machine)
        for _ in range(n):
            t = gen.freeze(gen.table(rng, maxrows=4, ncols=2, alphabet=[0, 1, 'a']))
            yield Case('cv_run', (rng.choice([None, None, 0, 1, 2, 3, 5]), t, _c01.random_ops(rng)))
        # clearcache() between passes (after a complete pass, after a partial one, twice in a row)
        for lim in (None, 0, 1, 3, 10):
            for hist in (('f', 'c', 'f'), (2, 'c', 'f'), ('f', 'c', 3, 'f'), ('c', 'f', 'c', 'c', 'f'), ('f', 'f', 'c', 1, 'c', 'f')):
                yield Case('cache_clear', (lim, hist, (('k', 'v'), (1, 'a'), (2, 'b'), (3, 'c'), (4, 'd'))))
        # directed: a consumer peeks, another makes a full pass, the first carries on, then fresh passes; staggered starts
        five = (('k', 'v'), (1, 'a'), (2, 'b'), (3, 'c'), (4, 'd'))
        peek = ((0,), (1, 0), (1, 0), (0,)) + ((1, 1),) * 6 + ((1, 0),) * 5 + ((0,),) + ((1, 2),) * 6 + ((0,),) + ((1, 3),) * 6
        stag = ((0,), (1, 0), (1, 0), (1, 0), (0,)) + ((1, 1),) * 6 + ((1, 0),) * 4 + ((0,),) + ((1, 2),) * 6
        lock = ((0,), (0,)) + ((1, 0), (1, 1)) * 6 + ((0,),) + ((1, 2),) * 6
        for ops in (peek, stag, lock):
            for lim in (None, 0, 1, 2, 3, 4, 10):
                yield Case('cv_run', (lim, five, ops))
        if tier == 'thorough':
            small = (('k', 'v'), (1, 'x'), (0, 'y'), (1, 'z'))
            for ln in range(2, 7):
                for ops in _c01.all_ops(ln):
                    for lim in (None, 1, 2, 3):
                        yield Case('cv_run', (lim, small, ops))

    def _ks(self, rng, t, tier):
        full = len(t) + 1
        if tier == 'quick':
            return sorted({full, rng.randint(0, len(t))})
        return list(range(0, full + 1))

    # ---- expansion to the model's input ---------------------------------------------------------------------------------
    def expand(self, case):
        if case.op == 'cache_clear':
            return Case('const_true', ('cache_clear',) + tuple(case.arg), dict(case.meta, orig='cache_clear'))
        if case.op != 'tee_hl':
            return case
        fmt, params, t, aslist, k = case.arg
        rows = [tuple(r) for r in t]
        meta = dict(case.meta, orig=codec_json(case.arg))
        if fmt in ('csv', 'tsv'):
            if fmt == 'csv':
                delim, quote, q, wh = params[:4]
            else:
                delim, quote, q, wh = '\t', '"', 0, params[0]
            return Case('tee', ('csv', (delim, quote, q, wh), tuple(rows), k), meta)
        if fmt == 'pickle':
            wh, protocol, _sink = params
            items = tuple((r, pickle.dumps(list(r) if aslist else tuple(r), protocol)) for r in rows)
            return Case('tee', ('pickle', wh, items, k), meta)
        if fmt == 'text':
            from petl.util.base import asdict
            prologue, epilogue, template = params[:3]
            flds = [str(f) for f in rows[0]] if rows else []
            items = tuple((r, '' if i == 0 else template.format(**asdict(flds, r))) for i, r in enumerate(rows))
            return Case('tee', ('text', (prologue, epilogue), items, k), meta)
        if fmt == 'html':
            from petl.io import html as H
            caption, index_header, truncate, td, tr, lt = params[:6]
            tdv, trv = self._styles(td, tr)

            def chunk(f, *a):
                buf = io.StringIO()
                f(buf, *a)
                return buf.getvalue()
            hdr = rows[0] if rows else ()
            items = []
            for i, r in enumerate(rows):
                if i == 0:
                    items.append((r, chunk(H._write_begin, r, lt, caption, index_header, truncate)))
                else:
                    rr = H.Record(r, hdr) if (trv and callable(trv)) else r
                    items.append((r, chunk(H._write_row, hdr, rr, lt, str, trv, tdv, truncate)))
            begin_empty = chunk(H._write_begin, [], lt, caption, index_header, truncate)
            end = chunk(H._write_end, lt)
            return Case('tee', ('html', (begin_empty, end), tuple(items), k), meta)
        if fmt == 'progress':
            return Case('tee', ('progress', params[0], tuple(rows), k), meta)
        if fmt in ('clock', 'wrap'):
            return Case('tee', ('pass', None, tuple(rows), k), meta)
        raise ValueError(fmt)

    @staticmethod
    def _styles(td, tr):
        tdv = {'foo': 'color: blue', 'nope': 'x'} if td == 'dict' else td
        trv = (lambda row: 'background: %s' % len(row)) if tr == 'fn' else tr
        return tdv, trv

    # ---- implementation -------------------------------------------------------------------------------------------------
    def _cache_clear(self, n, hist, t):
        """cache(t, n) stays transparent across clearcache(): every full pass yields the table, whatever was read, cached or
        cleared before (hist: 'f' full pass, a number k = read k rows and stop, 'c' = clearcache())"""
        import petl as etl
        want = [tuple(r) for r in t]
        from petl.util.materialise import cache
        v = cache([list(r) for r in t], n=n)
        for h in hist:
            if h == 'c':
                v.clearcache()
            elif h == 'f':
                if [tuple(r) for r in v] != want:
                    return False
            else:
                it = iter(v)
                got = []
                for _ in range(h):
                    try:
                        got.append(tuple(next(it)))
                    except StopIteration:
                        break
                if got != want[:len(got)]:
                    return False
                del it
        return [tuple(r) for r in v] == want

    def impl(self, case):
        if case.op == 'cv_run':
            return c01().impl(case)
        if case.op == 'const_true':
            try:
                return codec.t_bool(self._cache_clear(*case.arg[1:]))
            except Exception as e:   # noqa
                return obs_exc(e)
        import petl as etl
        try:
            fmt, params, t, aslist, k = case.meta['orig']
            t = [tuple(untuple(r)) for r in t]
            params = untuple(params)
            with tempfile.TemporaryDirectory(dir='/var/tmp') as td:
                obs, verdict = self._run(etl, td, fmt, params, t, aslist, k, case.meta.get('enc_errors'))
            self._store(case, verdict)
            return obs
        except Exception as e:   # noqa
            self._store(case, None)
            return obs_exc(e)

    def _store(self, case, verdict):
        if not hasattr(self, '_verdicts'):
            self._verdicts = {}
        if len(self._verdicts) > 20000:
            self._verdicts.clear()
        self._verdicts[case.key()] = verdict

    def _sink(self, etl, td, kind, name):
        if kind == 'mem':
            return etl.MemorySource(), None
        p = os.path.join(td, name + {'path': '.dat', 'gz': '.gz'}[kind])
        return p, p

    @staticmethod
    def _read(src, path, kind):
        if path is None:
            return src.getvalue() or b''
        if not os.path.exists(path):
            return b''
        if kind == 'gz':
            with gzip.open(path, 'rb') as f:
                return f.read()
        with open(path, 'rb') as f:
            return f.read()

    def _run(self, etl, td, fmt, params, t, aslist, k, enc_errors=None):
        src_rows = _as_rows(t, aslist)
        msgs = []
        enc = None
        kind = 'mem'
        tee_src = tee_path = to_src = to_path = None
        to_call = None
        if fmt in ('csv', 'tsv'):
            if fmt == 'csv':
                delim, quote, q, wh, enc, kind = params
                kw = dict(delimiter=delim, quotechar=quote, quoting=QUOTING[q])
                teef, tof = etl.teecsv, etl.tocsv
            else:
                wh, enc, kind = params
                kw = {}
                teef, tof = etl.teetsv, etl.totsv
            tee_src, tee_path = self._sink(etl, td, kind, 'tee')
            to_src, to_path = self._sink(etl, td, kind, 'to')
            if enc_errors:
                enc = enc_errors[0]
                kw['errors'] = enc_errors[1]
            view = teef(src_rows, tee_src, encoding=enc, write_header=wh, **kw)
            to_call = lambda: tof(_as_rows(t, aslist), to_src, encoding=enc, write_header=wh, **kw)
        elif fmt == 'pickle':
            wh, protocol, kind = params
            tee_src, tee_path = self._sink(etl, td, kind, 'tee')
            to_src, to_path = self._sink(etl, td, kind, 'to')
            view = etl.teepickle(src_rows, tee_src, protocol=protocol, write_header=wh)
            to_call = lambda: etl.topickle(_as_rows(t, aslist), to_src, protocol=protocol, write_header=wh)
        elif fmt == 'text':
            prologue, epilogue, template, enc, kind = params
            tee_src, tee_path = self._sink(etl, td, kind, 'tee')
            to_src, to_path = self._sink(etl, td, kind, 'to')
            kw = dict(encoding=enc, template=template, prologue=prologue, epilogue=epilogue)
            if enc_errors:
                enc = enc_errors[0]
                kw.update(encoding=enc, errors=enc_errors[1])
            view = etl.teetext(src_rows, tee_src, **kw)
            to_call = lambda: etl.totext(_as_rows(t, aslist), to_src, **kw)
        elif fmt == 'html':
            caption, index_header, truncate, tdc, trc, lt, enc, kind = params
            tdv, trv = self._styles(tdc, trc)
            tee_src, tee_path = self._sink(etl, td, kind, 'tee')
            to_src, to_path = self._sink(etl, td, kind, 'to')
            kw = dict(encoding=enc, caption=caption, index_header=index_header, truncate=truncate, td_styles=tdv,
                      tr_style=trv, lineterminator=lt)
            if enc_errors:
                enc = enc_errors[0]
                kw.update(encoding=enc, errors=enc_errors[1])
            view = etl.teehtml(src_rows, tee_src, **kw)
            to_call = lambda: etl.tohtml(_as_rows(t, aslist), to_src, **kw)
        elif fmt == 'progress':
            batch, prefix, use_logger = params
            if use_logger:
                logger = logging.Logger('c16')
                stream = io.StringIO()
                logger.addHandler(logging.StreamHandler(stream))
                view = etl.log_progress(src_rows, batch, prefix=prefix, logger=logger)
            else:
                stream = io.StringIO()
                view = etl.progress(src_rows, batch, prefix=prefix, out=stream)
        elif fmt == 'clock':
            view = etl.clock(src_rows)
        elif fmt == 'wrap':
            view = etl.wrap(src_rows)
        else:
            raise ValueError(fmt)

        it = iter(view)
        got = []
        fin = False
        for _ in range(k):
            try:
                got.append(next(it))
            except StopIteration:
                fin = True
                break
        if hasattr(it, 'close'):
            it.close()
        del it

        rows_ok = [tuple(r) for r in got] == [tuple(r) for r in t][:len(got)] and (not fin or len(got) == len(t))
        same_objects = True
        sink_text = ''
        to_text = ''
        bytes_ok = True
        if to_call is not None:
            tee_bytes = self._read(tee_src, tee_path, kind)
            to_call()
            to_bytes = self._read(to_src, to_path, kind)
            if fin:
                bytes_ok = (tee_bytes == to_bytes)
            if enc is None:
                sink_text, to_text = tee_bytes.decode('latin-1'), to_bytes.decode('latin-1')
            else:
                sink_text, to_text = tee_bytes.decode(enc, 'replace'), to_bytes.decode(enc, 'replace')
        if fmt == 'progress':
            pre = re.escape(params[1])
            for line in stream.getvalue().splitlines():
                m = re.match(pre + r'(\d+) rows in ', line)
                msgs.append(int(m.group(1)) if m else -1)
        obs = ('tu', (('li', tuple(('tu', tuple(codec.canon(x) for x in r)) for r in got)),
                      codec.canon(sink_text), ('li', tuple(codec.t_int(m) for m in msgs)), codec.t_bool(fin),
                      codec.canon(to_text)))
        return obs, (rows_ok and same_objects, bytes_ok)

    # ---- the property on the implementation's own output ------------------------------------------------------------------
    def spec(self, case, impl_obs, model_obs):
        if case.op == 'const_true':
            return impl_obs == codec.t_bool(True)
        if case.op == 'cv_run':
            return c01().spec(case, impl_obs, model_obs)
        v = getattr(self, '_verdicts', {}).get(case.key())
        if v is None:
            return None
        rows_ok, bytes_ok = v
        return bool(rows_ok and bytes_ok)

    def observe(self, case, obs):
        if case.op == 'cv_run':
            return c01().observe(case, obs)
        if case.meta.get('enc_errors') and obs[0] == 'tu' and len(obs[1]) == 5:
            o = obs[1]
            return ('tu', (o[0], codec.canon(''), o[2], o[3], codec.canon('')))
        return obs

    def valid(self, case):
        try:
            if case.op in ('const_true', 'cache_clear'):
                a = case.arg[1:] if case.op == 'const_true' else case.arg
                return ((a[0] is None or (isinstance(a[0], int) and a[0] >= 0))
                        and all(h in ('c', 'f') or (isinstance(h, int) and 0 <= h <= 50) for h in a[1]) and len(a[2]) >= 1)
            if case.op == 'cv_run':
                return c01().valid(case)
            if case.op == 'tee':
                fmt, params, t, aslist, k = case.meta['orig']
                # the model input is derived from the original arguments: the shrinker may not edit it on its own
                o = Case('tee_hl', (fmt, untuple(params), untuple(t), aslist, k))
                if self.expand(o).tree != case.tree:
                    return False
            elif case.op == 'tee_hl':
                fmt, params, t, aslist, k = case.arg
            else:
                return False
            if not isinstance(k, int) or k < 0:
                return False
            if fmt == 'progress' and params[0] < 1:
                return False
            return True
        except Exception:
            return False

    def nontrivial(self, case):
        try:
            if case.op in ('const_true', 'cache_clear'):
                return len(case.arg[-1]) >= 3
            if case.op == 'cv_run':
                return len(case.arg[1]) >= 3
            src = case.meta['orig'][2] if case.op == 'tee' else case.arg[2]
            return len(src) >= 3
        except Exception:
            return True


def untuple(x):
    if isinstance(x, list):
        return tuple(untuple(y) for y in x)
    return x


def codec_json(arg):
    """case arguments as JSON-able structure (tuples become lists)."""
    if isinstance(arg, tuple):
        return [codec_json(x) for x in arg]
    return arg


PROP = C16
