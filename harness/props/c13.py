"""C13 — selections return exactly the satisfying rows; complement is the exact rest."""
import itertools
import operator

from .. import codec, gen
from ..core import Prop, Case, obs_rows, obs_exc

TYPES = {'int': int, 'bool': bool, 'float': float, 'str': str, 'bytes': bytes, 'tuple': tuple, 'NoneType': type(None)}
USER = {0: lambda v: v >= 2, 1: lambda v: v is None, 3: lambda v: v,     # 3: a predicate that is not a bool
        4: lambda v: v is True or v is False, 5: lambda v: type(v) is float}   # 4, 5: identity / exact type (oracle-side only)


def _no_lists(x):
    if isinstance(x, list):
        return False
    if isinstance(x, tuple):
        return all(_no_lists(y) for y in x)
    return True


def refvalue(rng):
    while True:
        v = gen.value(rng, depth=1) if rng.random() < 0.2 else gen.scalar(rng)
        if _no_lists(v):
            return v


FLUENT = {'eq': 'eq', 'ne': 'ne', 'lt': 'lt', 'le': 'le', 'gt': 'gt', 'ge': 'ge', 'isnone': 'none', 'isnotnone': 'notnone',
          'true': 'true', 'false': 'false', 'in': 'selectin', 'notin': 'selectnotin', 'contains': 'selectcontains',
          'rangeopenleft': 'selectrangeopenleft', 'rangeopenright': 'selectrangeopenright', 'rangeopen': 'selectrangeopen',
          'rangeclosed': 'selectrangeclosed'}


def call_select(etl, src, form, field, pred, complement, missing, fluent=False):
    tag = pred[0]
    if fluent and form == 'field' and tag in FLUENT:
        # the same selector reached as a method of a table (short aliases included)
        meth = getattr(etl.wrap(src), FLUENT[tag])
        return meth(field, *pred[1:], complement=complement)
    if form == 'row':
        if tag == 'len':
            return etl.rowlenselect(src, pred[1], complement=complement)
        f, vp = pred[1], pred[2]
        test = vpred_fn(vp)
        return etl.select(src, lambda rec: test(rec[f]), complement=complement, missing=missing)
    kw = dict(complement=complement)
    simple = {'eq': etl.selecteq, 'ne': etl.selectne, 'lt': etl.selectlt, 'le': etl.selectle, 'gt': etl.selectgt,
              'ge': etl.selectge, 'in': etl.selectin, 'notin': etl.selectnotin, 'contains': etl.selectcontains}
    if tag in simple:
        return simple[tag](src, field, pred[1], **kw)
    ranges = {'rangeopenleft': etl.selectrangeopenleft, 'rangeopenright': etl.selectrangeopenright,
              'rangeopen': etl.selectrangeopen, 'rangeclosed': etl.selectrangeclosed}
    if tag in ranges:
        return ranges[tag](src, field, pred[1], pred[2], **kw)
    if tag == 'isnone':
        return etl.selectnone(src, field, **kw)
    if tag == 'isnotnone':
        return etl.selectnotnone(src, field, **kw)
    if tag == 'true':
        return etl.selecttrue(src, field, **kw)
    if tag == 'false':
        return etl.selectfalse(src, field, **kw)
    if tag == 'isinstance':
        return etl.selectisinstance(src, field, TYPES[pred[1]], **kw)
    if tag == 'user':
        return etl.select(src, field, USER[pred[1]], complement=complement, missing=missing)
    raise ValueError(tag)


def vpred_fn(vp):
    from petl.comparison import Comparable
    tag = vp[0]
    if tag == 'eq':
        return lambda v: v == vp[1]
    if tag == 'lt':
        return lambda v: v < Comparable(vp[1])
    if tag == 'ge':
        return lambda v: v >= Comparable(vp[1])
    if tag == 'isnone':
        return lambda v: v is None
    if tag == 'true':
        return lambda v: bool(v)
    if tag == 'user':
        return USER[vp[1]]
    raise ValueError(tag)


class C13(Prop):
    pid = 'C13'
    props_files = ['props/C13.v']
    gen_items = ['ComparableGen', 'AsIndicesGen']
    rule = ('tables with mixed-type / None cells and ragged rows x every selector (eq, ne, lt, le, gt, ge, the four range '
            'selectors, in/notin/contains, none/notnone/true/false, isinstance, rowlenselect, select with row and field '
            'predicates) x reference values of every kind (None, numbers, text, bytes, dates, tuples) x complement x missing; '
            'rowslice/head/tail/skip with all slice triples over {None,0,1,2,5}; search/searchcomplement with literal '
            'patterns; non-trivial = at least 2 data rows')
    trusted = [
        'Coq 8.16.1 kernel; no axioms',
        'model/Selects.v hand transcription of iterfieldselect / iterrowselect, the selector lambdas (incl. the reflected '
        'comparison v < Comparable(c) resolved to Comparable.__gt__), Record.__getitem__, rowslice / tail / skip / search '
        '(tied by this correspondence run); itertools.islice and collections.deque modelled on lists',
        'translators; extraction + OCaml driver; harness/codec.py',
    ]
    assumptions = ['cells and reference values contain no lists (Comparable.__eq__ against a raw list is not symmetric)',
                   'regular expressions are literal patterns (no metacharacters)']

    def _table(self, rng, ragged):
        hdr = ('k', 'a', 'v')
        n = rng.choice([0, 1, 2, 4, 6])
        rows = []
        alpha = [x for x in gen.key_alphabet(rng) if _no_lists(x)]
        for _ in range(n):
            r = [rng.choice(alpha) if rng.random() < 0.8 else refvalue(rng), rng.choice(['x', 'y', 'xy', '', None]),
                 rng.choice([1, 2, 3, None, 2.5])]
            if ragged and rng.random() < 0.3:
                r = r[:rng.choice([0, 1, 2])] if rng.random() < 0.7 else r + ['extra']
            rows.append(tuple(r))
        return (hdr,) + tuple(rows)

    def _preds(self, rng):
        c = refvalue(rng) if rng.random() > 0.15 else None
        c2 = refvalue(rng) if rng.random() > 0.15 else None
        yield ('eq', c)
        yield ('ne', c)
        for t in ('lt', 'le', 'gt', 'ge'):
            yield (t, c)
        for t in ('rangeopenleft', 'rangeopenright', 'rangeopen', 'rangeclosed'):
            yield (t, c, c2)
        yield ('in', tuple(refvalue(rng) for _ in range(rng.choice([0, 1, 3]))))
        yield ('notin', tuple(refvalue(rng) for _ in range(rng.choice([0, 1, 3]))))
        yield ('isnone',)
        yield ('isnotnone',)
        yield ('true',)
        yield ('false',)
        yield ('isinstance', rng.choice(sorted(TYPES)))
        yield ('user', 1)
        yield ('user', 3)

    def cases(self, rng, tier):
        n = 60 if tier == 'quick' else 800
        for _ in range(n):
            t = self._table(rng, rng.random() < 0.4)
            compl = rng.random() < 0.4
            missing = rng.choice([None, None, 'M'])
            for p in self._preds(rng):
                # the named selectors take no `missing` argument (None is used); select() itself does
                yield Case('select', ('field', rng.choice(['k', 'k', 0, 'v']), p, compl,
                                      missing if p[0] == 'user' else None, t))
                if p[0] in FLUENT:
                    yield Case('select', ('field', rng.choice(['k', 'k', 0, 'v']), p, not compl, None, t), {'fluent': True})
            yield Case('select', ('field', 'a', ('contains', rng.choice(['x', 'y', ''])), compl, None,
                                  tuple(r for r in t if len(r) < 2 or r[1] is not None)))
            yield Case('select', ('field', 'v', ('user', 0), compl, missing,
                                  tuple(r for r in t if len(r) >= 3 and isinstance(r[2], (int, float)) or r is t[0])))
            yield Case('select', ('row', None, ('len', rng.choice([0, 1, 3, 4])), compl, missing, t))
            yield Case('select', ('row', None, ('field', rng.choice(['k', 'v', 0, 2]),
                                                rng.choice([('eq', refvalue(rng)), ('lt', refvalue(rng)),
                                                            ('ge', refvalue(rng)), ('isnone',), ('true',)])),
                                  compl, missing, t))
            yield Case('tail', (rng.choice([0, 1, 2, 5]), t))
            yield Case('skip', (rng.choice([0, 1, 2]), t))
            st = tuple((str(r[0]) if len(r) > 0 else '', r[1] if len(r) > 1 and r[1] is not None else '', 1) if r is not t[0]
                       else r for r in t)
            yield Case('search', (rng.choice(['x', 'y', '1', 'a']), rng.choice([None, 'k', 'a', ('k', 'a')]), compl, st))
            # regular expressions proper and flags, judged against re.search on the real code (both halves of the partition)
            yield Case('search_re', (rng.choice(['X', '^x', 'y$', 'x|1', '[ab]', 'Y']), rng.choice([None, 'k', 'a', 0, 1]),
                                     rng.choice([0, 0, 2, 8]), st))
            yield Case('search_re', (rng.choice(['X', 'Y', 'XY']), rng.choice([None, 'a', 'a']), 2, st))
            # biselect (with and without a complement keyword of its own) and the tables of facet partition the input
            rect = self._table(rng, False)
            yield Case('biselect', (rng.choice(['k', 'a', 'v', None]), rng.choice([('eq', refvalue(rng)), ('isnone',), ('true',),
                                                                                  ('user', 1), ('lt', refvalue(rng))]),
                                    rng.choice([None, None, True, False]), rect))
            yield Case('facet', (rng.choice(['k', 'a', 'v', ('k', 'a')]), rect))
            # membership in a string (substring semantics) and in a tuple, selectin vs selectnotin
            yield Case('select', ('field', 'a', ('in', rng.choice(['xy', 'yx', 'x', ''])), compl, None, t))
            yield Case('select', ('field', 'a', ('notin', rng.choice(['xy', 'yx', 'x', ''])), compl, None, t))
        # values that are == and hash alike but are not the same (1 / True / 1.0, 0 / False / 0.0) under type-sensitive predicates
        mixed = [(1, 'x', 1), (True, 'y', 2), (1.0, 'x', 3), (0, 'y', 1), (False, 'x', 2), (0.0, 'y', 3), (1, 'xy', None)]
        for rot in range(len(mixed)):
            tm = (('k', 'a', 'v'),) + tuple(mixed[rot:] + mixed[:rot])
            for ty in ('int', 'bool', 'float'):
                for compl in (False, True):
                    yield Case('select', ('field', 'k', ('isinstance', ty), compl, None, tm))
            yield Case('biselect', ('k', ('user', 4), None, tm))
            yield Case('biselect', ('k', ('user', 5), None, tm))
        # list cells against list / tuple references: selecteq / selectne are plain == / != (a list equals a list, not a tuple)
        tl = (('k', 'a', 'v'), ((1, 2), 'x', 1), ([1, 2], 'y', 2), ([1], 'x', 3), ('x', 'y', 1), ([1, 2], 'xy', None), ((1,), '', 2))
        for ref in ([1, 2], (1, 2), [1], (1,), []):
            for tag in ('eq', 'ne'):
                for compl in (False, True):
                    yield Case('select', ('field', 'k', (tag, ref), compl, None, tl))
        # all slice argument triples
        vals = [None, 0, 1, 2, 5]
        t = (('k',),) + tuple((i,) for i in range(7))
        for stop in vals:
            yield Case('rowslice', ((stop,), t))
        for start, stop in itertools.product(vals, vals):
            yield Case('rowslice', ((start, stop), t))
        for start, stop, step in itertools.product(vals, vals, [None, 1, 2, 5]):
            yield Case('rowslice', ((start, stop, step), t))

    def impl(self, case):
        import petl as etl
        try:
            if case.op == 'select':
                form, field, pred, compl, missing, t = case.arg
                return obs_rows(call_select(etl, [tuple(r) for r in t], form, field, pred, compl, missing,
                                            fluent=bool(case.meta.get('fluent'))))
            if case.op == 'rowslice':
                args, t = case.arg
                return obs_rows(etl.rowslice([tuple(r) for r in t], *args))
            if case.op == 'tail':
                n, t = case.arg
                return obs_rows(etl.tail([tuple(r) for r in t], n))
            if case.op == 'skip':
                n, t = case.arg
                return obs_rows(etl.skip([tuple(r) for r in t], n))
            if case.op == 'const_true':
                if case.arg[0] == 'biselect':
                    return codec.t_bool(self._biselect(*case.arg[1:]))
                if case.arg[0] == 'facet':
                    return codec.t_bool(self._facet(*case.arg[1:]))
                return codec.t_bool(self._search_re(*case.arg))
            if case.op == 'search':
                pat, field, compl, t = case.arg
                f = etl.searchcomplement if compl else etl.search
                src = [tuple(r) for r in t]
                return obs_rows(f(src, pat) if field is None else f(src, field, pat))
        except Exception as e:   # noqa
            return obs_exc(e)
        raise ValueError(case.op)

    def expand(self, case):
        if case.op == 'search_re':
            return Case('const_true', case.arg, dict(case.meta, orig='search_re'))
        if case.op in ('biselect', 'facet'):
            return Case('const_true', (case.op,) + tuple(case.arg), dict(case.meta, orig=case.op))
        return case

    def _biselect(self, field, vp, compl_kw, t):
        import petl as etl
        src = [tuple(r) for r in t]
        test = vpred_fn(vp)
        kw = {} if compl_kw is None else {'complement': compl_kw}
        if field is None:
            i = 0
            pred = lambda rec: test(rec[0])   # noqa
            t1, t2 = etl.biselect(src, pred, **kw)
        else:
            i = list(t[0]).index(field)
            pred = test
            t1, t2 = etl.biselect(src, field, pred, **kw)
        want_in = [tuple(r) for r in t[1:] if test(r[i])]
        want_out = [tuple(r) for r in t[1:] if not test(r[i])]
        return ([tuple(r) for r in t1] == [tuple(t[0])] + want_in and [tuple(r) for r in t2] == [tuple(t[0])] + want_out)

    def _facet(self, key, t):
        import petl as etl
        src = [tuple(r) for r in t]
        hdr = list(t[0])
        kf = (lambda r: tuple(r[hdr.index(k)] for k in key)) if isinstance(key, tuple) else (lambda r: r[hdr.index(key)])
        fct = etl.facet(src, key)
        total = 0
        for v, tab in fct.items():
            rows = [tuple(r) for r in tab]
            if rows[0] != tuple(t[0]) or rows[1:] != [tuple(r) for r in t[1:] if kf(r) == v] or len(rows) < 2:
                return False
            total += len(rows) - 1
        return total == len(t) - 1 and all(any(kf(r) == v for v in fct) for r in t[1:])

    def _search_re(self, pat, field, flags, t):
        import re
        import petl as etl
        src = [tuple(r) for r in t]
        prog = re.compile(pat, flags)
        hdr = t[0]

        def hit(r):
            if field is None:
                return any(prog.search(str(v)) for v in r)
            i = field if isinstance(field, int) else hdr.index(field)
            return bool(prog.search(str(r[i])))
        want_in = [tuple(r) for r in t[1:] if hit(r)]
        want_out = [tuple(r) for r in t[1:] if not hit(r)]
        if field is None:
            got_in = list(etl.search(src, pat, flags=flags))[1:]
            got_out = list(etl.searchcomplement(src, pat, flags=flags))[1:]
        else:
            got_in = list(etl.search(src, field, pat, flags=flags))[1:]
            got_out = list(etl.searchcomplement(src, field, pat, flags=flags))[1:]
        return [tuple(r) for r in got_in] == want_in and [tuple(r) for r in got_out] == want_out

    def spec(self, case, impl_obs, model_obs):
        """The documented predicate, evaluated independently on the input rows (field selectors on rectangular-or-ragged
        tables): rows returned = rows satisfying it (XOR complement), in input order; and select + complement partition."""
        import petl as etl
        if case.op == 'const_true':
            return impl_obs == codec.t_bool(True)
        if case.op != 'select' or impl_obs[0] != 'li':
            return None
        form, field, pred, compl, missing, t = case.arg
        if form == 'field' and pred[0] in ('eq', 'ne') and (field in t[0] or (isinstance(field, int) and 0 <= field < len(t[0]))):
            # the documented predicate itself: cell == reference (a missing cell reads as None)
            i = field if isinstance(field, int) else list(t[0]).index(field)
            try:
                sel = [tuple(r) for r in t[1:] if (((r[i] if i < len(r) else None) == pred[1]) == (pred[0] == 'eq')) != compl]
                want = ('li', tuple(('tu', tuple(codec.canon(x) for x in r)) for r in [tuple(t[0])] + sel))
                if want != impl_obs:
                    return False
            except Exception:
                pass
        try:
            other = obs_rows(call_select(etl, [tuple(r) for r in t], form, field, pred, not compl, missing))
        except Exception:
            return None
        if other[0] != 'li':
            return None
        a = list(impl_obs[1][1:])
        b = list(other[1][1:])
        rows = [('tu', tuple(codec.canon(x) for x in r)) for r in t[1:]]
        # partition in input order: merging a and b by input position must reproduce the rows
        ia = ib = 0
        for r in rows:
            if ia < len(a) and a[ia] == r and not (ib < len(b) and b[ib] == r and False):
                ia += 1
            elif ib < len(b) and b[ib] == r:
                ib += 1
            else:
                return False
        return ia == len(a) and ib == len(b)

    def valid(self, case):
        try:
            t = case.arg[-1]
            return len(t) >= 1 and tuple(t[0]) in (('k', 'a', 'v'), ('k',))
        except Exception:
            return False

    def nontrivial(self, case):
        return len(case.arg[-1]) >= 3

    def static_checks(self):
        from .. import catalogue
        return [catalogue.method_alias_check()]


PROP = C13
