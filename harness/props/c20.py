"""C20 — tables with a header and no data rows are handled by every operator."""
import itertools
import random

from .. import codec, gen, catalogue, zoo
from ..core import Prop, Case, obs_rows, obs_exc
from .c06 import call_join
from .c10 import C10
from .c08 import C08
from .c09 import C09

# operators whose output header depends on the data (sampled fields, pivoted values ...): the "usual header" test is skipped
HDR_FROM_DATA = {'recast', 'recast:variablefield', 'pivot', 'transpose', 'unpackdict:sample', 'unpackdict:default', 'facet', 'fromcolumns',
                 'unflatten', 'flatten', 'cat:header'}
# data rows expected when EVERY input is header-only (default 0)
EXPECT_ROWS = {'pushheader': 1, 'fromtext:mem': 1, 'aggregate:nokey:simple': 1, 'transpose': 2, 'parsecounts': 2,
               'addcolumn': 3}     # addcolumn is documented to pad: the new column's values become rows
# skip(table, 1) drops the only row: by definition nothing is left, not even a header
NO_HEADER_OK = {'skip'}


def _stats0(etl, t):
    s = etl.stats(t, 'v')
    return (s.count, s.errors, s.sum, s.min, s.max)


# accessor -> (call on a header-only table ['k','a','v'], value for zero rows)
ACCESSORS = {
    'nrows': (lambda etl, t: etl.nrows(t), 0),
    'header': (lambda etl, t: tuple(etl.header(t)), ('k', 'a', 'v')),
    'fieldnames': (lambda etl, t: tuple(etl.fieldnames(t)), ('k', 'a', 'v')),
    'data': (lambda etl, t: list(etl.data(t)), []),
    'values': (lambda etl, t: list(etl.values(t, 'v')), []),
    'values:multi': (lambda etl, t: list(etl.values(t, 'k', 'v')), []),
    'dicts': (lambda etl, t: list(etl.dicts(t)), []),
    'records': (lambda etl, t: list(etl.records(t)), []),
    'namedtuples': (lambda etl, t: list(etl.namedtuples(t)), []),
    'columns': (lambda etl, t: dict(etl.columns(t)), {'k': [], 'a': [], 'v': []}),
    'facetcolumns': (lambda etl, t: dict(etl.facetcolumns(t, 'k')), {}),
    'lookup': (lambda etl, t: dict(etl.lookup(t, 'k')), {}),
    'lookupone': (lambda etl, t: dict(etl.lookupone(t, 'k')), {}),
    'dictlookup': (lambda etl, t: dict(etl.dictlookup(t, 'k')), {}),
    'dictlookupone': (lambda etl, t: dict(etl.dictlookupone(t, 'k')), {}),
    'recordlookup': (lambda etl, t: dict(etl.recordlookup(t, 'k')), {}),
    'recordlookupone': (lambda etl, t: dict(etl.recordlookupone(t, 'k')), {}),
    'limits': (lambda etl, t: etl.limits(t, 'v'), (None, None)),
    'stats': (_stats0, (0, 0, 0, None, None)),
    'typeset': (lambda etl, t: etl.typeset(t, 'v'), set()),
    'valuecount': (lambda etl, t: etl.valuecount(t, 'k', 1), (0, 0.0)),
    'valuecounter': (lambda etl, t: dict(etl.valuecounter(t, 'v')), {}),
    'typecounter': (lambda etl, t: dict(etl.typecounter(t, 'v')), {}),
    'parsecounter': (lambda etl, t: tuple(sum(c.values()) for c in etl.parsecounter(t, 'v')), (0, 0)),
    'stringpatterncounter': (lambda etl, t: dict(etl.stringpatterncounter(t, 'a')), {}),
    'rowlengths': (lambda etl, t: [tuple(r) for r in etl.rowlengths(t)], [('length', 'count')]),
    'isunique': (lambda etl, t: etl.isunique(t, 'k'), True),
    'issorted': (lambda etl, t: etl.issorted(t, 'k'), True),
    'diffheaders': (lambda etl, t: etl.diffheaders(t, [['k', 'x']]), ({'x'}, {'a', 'v'})),
    'diffvalues': (lambda etl, t: etl.diffvalues(t, [['k']], 'k'), (set(), set())),
    'listoflists': (lambda etl, t: etl.listoflists(t), [['k', 'a', 'v']]),
    'tupleoftuples': (lambda etl, t: etl.tupleoftuples(t), (('k', 'a', 'v'),)),
    'look': (lambda etl, t: str(etl.look(t)), '+---+---+---+\n| k | a | v |\n+===+===+===+\n'),
    'lookall': (lambda etl, t: str(etl.lookall(t)), '+---+---+---+\n| k | a | v |\n+===+===+===+\n'),
    'see': (lambda etl, t: str(etl.see(t)), 'k: \na: \nv: \n'),
    'look:simple:text': (lambda etl, t: str(etl.look(t, style='simple')), '=  =  =\nk  a  v\n=  =  =\n=  =  =\n'),
    'look:minimal:text': (lambda etl, t: str(etl.look(t, style='minimal')), 'k  a  v\n'),
    'repr:text': (lambda etl, t: repr(etl.wrap(t)), '+---+---+---+\n| k | a | v |\n+===+===+===+\n'),
    'str:text': (lambda etl, t: str(etl.wrap(t)), '+---+---+---+\n| k | a | v |\n+===+===+===+\n'),
    'repr_html:text': (lambda etl, t: etl.wrap(t)._repr_html_(),
                       "<table class='petl'>\n<thead>\n<tr>\n<th>k</th>\n<th>a</th>\n<th>v</th>\n</tr>\n</thead>\n<tbody>\n</tbody>\n</table>\n"),
    'look:simple': (lambda etl, t: 'k' in str(etl.look(t, style='simple')) and 'v' in str(etl.look(t, style='simple')), True),
    'look:minimal': (lambda etl, t: 'k' in str(etl.look(t, style='minimal')), True),
    'lookall:simple': (lambda etl, t: 'a' in str(etl.lookall(t, style='simple')), True),
    'lookstr': (lambda etl, t: 'k' in str(etl.lookstr(t)), True),
    'look:index_header': (lambda etl, t: '0|k' in str(etl.look(t, index_header=True)), True),
    'repr': (lambda etl, t: 'k' in repr(etl.wrap(t)) and 'k' in str(etl.wrap(t)), True),
    'repr_html': (lambda etl, t: '<th>k</th>' in etl.wrap(t)._repr_html_(), True),
    'tohtml': (lambda etl, t: _sunk(etl, lambda s: etl.tohtml(t, s), b'<th>k</th>'), True),
    'tocsv': (lambda etl, t: _sunk(etl, lambda s: etl.tocsv(t, s), b'k,a,v'), True),
    'totext': (lambda etl, t: _sunk(etl, lambda s: etl.totext(t, s, encoding='ascii', prologue='P', template='{k}', epilogue='E'),
                                    b'PE'), True),
    'tojson': (lambda etl, t: _sunk(etl, lambda s: etl.tojson(t, s), b'[]'), True),
}


def _sunk(etl, write, want):
    src = etl.MemorySource()
    write(src)
    return want in src.getvalue()


class C20(Prop):
    pid = 'C20'
    props_files = ['props/C20.v']
    gen_items = ['ComparableGen', 'AsIndicesGen']
    rule = ('every call form of the operator catalogue (171; completeness against the package exports is checked on every run) '
            'x every position of the header-only table among the inputs ({0},{1},{0,1}) x header shapes; plus the modelled '
            'operators (sort, dedup family, set operations, joins, hash joins, reductions) compared exactly with their models '
            'on header-only inputs with 1- and 3-field headers; non-trivial = binary operator or at least one other input '
            'with data rows')
    trusted = [
        'Coq 8.16.1 kernel; no axioms',
        'operator models of C05-C10 (tied by their own correspondences); harness/catalogue.py (operator list, compared with '
        'the exports of petl.transform / petl.util on every run)',
        'extraction + OCaml driver; harness/codec.py',
    ]
    assumptions = ['interval operators need the optional intervaltree package and are not swept']

    def static_checks(self):
        missing = catalogue.completeness()
        return [('catalogue-covers-public-operators', not missing, 'not in the catalogue: %s' % missing)]

    def cases(self, rng, tier):
        ents = [e for e in catalogue.entries() if 'noh' not in e['flags']]
        reps = 1 if tier == 'quick' else 5
        for e in ents:
            n = e['nsrc']
            subsets = [s for k in range(1, n + 1) for s in itertools.combinations(range(n), k)]
            for pos in subsets:
                for _ in range(reps):
                    yield Case('const_true', ('c20', e['name'], tuple(pos), rng.randrange(1 << 30)))
        # accessors and reporting functions on a header-only table: the value their definition gives for zero rows
        for nm in sorted(ACCESSORS):
            yield Case('const_true', ('acc', nm, (0,), 0))
        # modelled operators, exact comparison on header-only inputs
        for hdr in (('a',), ('a', 'b', 'c')):
            rows = tuple(tuple(rng.choice([None, 1, 'x']) for _ in hdr) for _ in range(3))
            full = (hdr,) + rows
            empty = (hdr,)
            for key in (None, 'a', 0):
                for bs in (None, 1):
                    yield Case('sort', (bs, False, key, empty))
                    for opn in ('duplicates', 'unique', 'distinct'):
                        yield Case('dedup', (opn, key, False, bs, empty, None))
                    yield Case('dedup', ('distinct_count', key, False, bs, empty, 'n'))
                if key is not None:
                    yield Case('dedup', ('conflicts', key, False, None, empty, (None, None, None)))
                    yield Case('reduce', ('aggregate_simple', False, None, empty, key, zoo.fn(0), None, 'value'))
                    yield Case('reduce', ('rowreduce', False, None, empty, key, zoo.fn(0), None))
                    yield Case('reduce', ('groupselect', False, None, empty, 0, key, hdr[-1]))
                    yield Case('reduce', ('fold', False, None, empty, key, zoo.fn(1), hdr[-1]))
                    if isinstance(key, str):
                        yield Case('reduce', ('mergeduplicates', False, None, empty, key, None))
            yield Case('reduce', ('aggregate_multi', False, None, empty, None, (('n', zoo.fn(0)),)), {'as': 'dict'})
            yield Case('reduce', ('aggregate_simple', False, None, empty, None, zoo.fn(0), hdr[0], 'value'))
            for ta, tb in ((empty, full), (full, empty), (empty, empty)):
                for opn in ('complement', 'hashcomplement', 'intersection', 'hashintersection', 'recordcomplement'):
                    yield Case('setop', (opn, False, False, None, ta, tb))
                yield Case('setop', ('complement', True, False, None, ta, tb))
                rb = (tuple('r' + f if i else f for i, f in enumerate(hdr)),) + tuple(tb[1:])
                for kn in ('join', 'leftjoin', 'rightjoin', 'outerjoin', 'lookupjoin', 'antijoin'):
                    yield Case('join', (kn, hdr[0], None, None, False, None, None, None, None, ta, rb))
                for kn in ('join', 'leftjoin', 'rightjoin', 'lookupjoin', 'antijoin'):
                    yield Case('hashjoin', (kn, hdr[0], None, None, None, None, None, ta, rb))

    def _c20(self, name, pos, seed):
        e = [x for x in catalogue.entries() if x['name'] == name][0]
        rng = random.Random(seed)
        srcs = catalogue.standard_sources(rng, e['nsrc'], nrows=rng.choice([2, 3]), header_only=set(pos))
        usual = catalogue.standard_sources(random.Random(seed + 1), e['nsrc'], nrows=3)
        try:
            v = catalogue.build(e, srcs)
            out = list(v) if v is not None else []
        except Exception as ex:   # noqa
            return False, 'raised %s: %s' % (type(ex).__name__, ex)
        if v is None:
            return True, ''
        if not out:
            return (name in NO_HEADER_OK), 'no header row'
        if name not in HDR_FROM_DATA:
            try:
                uh = list(catalogue.build(e, usual))[0]
            except Exception as ex:   # noqa
                return True, 'usual run failed: %r' % (ex,)
            if tuple(out[0]) != tuple(uh):
                return False, 'header %r differs from the usual header %r' % (out[0], uh)
        if len(pos) == e['nsrc']:
            want = EXPECT_ROWS.get(name, 0)
            if len(out) - 1 != want:
                return False, '%d data rows from header-only input, expected %d' % (len(out) - 1, want)
        return True, ''

    def impl(self, case):
        if case.op == 'const_true' and case.arg[0] == 'acc':
            try:
                import petl as etl
                from collections import Counter
                f, want = ACCESSORS[case.arg[1]]
                got = f(etl, [['k', 'a', 'v']])
                ok = (got == want)
                if not ok:
                    case.meta['why'] = '%s on a header-only table gives %r, expected %r' % (case.arg[1], got, want)
                return codec.t_bool(ok)
            except Exception as e:   # noqa
                case.meta['why'] = '%s on a header-only table raised %s: %s' % (case.arg[1], type(e).__name__, e)
                return codec.t_bool(False)
        if case.op == 'const_true':
            _, name, pos, seed = case.arg
            ok, why = self._c20(name, pos, seed)
            if not ok:
                case.meta['why'] = why
            return codec.t_bool(ok)
        if case.op == 'sort':
            import petl as etl
            bs, rev, key, t = case.arg
            return obs_rows(etl.sort([list(r) for r in t], key=key, reverse=rev, buffersize=bs))
        if case.op == 'dedup':
            return C10().impl(case)
        if case.op == 'setop':
            return C08().impl(case)
        if case.op == 'reduce':
            return C09().impl(case)
        if case.op == 'join':
            kn, key, lkey, rkey, pre, missing, lp, rp, bs, l, r = case.arg
            try:
                return obs_rows(call_join(kn, key, lkey, rkey, pre, missing, lp, rp, bs, l, r))
            except Exception as e:   # noqa
                return obs_exc(e)
        if case.op == 'hashjoin':
            kn, key, lkey, rkey, missing, lp, rp, l, r = case.arg
            try:
                import petl as etl
                a, b = [list(x) for x in l], [list(x) for x in r]
                fn = getattr(etl, 'hash' + kn)
                if kn == 'antijoin':
                    v = fn(a, b, key=key)
                elif kn == 'join':
                    v = fn(a, b, key=key)
                else:
                    v = fn(a, b, key=key, missing=missing)
                return obs_rows(v)
            except Exception as e:   # noqa
                return obs_exc(e)
        raise ValueError(case.op)

    def observe(self, case, obs):
        from .c09 import canon_conflicts
        return canon_conflicts(obs)

    def spec(self, case, impl_obs, model_obs):
        if case.op == 'const_true':
            return impl_obs == codec.t_bool(True)
        # modelled operators: inside the domain nothing may raise on header-only inputs
        return impl_obs[0] == 'li'

    def valid(self, case):
        if case.op == 'const_true':
            try:
                names = {e['name']: e for e in catalogue.entries()}
                if case.arg[0] == 'acc':
                    return case.arg[1] in ACCESSORS
                _, name, pos, seed = case.arg
                return name in names and len(pos) >= 1 and all(0 <= p < names[name]['nsrc'] for p in pos) \
                    and len(set(pos)) == len(pos)
            except Exception:
                return False
        return True

    def nontrivial(self, case):
        return True


PROP = C20
