"""C11 — execution-strategy arguments never change results."""
import tempfile

from .. import codec, gen, zoo
from ..core import Prop, Case, obs_rows, obs_exc


class CountingTable(object):
    """A source table (list of rows, mutable) that counts the rows it delivers."""

    def __init__(self, rows):
        self.rows = [list(r) for r in rows]
        self.pulls = 0
        self.data_pulls = 0     # header reads are not counted here

    def __iter__(self):
        first = True
        for r in self.rows:
            self.pulls += 1
            if not first:
                self.data_pulls += 1
            first = False
            yield tuple(r)


class Plain(object):
    """A view whose Conflict cells (frozensets) are rendered as sorted tuples; iterable any number of times."""
    def __init__(self, view):
        self.view = view

    def __iter__(self):
        for r in self.view:
            yield tuple(('!conflict',) + tuple(sorted(x, key=repr)) if isinstance(x, frozenset) else x for x in r)


def _md_marker(etl, ts, key, kw):
    # the marker is ONE object, shared by the cells that hold it: identical in memory, equal-but-not-identical once a row has
    # been through a chunk file
    m = ''.join(['n/', 'a'])
    return Plain(etl.mergeduplicates(etl.convert(ts[0], 'a', lambda v: m if v is None else v), key, missing=m, **kw))


def _outs(view):
    """One full pass, in the encoding of Dispatch.enc_out."""
    outs = []
    try:
        for r in view:
            outs.append(('tu', (codec.t_str('r'), ('tu', tuple(codec.canon(x) for x in r)))))
        outs.append(('tu', (codec.t_str('s'),)))
    except Exception as e:   # noqa
        outs.append(('tu', (codec.t_str('e'), obs_exc(e))))
    return ('li', tuple(outs))


# operators exercised by the strategy matrix: name -> (number of tables, builder(tables, key, strategy kwargs))
def _ops():
    import petl as etl
    fn = zoo.AGG

    def two(f):
        return lambda ts, key, kw: f(ts[0], ts[1], **kw)

    def keyed2(f):
        return lambda ts, key, kw: f(ts[0], ts[1], key=key, **kw)

    ops = {
        'sort': (1, lambda ts, key, kw: etl.sort(ts[0], key, **{k: v for k, v in kw.items() if k != 'presorted'})),
        'mergesort': (2, lambda ts, key, kw: etl.mergesort(ts[0], ts[1], key=key, **kw)),
        'merge': (2, lambda ts, key, kw: Plain(etl.merge(ts[0], ts[1], key=key, **kw))),
        'merge_reverse': (2, lambda ts, key, kw: Plain(etl.merge(ts[0], ts[1], key=key, reverse=True,
                                                                 **{k: v for k, v in kw.items() if k != 'presorted'}))),
        'mergeduplicates': (1, lambda ts, key, kw: Plain(etl.mergeduplicates(ts[0], key, **kw))),
        # a missing marker that is an ordinary (not interned, not singleton) object: rows read back from chunk files carry
        # copies of it
        'mergeduplicates_marker': (1, lambda ts, key, kw: _md_marker(etl, ts, key, kw)),
        'duplicates': (1, lambda ts, key, kw: etl.duplicates(ts[0], key, **kw)),
        'unique': (1, lambda ts, key, kw: etl.unique(ts[0], key, **kw)),
        'distinct': (1, lambda ts, key, kw: etl.distinct(ts[0], key, **kw)),
        'distinct_count': (1, lambda ts, key, kw: etl.distinct(ts[0], key, count='n', **kw)),
        'conflicts': (1, lambda ts, key, kw: etl.conflicts(ts[0], key, **kw)),
        'complement': (2, two(etl.complement)),
        'intersection': (2, two(etl.intersection)),
        'recordcomplement': (2, lambda ts, key, kw: etl.recordcomplement(
            ts[0], ts[1], **{k: v for k, v in kw.items() if k != 'presorted'})),
        'diff_added': (2, lambda ts, key, kw: etl.diff(ts[0], ts[1], **kw)[0]),
        'diff_subtracted': (2, lambda ts, key, kw: etl.diff(ts[0], ts[1], **kw)[1]),
        'join': (2, keyed2(etl.join)),
        'leftjoin': (2, keyed2(etl.leftjoin)),
        'rightjoin': (2, keyed2(etl.rightjoin)),
        'outerjoin': (2, keyed2(etl.outerjoin)),
        'antijoin': (2, keyed2(etl.antijoin)),
        'lookupjoin': (2, keyed2(etl.lookupjoin)),
        'aggregate_len': (1, lambda ts, key, kw: etl.aggregate(ts[0], key, len, **kw)),
        'aggregate_multi': (1, lambda ts, key, kw: etl.aggregate(ts[0], key, [('n', len), ('l', 'v', list)], **kw)),
        'rowreduce': (1, lambda ts, key, kw: etl.rowreduce(ts[0], key, zoo.REDUCER[0], header=['k', 'n'], **kw)),
        'groupselectfirst': (1, lambda ts, key, kw: etl.groupselectfirst(ts[0], key, **kw)),
        'groupselectlast': (1, lambda ts, key, kw: etl.groupselectlast(ts[0], key, **kw)),
        'groupselectmin': (1, lambda ts, key, kw: etl.groupselectmin(ts[0], key, 'v', **kw)),
        'groupselectmax': (1, lambda ts, key, kw: etl.groupselectmax(ts[0], key, 'v', **kw)),
        'fold': (1, lambda ts, key, kw: etl.fold(ts[0], key, zoo.FOLD2[1], **kw)),
        'rowgroupmap': (1, lambda ts, key, kw: etl.rowgroupmap(ts[0], key, lambda k, rows: [[k, len(list(rows))]],
                                                               header=['k', 'n'], **kw)),
        'pivot': (1, lambda ts, key, kw: etl.pivot(ts[0], 'k', 'a', 'v', list, **kw)),
        'unjoin_left': (1, lambda ts, key, kw: etl.unjoin(ts[0], 'v', key='k', **kw)[0]),
        'unjoin_right': (1, lambda ts, key, kw: etl.unjoin(ts[0], 'v', key='k', **kw)[1]),
    }
    return ops


KEYLESS = ('complement', 'intersection', 'recordcomplement', 'diff_added', 'diff_subtracted', 'pivot', 'unjoin_left',
           'unjoin_right')
NO_PRESORTED = ('sort', 'recordcomplement', 'pivot', 'mergesort', 'merge_reverse')


class C11(Prop):
    pid = 'C11'
    props_files = ['props/C11.v']
    gen_items = ['ComparableGen', 'AsIndicesGen', 'Forwarding']
    rule = ('sort-backed operators (32 call forms) x rectangular tables with duplicate / None / mixed keys x strategy = '
            '(buffersize in 1..n+1/None, cache, tempdir, petl.config.sort_buffersize, presorted on pre-sorted inputs): the '
            'full output sequence must equal the default call; cache clause: histories of (edit source, full pass) on '
            'sort() compared with the SortView machine (rows and pull counts), and a two-pass edit test on every operator; '
            'non-trivial = at least 2 data rows')
    trusted = [
        'Coq 8.16.1 kernel; no axioms',
        'translator/facts.py (Forwarding.v: keyword arguments at call sites; fail-closed on **kwargs)',
        'model/Machines.v SortView machine (as repaired) tied by the sv_history correspondence; operator models of C05-C10',
        'extraction + OCaml driver; harness/codec.py',
    ]
    assumptions = ['buffersize >= 1; inputs given to presorted=True are sorted by the key',
                   'tempdir only relocates chunk files (not modelled; compared dynamically)']

    def _tables(self, rng, ntab):
        alpha = gen.key_alphabet(rng)[:rng.choice([2, 3, 4])]
        hdr = ('k', 'a', 'v')
        out = []
        for _ in range(ntab):
            n = rng.choice([0, 1, 2, 3, 5, 7])
            out.append((hdr,) + tuple((rng.choice(alpha), rng.choice(['x', 'y', None]), rng.choice([1, 2, 3]))
                                      for _ in range(n)))
        return tuple(out)

    def _directed(self):
        hdr = ('k', 'a', 'v')
        t = (hdr, ('b', 'x', 1), ('a', 'y', 2), ('b', None, 3), (None, 'x', 1), ('a', 'x', 3), ('c', 'y', 2), ('b', 'y', 1))
        # the cache clause in both directions: chunked and in-memory sorts, three passes each
        for key in ('k', None, ('k', 'v')):
            for rev in (False, True):
                for bs in (1, 2, 3, None):
                    for cache in (True, False):
                        yield Case('sv_history', (key, rev, bs, cache, t, ((1,), (1,), (1,))))
        # whole-row sorts (key=None) of ragged tables: rows that differ only beyond / before the header's width
        rag = (hdr, ('b', 'x', 1, 'extra'), ('b', 'x', 1), ('a',), ('a', None, None), ('b', 'x'), ('a', None), ('b', 'x', None),
               ('a', None, None, 0))
        for st in ((1, True, False, False, None), (2, True, False, False, None), (3, False, False, False, None),
                   (None, True, False, False, 2), (8, True, False, False, None), (9, True, False, False, None)):
            yield Case('const_true', ('strategy', 'sort', (rag,), None, st))
            yield Case('const_true', ('strategy', 'sort', ((hdr,) + rag[:0:-1],), None, st))
            yield Case('const_true', ('strategy', 'distinct', (rag,), None, st))
            yield Case('const_true', ('strategy', 'duplicates', ((hdr,) + rag[:0:-1],), None, st))
        # unjoin on a table sorted by the key whose duplicate rows are not adjacent
        uj = (hdr, ('a', 'x', 1), ('a', 'y', 2), ('a', 'x', 1), ('b', 'x', 3), ('b', 'y', 3), ('b', 'x', 3))
        for nm in ('unjoin_left', 'unjoin_right'):
            for st in ((None, True, False, True, None), (2, True, False, False, None), (None, False, False, True, None)):
                yield Case('const_true', ('strategy', nm, (uj,), None, st))
        # set operations on overlapping tables, every strategy incl. presorted
        a = (hdr, ('a', 'x', 1), ('b', 'y', 2), ('a', 'x', 1), ('c', None, 3), ('b', 'y', 2))
        b = (hdr, ('b', 'y', 2), ('d', 'x', 1), ('a', 'x', 1), ('c', None, 3))
        for name in ('complement', 'intersection', 'diff_added', 'diff_subtracted', 'recordcomplement'):
            for tabs in ((a, b), (b, a)):
                for st in ((1, True, False, False, None), (2, False, True, False, None), (None, True, False, False, 2),
                           (None, True, False, True, None), (3, True, False, False, None)):
                    if st[3] and name in NO_PRESORTED:
                        continue
                    yield Case('const_true', ('strategy', name, tabs, None, st))

    def cases(self, rng, tier):
        ops = _ops()
        names = sorted(ops)
        n = 12 if tier == 'quick' else 120
        for c in self._directed():
            yield c
        for _ in range(n):
            for name in names:
                ntab = ops[name][0]
                ts = self._tables(rng, ntab)
                if name in ('join', 'leftjoin', 'rightjoin', 'outerjoin', 'antijoin', 'lookupjoin') and rng.random() < 0.4:
                    # ragged rows (the key cell is always there): the operators square their inputs up, whatever the strategy
                    ts = tuple((t[0],) + tuple(r[:rng.choice([1, 2])] if rng.random() < 0.3 else
                                               (r + ('extra',) if rng.random() < 0.2 else r) for r in t[1:]) for t in ts)
                nmax = max(len(t) for t in ts)
                key = None if name in KEYLESS else rng.choice(['k', 'k', ('k', 'a')])
                if name in ('join', 'leftjoin', 'rightjoin', 'outerjoin', 'antijoin', 'lookupjoin', 'mergesort', 'merge',
                            'merge_reverse'):
                    key = 'k'
                strategies = []
                for bs in rng.sample(range(1, nmax + 2), min(3, nmax + 1)):
                    strategies.append((bs, True, False, False, None))
                strategies.append((None, False, False, False, None))
                strategies.append((2, False, True, False, None))
                strategies.append((None, True, False, False, rng.choice([1, 2, 3])))
                strategies.append((None, rng.random() < 0.7, False, False, -rng.choice([1, 2, 3])))
                if name not in NO_PRESORTED:
                    strategies.append((None, True, False, True, None))
                for st in strategies:
                    yield Case('const_true', ('strategy', name, ts, key, st))
            # cache clause on sort(): histories against the machine
            t = self._tables(rng, 1)[0]
            hops = []
            for _h in range(rng.choice([2, 3, 4])):
                if rng.random() < 0.4:
                    hops.append((0, self._tables(rng, 1)[0]))
                hops.append((1,))
            yield Case('sv_history', (rng.choice(['k', None, ('k', 'v')]), rng.random() < 0.3,
                                      rng.choice([None, 1, 2, 3]), rng.random() < 0.5, t, tuple(hops)))
            # cache clause on every operator: two passes with an edit in between
            for name in names:
                ts = self._tables(rng, ops[name][0])
                ts2 = self._tables(rng, ops[name][0])
                key = None if name in KEYLESS else 'k'
                yield Case('const_true', ('cache_clause', name, ts, ts2, key, rng.random() < 0.5, rng.choice([None, 2])))

    # ---- implementation side -----------------------------------------------------------------------------------
    def _run(self, name, ts, key, strategy, sources=None, flip=None):
        import petl as etl
        import petl.config as config
        ops = _ops()
        bs, cache, use_tempdir, presorted, config_bs = strategy
        srcs = sources if sources is not None else [[list(r) for r in t] for t in ts]
        if presorted:
            # presorted=True is only meaningful on inputs sorted by the key the operator sorts by
            skey = 'k' if name.startswith('unjoin') else key      # unjoin(key='k'): sorted by the key only
            # (rows of the even sources are handed over as lists, those of the odd ones as tuples)
            if flip is None:
                flip = len(srcs[0]) % 2
            srcs = [[list(r) if (i + flip) % 2 == 0 else tuple(r) for r in etl.sort(s, skey)] for i, s in enumerate(srcs)]
        old = config.sort_buffersize
        td = tempfile.TemporaryDirectory(dir='/var/tmp') if use_tempdir else None
        try:
            if config_bs is not None:
                config.sort_buffersize = config_bs
            kw = dict(buffersize=bs, cache=cache, presorted=presorted)
            if td is not None:
                kw['tempdir'] = td.name
            if name == 'mergesort':
                kw.pop('cache')
                kw['cache'] = cache
            v = ops[name][1](srcs, key, kw)
            return v, td
        finally:
            config.sort_buffersize = old

    def impl(self, case):
        if case.op == 'sv_history':
            return self._impl_history(case)
        kind = case.arg[0]
        try:
            if kind == 'strategy':
                _, name, ts, key, st = case.arg
                base, _ = self._run(name, ts, key, (None, True, False, False, None))
                b = obs_rows(base)
                ok = True
                import petl.config as config
                old_cfg = config.sort_buffersize
                if st[4] is not None and st[4] < 0:
                    # a negative value: the global default stays in force while the table is iterated, too
                    config.sort_buffersize = -st[4]
                    st = st[:4] + (None,)
                try:
                    # presorted inputs are handed over both ways round (lists first / tuples first)
                    for flip in ((0, 1) if st[3] else (None,)):
                        v, td = self._run(name, ts, key, st, flip=flip)
                        try:
                            o1 = obs_rows(v)
                            o2 = obs_rows(v)
                        finally:
                            del v
                            if td is not None:
                                td.cleanup()
                        ok = ok and o1 == b and o2 == b
                finally:
                    config.sort_buffersize = old_cfg
                return codec.t_bool(ok)
            if kind == 'cache_clause':
                _, name, ts, ts2, key, cache, bs = case.arg
                srcs = [CountingTable(t) for t in ts]
                v, _ = self._run(name, ts, key, (bs, cache, False, False, None), sources=srcs)
                p1 = obs_rows(v)
                pulls1 = sum(s.data_pulls for s in srcs)
                for s, t2 in zip(srcs, ts2):
                    s.rows = [list(r) for r in t2]
                    if cache and all(len(t) > 1 for t in ts):
                        # a cached view serves its own header, too: the edited source gets other field names
                        # (only when every input had data rows: a sort of zero rows has nothing to cache)
                        s.rows[0] = ['K', 'A', 'V']
                p2 = obs_rows(v)
                pulls2 = sum(s.data_pulls for s in srcs) - pulls1
                if p1[0] != 'li':
                    return codec.t_bool(True)      # an erroring first pass caches nothing; nothing to compare
                if cache:
                    ok = (p2 == p1) and pulls2 == 0
                else:
                    fresh, _ = self._run(name, ts2, key, (bs, cache, False, False, None))
                    ok = (p2 == obs_rows(fresh))
                return codec.t_bool(ok)
        except Exception as e:   # noqa
            return obs_exc(e)
        raise ValueError(kind)

    def _impl_history(self, case):
        import petl as etl
        key, rev, bs, cache, t, hops = case.arg
        src = CountingTable(t)
        with tempfile.TemporaryDirectory(dir='/var/tmp') as td:
            v = etl.sort(src, key, reverse=rev, buffersize=bs, cache=cache, tempdir=td)
            res = []
            ok = True
            frozen = None     # what a cached view keeps serving: the source as it was at the first full pass
            for h in hops:
                if h[0] == 0:
                    src.rows = [list(r) for r in h[1]]
                else:
                    before = src.pulls
                    outs = _outs(v)
                    res.append(('tu', (outs, codec.t_int(src.pulls - before))))
                    # the property itself: a pass equals the default-strategy sort of the table it stands for
                    if cache and frozen is None:
                        frozen = [list(r) for r in src.rows]
                    want = _outs(etl.sort(frozen if cache else [list(r) for r in src.rows], key, reverse=rev))
                    ok = ok and outs == want
            del v
        self._hist_ok = getattr(self, '_hist_ok', {})
        if len(self._hist_ok) > 50000:
            self._hist_ok.clear()
        self._hist_ok[case.key()] = ok
        return ('li', tuple(res))

    def valid(self, case):
        try:
            if case.op == 'sv_history':
                tabs = [case.arg[4]] + [h[1] for h in case.arg[5] if h[0] == 0]
            elif case.arg[0] == 'strategy':
                tabs = list(case.arg[2])
                if len(tabs) != _ops()[case.arg[1]][0]:
                    return False
            else:
                tabs = list(case.arg[2]) + list(case.arg[3])
                if len(case.arg[2]) != _ops()[case.arg[1]][0] or len(case.arg[3]) != len(case.arg[2]):
                    return False
            ragged_ok = case.op == 'const_true' and case.arg[0] == 'strategy' and case.arg[3] is None \
                and case.arg[1] in ('sort', 'distinct', 'duplicates')
            for t in tabs:
                if len(t) < 1 or tuple(t[0]) != ('k', 'a', 'v'):
                    return False
                if not all(len(r) == 3 or (ragged_ok and 1 <= len(r) <= 4) for r in t[1:]):
                    return False
            return True
        except Exception:
            return False

    def spec(self, case, impl_obs, model_obs):
        if case.op == 'const_true':
            return impl_obs == codec.t_bool(True)
        if case.op == 'sv_history':
            return getattr(self, '_hist_ok', {}).get(case.key())
        return None

    def nontrivial(self, case):
        if case.op == 'sv_history':
            return len(case.arg[4]) >= 3
        return max(len(t) for t in case.arg[2]) >= 3

    def finding_id(self, case, impl_obs, model_obs):
        return None


PROP = C11
