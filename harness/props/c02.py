"""C02 — pipelines are lazy: nothing is read until rows are requested, and then only O(k)."""
import io
import json
import os
import pickle
import random
import tempfile

from .. import codec, catalogue
from ..core import Prop, Case, obs_exc

SMALL, BIG = 100, 10000
VIS_FORMS = ('look', 'lookall_head', 'repr', 'head', 'islice', 'str_look_pipe', 'see', 'see_pipe', 'slice', 'slice_step',
             'values_slice_step', 'records_slice_step', 'item')
EXTRACT_FORMS = ('csv', 'tsv', 'pickle', 'text', 'jsonl', 'csv:header', 'csv:pipe', 'text:nostrip', 'text:strip', 'text:header')
KS = (1, 2, 3, 4, 6)


class CountingTable(object):
    """A source container that counts the rows its iterators deliver (header included)."""
    def __init__(self, rows):
        self.rows = rows
        self.pulls = 0
        self.data_pulls = 0
        self.iters = 0

    def __iter__(self):
        self.iters += 1
        first = True
        for r in self.rows:
            self.pulls += 1
            if not first:
                self.data_pulls += 1
            first = False
            yield tuple(r)


class CountingFile(io.BytesIO):
    def __init__(self, data, counter):
        super().__init__(data)
        self._counter = counter

    def read(self, *a):
        b = super().read(*a)
        self._counter[0] += len(b)
        return b

    def read1(self, *a):
        b = super().read1(*a)
        self._counter[0] += len(b)
        return b

    def readinto(self, buf):
        n = super().readinto(buf)
        self._counter[0] += n or 0
        return n

    def readline(self, *a):
        b = super().readline(*a)
        self._counter[0] += len(b)
        return b


class CountingSource(object):
    def __init__(self, data):
        self.data = data
        self.count = [0]

    def open(self, mode='rb'):
        import contextlib

        @contextlib.contextmanager
        def cm():
            f = CountingFile(self.data, self.count)
            try:
                yield f
            finally:
                pass
        return cm()


class _DictIter(object):
    """a re-iterable container of dicts drawn lazily from a counting table"""
    def __init__(self, ct):
        self.ct = ct

    def __iter__(self):
        it = iter(self.ct)
        hdr = next(it)
        for r in it:
            yield dict(zip(hdr, r))


def big_rows(seed, nsrc, n):
    """n data rows per source; the first rows are the same for every n (one PRNG stream per source)."""
    out = []
    for i in range(nsrc):
        rng = random.Random(seed * 31 + i)
        alpha = [None, 0, 1, 2, 'b', 'c']
        rows = [['k', 'a', 'v']]
        for _ in range(n):
            rows.append([rng.choice(alpha), rng.choice(['x', 'y', 'xy']), rng.choice([1, 2, 3])])
        out.append(rows)
    return out


def gen_name(it):
    code = getattr(it, 'gi_code', None)
    if code is None:
        return None
    fn = code.co_filename
    i = fn.rfind('/petl/')
    if i < 0:
        return None
    mod = fn[i + 1:-3].replace('/', '.')
    return mod + '.' + getattr(code, 'co_qualname', code.co_name)


class C02(Prop):
    pid = 'C02'
    props_files = ['props/C02.v']
    gen_items = ['StreamGen']
    rule = ('every operator of the catalogue on row-counting sources: rows pulled at construction (data rows: none); rows '
            'pulled when the k-th output row is delivered, k in 1,2,3,4,6, for a 100-row and a 10 000-row source sharing '
            'their first 100 rows (must be equal whenever the 100-row run did not reach the end of its source) and against '
            'the bound (k-1)+slack computed in Coq from the regenerated skeleton of the generator that ran; hash joins: probe '
            'side only; random 2- and 3-stage compositions of single-source streaming operators; extractors (fromcsv, fromtsv, '
            'frompickle, fromtext, fromjson lines) by bytes read from a counting source; look / lookall / head / repr on a long '
            'pipeline; non-trivial = streaming class')
    trusted = [
        'Coq 8.16.1 kernel; no axioms',
        'translator/streaming.py: taint analysis + skeleton extraction (fail-safe: an unknown callee given the source counts as '
        'eager); that the skeleton over-approximates what CPython does with the generator is validated here, not proved',
        'spec/GenSem.v trace semantics of skeletons',
        'the operator catalogue (harness/catalogue.py; completeness checked against the package exports) and its flags',
        'extraction + OCaml driver; harness/codec.py',
    ]
    assumptions = ['operators documented to materialise (sort-backed operators, tail, the build side of hash joins, facets, '
                   'lookups, the sampling pass of header discovery) are outside the streaming class',
                   'for selections / slices the number of pulls depends on where the k-th matching row is, not on the length']

    # ---- cases ----------------------------------------------------------------------------------------------------------
    def cases(self, rng, tier):
        ents = catalogue.entries()
        reps = 1 if tier == 'quick' else 4
        for e in ents:
            for _ in range(reps):
                yield Case('lazy', ('op', e['name'], rng.randrange(1 << 20)))
        singles = [e['name'] for e in ents if 'stream' in e['flags'] and e['nsrc'] == 1 and 'noh' not in e['flags']
                   and e['prep'] is None and e['pick'] is None]
        for _ in range(20 if tier == 'quick' else 300):
            stages = tuple(rng.choice(singles) for _ in range(rng.choice([2, 3])))
            yield Case('lazy', ('pipe', stages, rng.randrange(1 << 20)))
        for fmt in EXTRACT_FORMS:
            for _ in range(reps):
                yield Case('lazy', ('extract', fmt, rng.randrange(1 << 20)))
        for nm in ('unpackdict', 'fromdicts', 'fromdicts:generator'):
            yield Case('lazy', ('sample', nm, rng.randrange(1 << 20)))
        for what in VIS_FORMS:
            yield Case('lazy', ('vis', what, rng.randrange(1 << 20)))

    def expand(self, case):
        if case.op == 'lazy':
            return Case('const_true', case.arg, dict(case.meta, orig='lazy'))
        return case

    # ---- measurements ---------------------------------------------------------------------------------------------------
    # construction is not judged for these entries
    CTOR_EXEMPT = {
        'facet': 'returns a dict of views keyed by the values found: scanning the field is its documented job',
        'stringpatterns': 'reporting function computed eagerly by design (returns a materialised table)',
        'rowlengths': 'reporting function computed eagerly by design (returns a materialised table)',
        'fromcolumns': 'the catalogue entry materialises the columns it feeds in',
        'fromdicts': 'the catalogue entry materialises the dicts it feeds in',
        'fromdicts:generator': 'the catalogue entry materialises the dicts it feeds in',
        'frompickle:mem': 'the catalogue entry serialises its input into a MemorySource first',
        'fromcsv:mem': 'the catalogue entry serialises its input into a MemorySource first',
        'fromtext:mem': 'the catalogue entry serialises its input into a MemorySource first',
        'fromjson:mem': 'the catalogue entry serialises its input into a MemorySource first',
    }

    def _build_op(self, name, seed, n):
        e = [x for x in catalogue.entries() if x['name'] == name][0]
        srcs = big_rows(seed, e['nsrc'], n)
        if 'build' in e['flags'] and e['nsrc'] == 2:
            # the build side of a hash operator is materialised by design: keep it the same, vary the probe side only
            b = 0 if 'buildleft' in e['flags'] else 1
            srcs[b] = big_rows(seed, e['nsrc'], SMALL)[b]
        if e['prep'] is not None:
            srcs = [e['prep'](t) for t in srcs]
        cts = [CountingTable(t) for t in srcs]
        before = [c.data_pulls for c in cts]
        given = cts
        if seed % 2 == 1:
            import petl as etl
            given = [etl.wrap(c) for c in cts]     # petl views as inputs: bool() / len() of a view scans it
        v = e['make'](given)
        if e['pick'] is not None:
            v = e['pick'](v)
        ctor = sum(c.data_pulls for c in cts) - sum(before)
        return e, cts, v, ctor

    def _measure(self, build, n, probe_only=None):
        """-> (ctor data pulls, {k: pulls when the k-th row arrived}, generator name, total rows available)"""
        cts, v, ctor = build(n)
        res = {}
        name = None
        if v is None:
            return ctor, res, None, 0, cts
        it = iter(v)
        name = gen_name(it)
        got = 0
        try:
            for k in range(1, max(KS) + 1):
                next(it)
                got = k
                if k in KS:
                    sel = cts if probe_only is None else [cts[i] for i in probe_only]
                    res[k] = sum(c.pulls for c in sel)
        except StopIteration:
            pass
        except Exception:   # the standard sources may not suit the operator; laziness of what was delivered still counts
            pass
        return ctor, res, name, got, cts

    def _check_op(self, name, seed):
        e = [x for x in catalogue.entries() if x['name'] == name][0]
        flags = e['flags']
        probe = None
        if 'build' in flags and e['nsrc'] == 2:
            probe = [1] if 'buildleft' in flags else [0]

        def build(n):
            _e, cts, v, ctor = self._build_op(name, seed, n)
            return cts, v, ctor
        c1, r1, g1, got1, cts1 = self._measure(build, SMALL, probe)
        c2, r2, g2, got2, cts2 = self._measure(build, BIG, probe)
        notes = []
        ok = True
        if (c1 != 0 or c2 != 0) and name not in self.CTOR_EXEMPT:
            ok = False
            notes.append('construction pulled %d / %d data rows' % (c1, c2))
        judged = []
        if 'stream' in flags:
            for k in KS:
                if k in r1 and k in r2:
                    avail = sum(len(c.rows) for c in (cts1 if probe is None else [cts1[i] for i in probe]))
                    # (presorted entries get unsorted inputs: how far a merge runs ahead on one side then depends on where the
                    #  other side ends, so only the absolute bound below is applied to them)
                    if r1[k] < avail and r1[k] != r2[k] and 'presorted' not in flags:
                        ok = False
                        notes.append('k=%d: %d rows pulled from 100-row sources, %d from 10000-row sources' % (k, r1[k], r2[k]))
                    if 'presorted' in flags and r2[k] > 60 * k + 100:
                        # a streaming merge / run detector may skip rows, but reading a large part of 10000-row sources for
                        # the first rows means something is being sorted or materialised
                        ok = False
                        notes.append('k=%d: %d rows pulled by a presorted operator' % (k, r2[k]))
                    if 'drop' not in flags and 'build' not in flags and r2[k] > k + 2 + 2 * e['nsrc']:
                        ok = False
                        notes.append('k=%d: %d rows pulled (more than k + small constant)' % (k, r2[k]))
                    # ('nojudge': a second source enters through an argument the generator's skeleton does not track)
                    if g2 is not None and probe is None and 'nojudge' not in flags:
                        judged.append((g2, k, r2[k]))
                elif k in r1 and k not in r2:
                    ok = False
                    notes.append('k=%d delivered from the short source only' % k)
        return ok, notes, judged

    def _check_pipe(self, stages, seed):
        ents = {x['name']: x for x in catalogue.entries()}

        def build(n):
            src = CountingTable(big_rows(seed, 1, n)[0])
            v = src
            for nm in stages:
                v = ents[nm]['make']([v])
            return [src], v, src.data_pulls
        c1, r1, _g, _got, cts1 = self._measure(build, SMALL)
        c2, r2, _g2, _got2, _ = self._measure(build, BIG)
        ok, notes = True, []
        # (a stage that reads its input's header at construction - convertall, formatall ... - reads one source DATA row when a
        #  skip() stage before it has turned that row into the header: a constant, not a scan)
        shifted = sum(1 for nm in stages if nm == 'skip')
        if c1 != c2 or c1 > shifted:
            ok = False
            notes.append('construction pulled data rows')
        drops = any('drop' in ents[nm]['flags'] for nm in stages)
        for k in KS:
            if k in r1 and k in r2:
                if r1[k] < len(cts1[0].rows) and r1[k] != r2[k]:
                    ok = False
                    notes.append('k=%d: %d vs %d' % (k, r1[k], r2[k]))
                if not drops and r2[k] > k + 3 * len(stages) + 2:
                    ok = False
                    notes.append('k=%d: %d rows pulled through %d stages' % (k, r2[k], len(stages)))
        return ok, notes, []

    def _check_extract(self, fmt, seed):
        import petl as etl
        rng = random.Random(seed)
        rows = [('foo', 'bar')] + [(rng.choice(['a', 'bb', 'ccc']), str(rng.randrange(1000))) for _ in range(20000)]
        if fmt in ('csv', 'tsv', 'csv:header', 'csv:pipe'):
            sep = {'csv': ',', 'tsv': '\t', 'csv:header': ',', 'csv:pipe': '|'}[fmt]
            data = ''.join(sep.join(r) + '\r\n' for r in rows).encode('utf-8')
            mk = {'csv': lambda s: etl.fromcsv(s, encoding='utf-8'),
                  'tsv': lambda s: etl.fromtsv(s, encoding='utf-8'),
                  'csv:header': lambda s: etl.fromcsv(s, encoding='utf-8', header=['x', 'y']),
                  'csv:pipe': lambda s: etl.fromcsv(s, encoding='utf-8', delimiter='|')}[fmt]
        elif fmt == 'pickle':
            data = b''.join(pickle.dumps(r, protocol=2) for r in rows)
            mk = lambda s: etl.frompickle(s)   # noqa
        elif fmt.startswith('text'):
            data = ''.join(' '.join(r) + '\n' for r in rows).encode('utf-8')
            mk = {'text': lambda s: etl.fromtext(s, encoding='utf-8'),
                  'text:nostrip': lambda s: etl.fromtext(s, encoding='utf-8', strip=False),
                  'text:strip': lambda s: etl.fromtext(s, encoding='utf-8', strip='a\n'),
                  'text:header': lambda s: etl.fromtext(s, encoding='utf-8', header=['line'])}[fmt]
        else:
            data = ''.join(json.dumps({'foo': r[0], 'bar': r[1]}) + '\n' for r in rows[1:]).encode('utf-8')
            mk = lambda s: etl.fromjson(s, lines=True)   # noqa
        src = CountingSource(data)
        v = mk(src)
        ok, notes = True, []
        if src.count[0] != 0:
            ok = False
            notes.append('construction read %d bytes' % src.count[0])
        it = iter(v)
        for _ in range(6):
            next(it)
        if src.count[0] > 65536 or src.count[0] > len(data) // 3:
            ok = False
            notes.append('%d of %d bytes read for 6 rows' % (src.count[0], len(data)))
        return ok, notes, []

    def _check_vis(self, what, seed):
        import itertools
        import petl as etl
        src = CountingTable(big_rows(seed, 1, BIG)[0])
        pipe = etl.convert(etl.addfield(etl.cut(src, 'k', 'v'), 'w', lambda r: r['v']), 'v', lambda v: v)
        lim = 5
        if what == 'look':
            str(etl.look(pipe))
        elif what == 'lookall_head':
            str(etl.lookall(etl.head(pipe, 7)))
            lim = 8
        elif what == 'repr':
            repr(pipe)
            str(pipe)
            lim = 2 * (etl.config.look_limit + 1)
        elif what == 'head':
            list(etl.head(pipe, 5))
        elif what == 'islice':
            list(itertools.islice(pipe, 5))
        elif what == 'slice':
            list(pipe[1:6])
            lim = 7
        elif what == 'slice_step':
            list(pipe[1:8:2])
            lim = 9
        elif what == 'values_slice_step':
            list(etl.values(pipe, 'k')[0:9:3])
            lim = 10
        elif what == 'records_slice_step':
            list(etl.records(pipe)[2:7:2])
            lim = 8
        elif what == 'item':
            pipe[3]
            etl.values(pipe, 'v')[2]
            lim = 8
        elif what == 'see':
            str(etl.see(src))
        elif what == 'see_pipe':
            repr(etl.see(pipe, limit=4))
        else:
            etl.look(pipe, limit=3).__repr__()
            lim = 3
        ok = src.pulls <= 2 * lim + 6
        return ok, ([] if ok else ['%s pulled %d rows of %d' % (what, src.pulls, BIG)]), []

    def _check_sample(self, name, seed):
        """operators with a documented sampling pass (default sample 1000): the pulls for the first rows are the sample
        plus a constant, whatever the length of the source"""
        import petl as etl
        res = []
        for n in (3000, 9000):
            rows = big_rows(seed, 1, n)[0]
            if name == 'unpackdict':
                ct = CountingTable(catalogue.prep_dict_uneven(rows))
                v = etl.unpackdict(ct, 'v')
            elif name == 'fromdicts':
                ct = CountingTable(rows)
                v = etl.fromdicts(_DictIter(ct))
            else:
                ct = CountingTable(rows)
                v = etl.fromdicts(d for d in _DictIter(ct))
            ctor = ct.data_pulls
            it = iter(v)
            for _ in range(4):
                next(it)
            res.append((ctor, ct.pulls))
        ok = res[0] == res[1] and res[0][0] == 0 and res[1][1] <= 1000 + 12
        return ok, ([] if ok else ['%s: (construction, pulls for 4 rows) = %s for 3000 rows, %s for 9000 rows' % (name, res[0], res[1])]), []

    def impl(self, case):
        try:
            kind = case.arg[0]
            if kind == 'sample':
                ok, notes, judged = self._check_sample(case.arg[1], case.arg[2])
            elif kind == 'op':
                ok, notes, judged = self._check_op(case.arg[1], case.arg[2])
            elif kind == 'pipe':
                ok, notes, judged = self._check_pipe(case.arg[1], case.arg[2])
            elif kind == 'extract':
                ok, notes, judged = self._check_extract(case.arg[1], case.arg[2])
            else:
                ok, notes, judged = self._check_vis(case.arg[1], case.arg[2])
        except Exception as e:   # noqa
            self._store(case, [], ['%s: %s' % (type(e).__name__, e)])
            return obs_exc(e)
        self._store(case, judged, notes)
        return codec.t_bool(ok)

    def _store(self, case, judged, notes):
        if not hasattr(self, '_j'):
            self._j = {}
        if len(self._j) > 20000:
            self._j.clear()
        self._j[case.key()] = (judged, notes)
        for g, _k, _p in judged:
            self._gens = getattr(self, '_gens', set())
            self._gens.add(g)

    def spec(self, case, impl_obs, model_obs):
        if impl_obs == codec.t_bool(True):
            return True
        if impl_obs == codec.t_bool(False):
            return False
        return None

    def spec_case(self, case, impl_obs):
        judged, _ = getattr(self, '_j', {}).get(case.key(), ([], []))
        return [Case('stream_judge', (g, k, p)) for g, k, p in judged] or None

    def valid(self, case):
        try:
            a = case.arg
            names = {e['name'] for e in catalogue.entries()}
            if a[0] == 'op':
                return a[1] in names and isinstance(a[2], int) and len(a) == 3
            if a[0] == 'pipe':
                return len(a) == 3 and 1 <= len(a[1]) <= 3 and all(n in names for n in a[1]) and isinstance(a[2], int)
            if a[0] == 'extract':
                return a[1] in EXTRACT_FORMS and len(a) == 3 and isinstance(a[2], int)
            if a[0] == 'sample':
                return a[1] in ('unpackdict', 'fromdicts', 'fromdicts:generator') and len(a) == 3 and isinstance(a[2], int)
            if a[0] == 'vis':
                return a[1] in VIS_FORMS and len(a) == 3
            return False
        except Exception:
            return False

    def nontrivial(self, case):
        try:
            if case.arg[0] == 'op':
                e = [x for x in catalogue.entries() if x['name'] == case.arg[1]][0]
                return 'stream' in e['flags']
            return True
        except Exception:
            return True

    def static_checks(self):
        miss = catalogue.completeness()
        return [('catalogue:complete', not miss, 'operators missing from the catalogue: %s' % miss)]

    def extra_evidence(self):
        return {'generator_functions_judged_against_the_coq_bound': sorted(getattr(self, '_gens', set()))}


PROP = C02
