"""C14 — reshape operators are mutually inverse and cell-exact."""
import itertools

from .. import codec, gen, zoo
from ..core import Prop, Case, obs_rows, obs_exc, obs_call


def L(t):
    return [list(r) for r in t]


def rows_tree(view):
    return obs_rows(view)


class C14(Prop):
    pid = 'C14'
    props_files = ['props/C14.v']
    gen_items = ['ComparableGen', 'AsIndicesGen']
    rule = ('rectangular tables with unique (None / mixed-type / compound) keys x all splits of the fields into key vs '
            'variables (melt, recast(melt)), transpose, flatten/unflatten with all periods 1..5, pivot with list/sum/len, '
            'unpack, splitdown, dicts/fromdicts, columns/fromcolumns; ragged tables for the single operators; non-trivial = '
            'at least 2 data rows')
    trusted = [
        'Coq 8.16.1 kernel; no axioms',
        'model/Reshape.v hand transcription of itermelt / iterrecast / itertranspose / iterpivot / flatten / unflatten / '
        'iterunpack / itersplitdown / dicts / iterdicts / columns / itercolumns (tied by this correspondence run)',
        'translators; extraction + OCaml driver; harness/codec.py',
    ]
    assumptions = ['regular expressions restricted to a literal one-character separator; recast with scalar variablefield and '
                   'default reducers; variable names are text']

    def _rect(self, rng, unique_keys=True, nkey=1):
        names = ['k', 'j', 'a', 'b', 'c']
        nvar = rng.choice([1, 2, 3])
        hdr = tuple(names[:nkey] + names[2:2 + nvar])
        pool = [None, 0, 1, 2, 'x', 'y', 2.5, (1,), b'z']
        n = rng.choice([0, 1, 2, 3, 4])
        keys = []
        rows = []
        tries = 0
        while len(rows) < n and tries < 50:
            tries += 1
            k = tuple(rng.choice(pool) for _ in range(nkey))
            if unique_keys and any(self._keq(k, k2) for k2 in keys):
                continue
            keys.append(k)
            rows.append(k + tuple(rng.choice([1, 2, 3, 'p', None, 'q']) for _ in range(nvar)))
        return (hdr,) + tuple(rows), nkey

    @staticmethod
    def _keq(a, b):
        from petl.comparison import Comparable
        return Comparable(a) == Comparable(b)

    def cases(self, rng, tier):
        n = 60 if tier == 'quick' else 800
        for _ in range(n):
            nkey = rng.choice([1, 1, 2])
            t, _ = self._rect(rng, True, nkey)
            key = t[0][0] if nkey == 1 else tuple(t[0][:nkey])
            yield Case('reshape', ('melt', key, None, 'variable', 'value', t))
            yield Case('reshape', ('melt', None, tuple(t[0][nkey:]), 'variable', 'value', t))
            # variables listed in another order than the columns, or only some of them
            vs = list(t[0][nkey:])
            yield Case('reshape', ('melt', None, tuple(reversed(vs)), 'variable', 'value', t))
            yield Case('reshape', ('melt', key, tuple(reversed(vs))[:max(1, len(vs) - 1)], 'variable', 'value', t))
            # variables / key given as field indices
            yield Case('reshape', ('melt', None, tuple(range(nkey, len(t[0]))), 'variable', 'value', t))
            yield Case('reshape', ('melt', 0 if nkey == 1 else tuple(range(nkey)), None, 'variable', 'value', t))
            yield Case('roundtrip', ('melt_cells', key, t))
            yield Case('roundtrip', ('capture_re', rng.choice(['(\\d+)', '([a-z])(\\d)', '-(.*)', '(x)|(y)', '^(.)(.*)$']),
                                     tuple(rng.choice(['treat-A1', 'a1', 'b22-x', 'xy', '9', 'q-']) for _ in range(rng.choice([1, 3]))),
                                     rng.random() < 0.4))
            # split / splitdown with a regular expression, maxsplit and flags, judged against re.split on every value
            yield Case('roundtrip', ('split_re', rng.choice(['-', '[-,]', 'x', '\\d', 'A']),
                                     tuple(rng.choice(['a-b-c', 'a,b-c,d', 'x', '', 'a1b2c3', 'q-', 'AxaXA']) for _ in range(rng.choice([1, 3]))),
                                     rng.choice([0, 0, 1, 2]), rng.choice([0, 0, 2]), rng.random() < 0.4))
            yield Case('roundtrip', ('recast_melt', key, t, rng.choice([None, 1, 2])))
            # unpackdict: records with different key sets, cells that are not dicts, short rows
            recs = tuple(rng.choice([(('p', 1), ('q', 2)), (('p', 3),), (('q', None), ('r', 'x')), (), None, 'nodict'])
                         for _ in range(rng.choice([1, 3, 4])))
            yield Case('roundtrip', ('unpackdict_cells', recs, rng.choice([None, ('p', 'q'), ('q', 'zz', 'p'), ('r',)]),
                                     rng.choice([None, 'M']), rng.random() < 0.4))
            yield Case('reshape', ('transpose', t))
            yield Case('roundtrip', ('transpose', t))
            yield Case('reshape', ('flatten', t))
            for period in range(1, 6):
                vals = tuple(x for r in t[1:] for x in r)
                yield Case('reshape', ('unflatten', period, rng.choice([None, 'M']), vals))
            yield Case('roundtrip', ('unflatten_flatten', t))
            yield Case('roundtrip', ('fromdicts_dicts', t))
            yield Case('roundtrip', ('fromcolumns_columns', t))
            yield Case('reshape', ('dicts', rng.choice([None, 'M']), t))
            yield Case('reshape', ('columns', rng.choice([None, 'M']), t))
            # ragged variants for the single operators
            rag = gen.freeze(gen.table(rng, maxrows=4, ncols=3, ragged=True, alphabet=[None, 1, 'x']))
            yield Case('reshape', ('melt', rag[0][0], None, 'variable', 'value', rag))
            yield Case('reshape', ('dicts', None, rag))
            yield Case('reshape', ('columns', None, rag))
            # recast on a melted-like table with repeated (key, variable) pairs
            m = (('k', 'variable', 'value'),) + tuple((rng.choice([0, 1, None, 'x']), rng.choice(['a', 'b', 'c']),
                                                      rng.choice([1, 2, 3])) for _ in range(rng.choice([0, 2, 4, 6])))
            yield Case('reshape', ('recast', rng.choice([None, 'k']), 'variable', 'value', 1000, rng.choice([None, 'M']),
                                   rng.choice([None, 2]), m))
            # variable names that are numbers: recast lists them in their natural order (9, 10, 100), not as text
            mn = (('k', 'variable', 'value'),) + tuple((rng.choice([0, 1, 'x']), rng.choice([9, 10, 100, 2.5]), rng.choice([1, 2, 3]))
                                                      for _ in range(rng.choice([2, 4, 6])))
            yield Case('reshape', ('recast', 'k', 'variable', 'value', 1000, None, None, mn))
            # pivot
            p = (('r', 'c', 'v'),) + tuple((rng.choice(['r1', 'r2', 'r3']), rng.choice(['c1', 'c2']), rng.choice([1, 2, 3]))
                                           for _ in range(rng.choice([0, 1, 3, 6])))
            yield Case('reshape', ('pivot', 'r', 'c', 'v', zoo.fn(rng.choice([1, 2, 0])), rng.choice([None, 0]), False,
                                   rng.choice([None, 2]), p))
            # unpack / splitdown
            u = (('k', 'v'),) + tuple((rng.choice([1, 'x']), tuple(rng.choice([1, 2, 'q']) for _ in range(rng.choice([0, 1, 2, 3]))))
                                      for _ in range(rng.choice([0, 2, 3])))
            yield Case('reshape', ('unpack', rng.choice(['v', 1]), rng.choice([('p', 'q'), ('p',), ()]), rng.random() < 0.4,
                                   rng.choice([None, 'M']), u))
            # an earlier cell equal to the unpacked one (the unpacked cell is removed by position, not by value)
            seqs = [(1, 2), (1,), ('q', 2)]
            u2 = (('k', 'm', 'v'),) + tuple((rng.choice(seqs), rng.choice([0, 'z']), rng.choice(seqs)) for _ in range(rng.choice([2, 3])))
            yield Case('reshape', ('unpack', 'v', ('p', 'q'), False, None, u2))
            sd = (('k', 'v'),) + tuple((rng.choice(['a-b', 'a', '', 'x-y-z', '-']), rng.choice([1, 2]))
                                       for _ in range(rng.choice([0, 2, 3])))
            yield Case('reshape', ('splitdown', rng.choice(['k', 0]), ord('-'), sd))

    # ---- implementation ------------------------------------------------------------------------------------------
    def impl(self, case):
        import petl as etl
        try:
            if case.op in ('roundtrip', 'const_true'):
                return self._roundtrip(etl, case.arg)
            nm = case.arg[0]
            a = case.arg[1:]
            if nm == 'melt':
                key, variables, vf, valf, t = a
                return obs_rows(etl.melt(L(t), key=key, variables=list(variables) if variables is not None else None,
                                         variablefield=vf, valuefield=valf))
            if nm == 'recast':
                key, vf, valf, ss, missing, bs, t = a
                import petl.config as config
                old = config.sort_buffersize
                try:
                    if bs is not None:
                        config.sort_buffersize = bs
                    return obs_rows(etl.recast(L(t), key=key, variablefield=vf, valuefield=valf, samplesize=ss, missing=missing))
                finally:
                    config.sort_buffersize = old
            if nm == 'transpose':
                return obs_rows(etl.transpose(L(a[0])))
            if nm == 'flatten':
                return obs_call(lambda: list(etl.flatten(L(a[0]))))
            if nm == 'unflatten':
                period, missing, vals = a
                return obs_rows(etl.unflatten(list(vals), period, missing=missing))
            if nm == 'pivot':
                f1, f2, f3, agg, missing, pre, bs, t = a
                return obs_rows(etl.pivot(L(t), f1, f2, f3, zoo.resolve(agg, zoo.AGG), missing=missing, presorted=pre,
                                          buffersize=bs))
            if nm == 'unpack':
                field, nf, inc, missing, t = a
                return obs_rows(etl.unpack(L(t), field, list(nf) if nf else None, include_original=inc, missing=missing))
            if nm == 'splitdown':
                field, sep, t = a
                return obs_rows(etl.splitdown(L(t), field, chr(sep)))
            if nm == 'dicts':
                missing, t = a
                return obs_call(lambda: [list(d.items()) for d in etl.dicts(L(t), missing=missing)])
            if nm == 'columns':
                missing, t = a
                return obs_call(lambda: [(k, list(v)) for k, v in etl.columns(L(t), missing=missing).items()])
        except Exception as e:   # noqa
            return obs_exc(e)
        raise ValueError(case.arg[0])

    def _roundtrip(self, etl, arg):
        """The round-trip identities of the property, on the real code; returns a boolean tree."""
        kind = arg[0]
        if kind == 'recast_melt':
            _, key, t, bs = arg
            src = L(t)
            vars_sorted = sorted(f for f in t[0] if f not in (key if isinstance(key, tuple) else (key,)))
            got = list(etl.recast(etl.melt(src, key=key), key=key))
            keyl = list(key) if isinstance(key, tuple) else [key]
            want = list(etl.cut(etl.sort(src, key=key, buffersize=bs), *(keyl + vars_sorted)))
            if len(t) == 1:
                # no data rows: no variables can be discovered, only the key fields remain
                return codec.t_bool([tuple(r) for r in got] == [tuple(keyl)])
            ok = [tuple(r) for r in got] == [tuple(r) for r in want]
            # the key left to recast to infer (every field but the variable and value fields), also when key field names
            # look like pieces of the words 'variable' / 'value'
            inferred = list(etl.recast(etl.melt(L(t), key=key)))
            ok = ok and [tuple(r) for r in inferred] == [tuple(r) for r in want]
            knames = ['a', 'var', 'ble', 'val', 'e', 'riab']
            vnames = ['X', 'Y', 'Z', 'W', 'V', 'U']
            ren = {}
            for f in t[0]:
                ren[f] = (knames if f in keyl else vnames)[len([g for g in ren if (g in keyl) == (f in keyl)])]
            t2 = [[ren[f] for f in t[0]]] + [list(r) for r in t[1:]]
            key2 = tuple(ren[k] for k in keyl) if isinstance(key, tuple) else ren[key]
            vars2 = sorted(ren[f] for f in t[0] if f not in keyl)
            want2 = list(etl.cut(etl.sort(t2, key=key2, buffersize=bs), *([ren[k] for k in keyl] + vars2)))
            inferred2 = list(etl.recast(etl.melt(t2, key=key2)))
            ok = ok and [tuple(r) for r in inferred2] == [tuple(r) for r in want2]
            return codec.t_bool(ok)
        if kind == 'melt_cells':
            # melt emits, per input row in order, one row per variable: (key cells..., variable name, that cell)
            _, key, t = arg
            keyl = list(key) if isinstance(key, tuple) else [key]
            ki = [t[0].index(k) for k in keyl]
            vi = [i for i in range(len(t[0])) if i not in ki]
            want = [tuple(keyl) + ('variable', 'value')]
            for r in t[1:]:
                for i in vi:
                    want.append(tuple(r[j] for j in ki) + (t[0][i], r[i]))
            by_name = [tuple(r) for r in etl.melt(L(t), key=key)]
            by_index = [tuple(r) for r in etl.melt(L(t), variables=vi)]
            by_index_key = [tuple(r) for r in etl.melt(L(t), key=ki if len(ki) > 1 else ki[0])]
            # (with variables given as indices the variable column carries the indices as given)
            want_idx = [want[0]] + [w[:-2] + (vi[n % len(vi)], w[-1]) for n, w in enumerate(want[1:])] if vi else want
            # variables named in another order than the columns: rows come per variable in the order given, each with its own cell
            rv = list(reversed(vi))
            want_rev = [want[0]]
            for r in t[1:]:
                for i in rv:
                    want_rev.append(tuple(r[j] for j in ki) + (t[0][i], r[i]))
            by_rev = [tuple(r) for r in etl.melt(L(t), key=key, variables=[t[0][i] for i in rv])] if rv else want_rev
            by_rev_nokey = [tuple(r) for r in etl.melt(L(t), variables=[t[0][i] for i in rv])] if rv else want_rev
            return codec.t_bool(by_name == want and by_index == want_idx and by_index_key == want and by_rev == want_rev
                                and by_rev_nokey == want_rev)
        if kind == 'capture_re':
            # capture applies re.search: the groups of the first match anywhere in the value
            import re
            _, pat, vals, include = arg
            ngroups = re.compile(pat).groups
            names = ['g%d' % i for i in range(ngroups)]
            src = [['id', 'txt']] + [[i, v] for i, v in enumerate(vals)]
            got = [tuple(r) for r in etl.capture(src, 'txt', pat, names, include_original=include, fill=['-'] * ngroups)]
            want = [('id', 'txt') + tuple(names) if include else ('id',) + tuple(names)]
            for i, v in enumerate(vals):
                m = re.search(pat, v)
                groups = tuple(m.groups()) if m else tuple(['-'] * ngroups)
                want.append(((i, v) if include else (i,)) + groups)
            return codec.t_bool(got == want)
        if kind == 'unpackdict_cells':
            _, recs, keys, missing, include = arg
            src = [['id', 'd', 'z']] + [[i, (dict(r) if isinstance(r, tuple) else r), 'z%d' % i] for i, r in enumerate(recs)]
            kw = {} if keys is None else {'keys': list(keys)}
            got = [tuple(r) for r in etl.unpackdict(src, 'd', includeoriginal=include, missing=missing, **kw)]
            ks = list(keys) if keys is not None else sorted(set(k for r in recs if isinstance(r, tuple) for k, _ in r))
            want = [(('id', 'd', 'z') if include else ('id', 'z')) + tuple(ks)]
            for row in src[1:]:
                d = row[1]
                cells = tuple((d[k] if isinstance(d, dict) and k in d else missing) for k in ks)
                want.append((tuple(row) if include else (row[0], row[2])) + cells)
            return codec.t_bool(got == want)
        if kind == 'split_re':
            import re
            _, pat, vals, maxsplit, flags, include = arg
            src = [['id', 'txt', 'z']] + [[i, v, 'z%d' % i] for i, v in enumerate(vals)]
            got = [tuple(r) for r in etl.split(src, 'txt', pat, ['p', 'q'], include_original=include, maxsplit=maxsplit, flags=flags)]
            want = [('id', 'txt', 'z', 'p', 'q') if include else ('id', 'z', 'p', 'q')]
            down = [('id', 'txt', 'z')]
            for i, v in enumerate(vals):
                parts = re.split(pat, v, maxsplit=maxsplit, flags=flags)
                want.append(((i, v, 'z%d' % i) if include else (i, 'z%d' % i)) + tuple(parts))
                down.extend((i, p, 'z%d' % i) for p in parts)
            got_down = [tuple(r) for r in etl.splitdown(src, 'txt', pat, maxsplit=maxsplit, flags=flags)]
            return codec.t_bool(got == want and got_down == down)
        if kind == 'transpose':
            t = arg[1]
            return codec.t_bool([tuple(r) for r in etl.transpose(etl.transpose(L(t)))] == [tuple(r) for r in t])
        if kind == 'unflatten_flatten':
            t = arg[1]
            n = len(t[0])
            got = list(etl.unflatten(etl.flatten(L(t)), n))[1:]
            return codec.t_bool([tuple(r) for r in got] == [tuple(r) for r in t[1:]])
        if kind == 'fromdicts_dicts':
            t = arg[1]
            got = list(etl.fromdicts(etl.dicts(L(t)), header=None if len(t) > 1 else list(t[0])))
            return codec.t_bool([tuple(r) for r in got] == [tuple(r) for r in t])
        if kind == 'fromcolumns_columns':
            t = arg[1]
            cols = etl.columns(L(t))
            got = list(etl.fromcolumns(list(cols.values()), header=list(cols.keys())))
            ok = [tuple(r) for r in got] == [tuple(r) for r in t]
            # field names that are not text: columns() files every cell under the field's text name, none is lost
            t2 = [[i if i % 2 == 0 else None if i == 1 else f for i, f in enumerate(t[0])]] + [list(r) for r in t[1:]]
            cols2 = etl.columns(t2)
            ok = ok and list(cols2.keys()) == [str(f) for f in t2[0]] and \
                [list(c) for c in cols2.values()] == [[r[i] for r in t[1:]] for i in range(len(t[0]))]
            return codec.t_bool(ok)
        raise ValueError(kind)

    def expand(self, case):
        if case.op == 'roundtrip':
            # the model's verdict on a round trip is the theorem: it always holds
            return Case('const_true', case.arg, dict(case.meta, orig='roundtrip'))
        return case

    def spec(self, case, impl_obs, model_obs):
        if case.op == 'const_true':
            return impl_obs == codec.t_bool(True)
        return None

    def valid(self, case):
        try:
            if case.op in ('roundtrip', 'const_true'):
                t = case.arg[2] if case.arg[0] == 'recast_melt' else case.arg[1]
                ok = len(t) >= 1 and len(t[0]) >= 2 and all(isinstance(f, str) for f in t[0]) \
                    and len(set(t[0])) == len(t[0]) and all(len(r) == len(t[0]) for r in t[1:])
                if not ok:
                    return False
                if case.arg[0] == 'recast_melt':
                    key = case.arg[1]
                    ks = list(key) if isinstance(key, tuple) else [key]
                    if not all(k in t[0] for k in ks) or len(ks) >= len(t[0]):
                        return False
                    kv = [tuple(r[t[0].index(k)] for k in ks) for r in t[1:]]
                    return all(not self._keq(a, b) for a, b in itertools.combinations(kv, 2))
                return True
            return True
        except Exception:
            return False

    def nontrivial(self, case):
        try:
            t = case.arg[-1] if case.op == 'reshape' else (case.arg[2] if case.arg[0] == 'recast_melt' else case.arg[1])
            return len(t) >= 3
        except Exception:
            return True


PROP = C14
