"""C05 — sort / mergesort: stable ordered permutation, same under every buffering strategy."""
import itertools
import tempfile

from .. import codec, gen
from ..core import Prop, Case, obs_rows, obs_call


def _keys_for(rng, hdr):
    n = len(hdr)
    opts = [None, hdr[0], 0]
    if n >= 2:
        opts += [hdr[1], (hdr[0], hdr[1]), (hdr[1], hdr[0]), (1, hdr[0]), n - 1]
    return rng.choice(opts)


class C05(Prop):
    pid = 'C05'
    props_files = ['props/C05.v']
    gen_items = ['ComparableGen', 'AsIndicesGen']
    rule = ('tables with duplicate / None / mixed-type keys and ragged rows x keys (None, name, index, compound) x reverse '
            'x EVERY buffersize 1..n+1 and None x cache x two passes; mergesort over 1-3 tables with differing headers; '
            'issorted; non-trivial = at least 2 data rows')
    trusted = [
        'Coq 8.16.1 kernel; no axioms',
        'model/Sort.v hand transcription of SortView._iternocache, _heapqmergesorted, _shortlistmergesorted, itermergesort, '
        'issorted (tied by this correspondence run)',
        'CPython primitives as modelled: list.sort(key,reverse) = stable insertion sort; heapq.merge/min/max = first '
        'minimal/maximal head; pickle round-trip of chunk rows = identity',
        'translators comparable.py / asindices.py; extraction + OCaml driver; harness/codec.py',
    ]
    assumptions = ['buffersize >= 1', 'rows are tuples of values in the C04 domain', 'header fields are text']

    def _table(self, rng, tier):
        maxrows = 8 if tier == 'quick' else rng.choice([8, 8, 20, 40])
        return gen.freeze(gen.table(rng, maxrows=maxrows, ragged=rng.random() < 0.3))

    def cases(self, rng, tier):
        ntab = 120 if tier == 'quick' else 1500
        # equal keys spread over several chunks, with payload cells that cannot be compared natively (None / text / numbers)
        for _ in range(20 if tier == 'quick' else 200):
            rows = tuple((rng.choice([0, 1]), rng.choice([None, 'x', 3, 2.5, (1,)])) for _ in range(rng.choice([4, 5, 6])))
            t = (('k', 'p'),) + rows
            for bs in (1, 2, 3):
                yield Case('sort', (bs, False, 'k', t), {'cache': rng.random() < 0.5})
        for _ in range(ntab):
            t = self._table(rng, tier)
            n = len(t) - 1
            key = _keys_for(rng, t[0])
            rev = rng.random() < 0.4
            sizes = list(range(1, n + 2)) + [None]
            if n > 10:
                sizes = rng.sample(range(1, n + 2), 6) + [n, n + 1, max(1, n - 1), None]
            for bs in sizes:
                yield Case('sort', (bs, rev, key, t), {'cache': rng.random() < 0.5})
            # buffersize left to petl.config.sort_buffersize, which stays in force while the table is iterated
            for cfg in rng.sample(range(1, n + 2), min(2, n + 1)):
                yield Case('sort', (None, rev, key, t), {'cache': rng.random() < 0.5, 'cfg': cfg})
        # key=None on ragged rows: the key is the whole row, cells missing or beyond the header count as None / are ignored
        for _ in range(30 if tier == 'quick' else 300):
            hdr = ('a', 'b')
            rows = []
            for _i in range(rng.choice([2, 3, 5])):
                w = rng.choice([0, 1, 2, 2, 3])
                rows.append(tuple(rng.choice([None, 0, 1]) for _j in range(w)))
            t = (hdr,) + tuple(rows)
            for bs in (None, 1, 2):
                yield Case('sort', (bs, rng.random() < 0.3, None, t), {'cache': rng.random() < 0.5})
        if tier == 'thorough':
            # exhaustive small scope: all tables of <= 4 rows over a 4-value key alphabet x all buffersizes
            alpha = [None, 0, 1, 'a']
            for n in range(0, 5):
                for keys in itertools.product(alpha, repeat=n):
                    t = (('k', 'v'),) + tuple((k, i) for i, k in enumerate(keys))
                    for bs in list(range(1, n + 2)) + [None]:
                        for rev in (False, True):
                            yield Case('sort', (bs, rev, 'k', t), {'cache': True})
        # mergesort
        nms = 150 if tier == 'quick' else 2500
        for _ in range(nms):
            k = rng.choice([1, 2, 2, 3])
            base = gen.header(rng, rng.choice([2, 3]))
            tabs = []
            alpha = gen.key_alphabet(rng) if rng.random() < 0.7 else [0, 1, 2, 3]
            for _i in range(k):
                hdr = list(base)
                if rng.random() < 0.3:
                    rng.shuffle(hdr)
                if rng.random() < 0.3:
                    hdr = hdr[:-1] + [rng.choice(['extra', 'z'])]
                t = gen.table(rng, maxrows=5, ncols=len(hdr), alphabet=alpha, ragged=rng.random() < 0.2)
                t[0] = tuple(hdr)
                tabs.append(gen.freeze(t))
            key = rng.choice([base[0], base[0], (base[0], base[1]), None])
            rev = rng.random() < 0.3
            bs = rng.choice([None, None, 1, 2, 3])
            yield Case('mergesort', (key, rev, False, rng.choice([None, None, 'M']), None, bs, tuple(tabs)))
        # issorted by the first column given as index 0: ties in that column, other cells in any order
        for rows in (((1, 'b'), (1, 'a'), (2, 'c')), ((None, 2), (None, 1)), ((1, 'z'), (True, 'y'), (1.0, 'x')),
                     ((0, 9), (0, 1), (0, 5), (1, 0)), ((2, 'a'), (1, 'b'))):
            for strict in (False, True):
                for rev in (False, True):
                    yield Case('issorted', (0, rev, strict, (('k', 'v'),) + rows))
                    yield Case('issorted', ('k', rev, strict, (('k', 'v'),) + rows))
        # issorted
        nis = 150 if tier == 'quick' else 2000
        for _ in range(nis):
            t = gen.freeze(gen.table(rng, maxrows=5, alphabet=gen.key_alphabet(rng), ragged=rng.random() < 0.2, minrows=0))
            key = _keys_for(rng, t[0])
            yield Case('issorted', (key, rng.random() < 0.3, rng.random() < 0.3, t))
        # issorted with key=None on ragged rows keys a row like sort(key=None) does (missing cells count as None, cells beyond
        # the header are ignored): tables in random order and in that order
        for _ in range(40 if tier == 'quick' else 400):
            hdr = ('a', 'b')
            rows = []
            for _i in range(rng.choice([2, 3, 4])):
                w = rng.choice([0, 1, 2, 2, 3])
                rows.append(tuple(rng.choice([None, 0, 1]) for _j in range(w)))
            srt = sorted(rows, key=lambda r: [(-1 if c is None else c) for c in (list(r) + [None, None])[:2]])
            for rr in (rows, srt, srt[::-1]):
                yield Case('issorted', (None, rr is not rows and rr is not srt, rng.random() < 0.2, (hdr,) + tuple(rr)))

    def impl(self, case):
        import petl as etl
        if case.op == 'sort':
            bs, rev, key, t = case.arg
            cache = case.meta.get('cache', True)
            src = [list(r) for r in t]
            import petl.config as config
            old_cfg = config.sort_buffersize
            if case.meta.get('cfg') is not None:
                config.sort_buffersize = case.meta['cfg']
            try:
                with tempfile.TemporaryDirectory(dir='/var/tmp') as td:
                    v = etl.sort(src, key=key, reverse=rev, buffersize=bs, cache=cache, tempdir=td)
                    o1 = obs_rows(v)
                    o2 = obs_rows(v)
                    del v
            finally:
                config.sort_buffersize = old_cfg
            if o1 != o2:
                return ('tu', (codec.t_str('!passes-differ'), o1, o2))
            return o1
        if case.op == 'mergesort':
            key, rev, pre, missing, header, bs, tabs = case.arg
            srcs = [[list(r) for r in t] for t in tabs]
            with tempfile.TemporaryDirectory(dir='/var/tmp') as td:
                v = etl.mergesort(*srcs, key=key, reverse=rev, presorted=pre, missing=missing, header=header,
                                  buffersize=bs, tempdir=td)
                o1 = obs_rows(v)
                del v
            return o1
        if case.op == 'issorted':
            key, rev, strict, t = case.arg
            return obs_call(lambda: etl.issorted([tuple(r) for r in t], key=key, reverse=rev, strict=strict))
        raise ValueError(case.op)

    def spec(self, case, impl_obs, model_obs):
        # issorted and sort speak about the same ordering: a table is sorted exactly when the stable sort leaves it as it is
        if case.op == 'issorted' and impl_obs in (codec.t_bool(True), codec.t_bool(False)):
            import petl as etl
            key, rev, strict, t = case.arg
            try:
                same = [tuple(r) for r in etl.sort([tuple(r) for r in t], key=key, reverse=rev)] == [tuple(r) for r in t]
            except Exception:
                return None
            said = impl_obs == codec.t_bool(True)
            if not strict:
                return said == same
            return False if (said and not same) else None
        return None

    def spec_case(self, case, impl_obs):
        if case.op == 'sort' and impl_obs[0] == 'li':
            bs, rev, key, t = case.arg
            return Case('sort_spec', (rev, key, t, codec.uncanon(impl_obs)))
        if case.op == 'mergesort':
            # mergesort(tables, key) must be the stable sort of cat(tables) under the same key (key=None included)
            import petl as etl
            key, rev, pre, missing, header, bs, tabs = case.arg
            try:
                catted = tuple(tuple(r) for r in etl.cat(*[[list(r) for r in t] for t in tabs], missing=missing))
                list(etl.sort(catted, key=key))
                for t in tabs:   # every table must carry the key (else sort(table) itself raises)
                    list(etl.sort([list(r) for r in t], key=key))
                if len(set(map(str, catted[0]))) != len(catted[0]):
                    return None
                for t in tabs:
                    if len(set(t[0])) != len(t[0]):
                        return None
            except Exception:
                return None
            if impl_obs[0] != 'li':
                self._force_false = True
                return Case('sort_spec', (rev, key, catted, ()))   # an error where sort(cat) succeeds: spec false
            return Case('sort_spec', (rev, key, catted, codec.uncanon(impl_obs)))
        return None

    def valid(self, case):
        try:
            if case.op == 'mergesort':
                tabs = case.arg[6]
            else:
                tabs = [case.arg[3]]
            for t in tabs:
                if len(t) < 1 or len(t[0]) < 1 or not all(isinstance(f, str) for f in t[0]):
                    return False
                if len(set(t[0])) != len(t[0]):
                    return False
            return True
        except Exception:
            return False

    def nontrivial(self, case):
        if case.op == 'mergesort':
            return sum(len(t) - 1 for t in case.arg[6]) >= 2
        return len(case.arg[3]) >= 3

    def finding_id(self, case, impl_obs, model_obs):
        if case.op == 'mergesort' and case.arg[0] is None:
            return 'mergesort-key-none'
        if case.op == 'mergesort' and case.arg[3] is not None:
            # a row too short to carry a key cell: sorted under None inside mergesort, under the `missing` marker in sort(cat)
            key, tabs = case.arg[0], case.arg[6]
            ks = key if isinstance(key, tuple) else (key,)
            for t in tabs:
                idx = [k if isinstance(k, int) else (list(t[0]).index(k) if k in t[0] else None) for k in ks]
                if any(i is None or any(len(r) <= i for r in t[1:]) for i in idx):
                    return 'mergesort-missing-marker-in-key'
        return None


PROP = C05
