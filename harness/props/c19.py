"""C19 — the failonerror policy decides exactly what a failing conversion becomes."""
import itertools

from .. import codec, gen, zoo
from ..core import Prop, Case, obs_rows, obs_exc
from .c12 import call_transform


class C19(Prop):
    pid = 'C19'
    props_files = ['props/C19.v']
    gen_items = ['ComparableGen', 'AsIndicesGen']
    rule = ('tables of <= 5 rows whose key cell decides failure: EVERY subset of failing row positions (thorough; quick: random '
            'subsets) x {convert, fieldmap, rowmap, rowmapmany} x the three policies x argument vs patched '
            'petl.config.failonerror x errorvalue; rows delivered before the exception are part of the observation; '
            'non-trivial = at least one failing row')
    trusted = [
        'Coq 8.16.1 kernel; no axioms',
        'model/Transforms.v transcription of transform_value / iterfieldmap / iterrowmap / iterrowmapmany (tied by this '
        'correspondence run); converters and mappers from the zoo defined on both sides',
        'extraction + OCaml driver; harness/codec.py',
    ]
    assumptions = ['exception objects are compared by class name']

    def _table(self, fails, rng):
        rows = []
        for f in fails:
            k = rng.choice([2, 'x']) if f else rng.choice([0, 1, 'b', None])
            rows.append((k, rng.choice(['x', 'y']), rng.choice([1, 2, 3])))
        return (('k', 'a', 'v'),) + tuple(rows)

    def cases(self, rng, tier):
        if tier == 'thorough':
            subsets = [fs for n in range(0, 6) for fs in itertools.product([False, True], repeat=n)]
        else:
            subsets = [tuple(rng.random() < 0.4 for _ in range(rng.choice([0, 1, 2, 3, 5]))) for _ in range(40)]
            subsets += [(True,), (False, True), (True, True, False), ()]
        for fails in subsets:
            for pol in (False, True, 'inline'):
                yield Case('cfg_default', (rng.choice(['convertnumbers', 'convertall', 'convert']), pol, tuple(fails)))
                yield Case('odd_values', (rng.choice(['convert:stop', 'fieldmap:stop']), pol, tuple(fails)))
                yield Case('odd_values', (rng.choice(['convert:value', 'fieldmap:value']), pol, tuple(fails)))
            t = self._table(fails, rng)
            for pol in (False, True, 'inline'):
                via_config = rng.random() < 0.3
                ev = rng.choice([None, 'ERR'])
                meta = {'via_config': via_config}
                yield Case('transform', ('convert', (('k', ('fn', 3)),), pol, ev, None, t), meta)
                yield Case('transform', ('convert', (('k', ('fn', 3)), ('a', ('fn', 0))), pol, ev, None, t), meta)
                # a row-aware converter (pass_row=True) failing on the same cells
                yield Case('transform', ('convert', (('k', ('fn', 8)),), pol, ev, None, t), meta)
                # a lookup-table converter: fails with KeyError on the same cells
                yield Case('transform', ('convert', (('k', ('fn', 7)),), pol, ev, None, t), meta)
                yield Case('transform', ('fieldmap', (('kk', ('fieldconv', 'k', ('fn', 3))), ('aa', ('field', 'a'))), pol, ev, t),
                           meta)
                yield Case('transform', ('rowmap', 1, ('k', 'n'), pol, t), meta)
                # rows longer (and shorter) than the header: cells outside the converted field are the same under every policy
                tl = (t[0],) + tuple(r + ('extra', 9) if i % 2 == 0 else (r[:2] if i % 3 == 1 else r) for i, r in enumerate(t[1:]))
                yield Case('transform', ('convert', (('k', ('fn', 3)),), pol, ev, None, tl), meta)
                yield Case('transform', ('convert', (('k', ('fn', 3)), ('a', ('fn', 0))), pol, ev, None, tl), meta)
                # a method-name converter ('upper') meets None cells: a failing conversion like any other
                tn = (t[0],) + tuple((rng.choice([0, 1, 'b']), None if f else r[1], r[2]) for r, f in zip(t[1:], fails))
                yield Case('transform', ('convert', (('a', ('fn', 0)),), pol, ev, None, tn), dict(meta, fail_a_none=True))
                # failing cells that are tuples (empty, singleton, longer)
                tt = (t[0],) + tuple((rng.choice([(), (1,), (1, 'x'), (None, 2, 3)]),) + r[1:] if r[0] in (2, 'x') else r
                                     for r in t[1:])
                yield Case('transform', ('convert', (('k', ('fn', 9)),), pol, ev, None, tt), meta)
                yield Case('transform', ('fieldmap', (('kk', ('fieldconv', 'k', ('fn', 9))), ('aa', ('field', 'a'))), pol, ev, tt),
                           meta)
                # mappers whose failure only shows when the result is turned into a row (lazy result / no result)
                yield Case('transform', ('rowmap', 2, ('k', 'n'), pol, t), meta)
                yield Case('transform', ('rowmap', 3, ('k', 'n'), pol, t), meta)
                # a `where` guard that keeps the converter away from the cells it would fail on: nothing fails, under any policy
                yield Case('transform', ('convert', (('k', ('fn', 3)),), pol, ev, ('field', 'k', ('eq', 1)), t), meta)
                yield Case('transform', ('convert', (('k', ('fn', 7)), ('a', ('fn', 0))), pol, ev, ('field', 'k', ('isnone',)), t),
                           meta)
                yield Case('transform', ('rowmapmany', 0, ('k', 'variable', 'value'), pol, t), meta)

    def expand(self, case):
        if case.op in ('cfg_default', 'odd_values'):
            return Case('const_true', (case.op,) + tuple(case.arg), dict(case.meta, orig=case.op))
        return case

    def _odd_values(self, form, pol, fails):
        """(a) a converter / mapping that raises StopIteration is a failing conversion like any other;
        (b) a converter / mapping that RETURNS an exception object has not failed: the object is an ordinary cell under every
        policy"""
        import petl as etl
        t = [['k', 'a']] + [['bad' if f else 'ok%d' % i, i] for i, f in enumerate(fails)]
        marker = ValueError('just a value')

        def stop(v):
            if v == 'bad':
                raise StopIteration()
            return v.upper()

        def hands_back(v):
            return marker if v == 'bad' else v.upper()
        fn = stop if form.endswith('stop') else hands_back
        if form.startswith('convert'):
            v = etl.convert(t, 'k', fn, failonerror=pol, errorvalue='ERR')
        else:
            v = etl.fieldmap(t, {'k': ('k', fn), 'a': 'a'}, failonerror=pol, errorvalue='ERR')
        got, err = [], None
        try:
            for r in v:
                got.append(tuple(r))
        except BaseException as e:   # noqa
            err = e
        rows = got[1:]
        good = lambda i: ('OK%d' % i, i)   # noqa
        if not form.endswith('stop'):
            # nothing failed: the same rows under every policy
            return err is None and rows == [((marker, i) if f else good(i)) for i, f in enumerate(fails)]
        if pol is True:
            if not any(fails):
                return err is None and rows == [good(i) for i in range(len(fails))]
            first = list(fails).index(True)
            return err is not None and rows == [good(i) for i in range(first)]
        if err is not None or len(rows) != len(fails):
            return False
        for i, (f, r) in enumerate(zip(fails, rows)):
            if not f:
                if r != good(i):
                    return False
            elif pol is False:
                if r != ('ERR', i):
                    return False
            elif not isinstance(r[0], Exception) or r[1] != i:
                return False
        return True

    def _cfg_default(self, form, pol, fails):
        """convenience forms of convert take the policy from petl.config.failonerror when the argument is omitted"""
        import petl as etl
        import petl.config as config
        t = [['k', 'a']] + [['zz' if f else str(10 + i), str(i)] for i, f in enumerate(fails)]
        old = config.failonerror
        config.failonerror = pol
        try:
            if form == 'convertnumbers':
                v = etl.convertnumbers(t, strict=True)
                good = lambda i: (10 + i, i)   # noqa
            elif form == 'convertall':
                v = etl.convertall(t, int)
                good = lambda i: (10 + i, i)   # noqa
            else:
                v = etl.convert(t, ('k', 'a'), int)
                good = lambda i: (10 + i, i)   # noqa
        finally:
            config.failonerror = old
        got, err = [], None
        try:
            for r in v:
                got.append(tuple(r))
        except Exception as e:   # noqa
            err = e
        if tuple(got[0]) != ('k', 'a'):
            return False
        rows = got[1:]
        if pol is True:
            if not any(fails):
                return err is None and rows == [good(i) for i in range(len(fails))]
            first = list(fails).index(True)
            return err is not None and rows == [good(i) for i in range(first)]
        if err is not None or len(rows) != len(fails):
            return False
        for i, (f, r) in enumerate(zip(fails, rows)):
            if not f:
                if r != good(i):
                    return False
            elif pol is False:
                if r != (None, i):
                    return False
            else:
                if not isinstance(r[0], Exception) or r[1] != i:
                    return False
        return True

    def impl(self, case):
        import petl.config as config
        if case.op == 'const_true':
            try:
                if case.arg[0] == 'odd_values':
                    return codec.t_bool(self._odd_values(*case.arg[1:]))
                return codec.t_bool(self._cfg_default(*case.arg[1:]))
            except Exception as e:   # noqa
                return obs_exc(e)
        arg = case.arg
        old = config.failonerror
        try:
            if case.meta.get('via_config'):
                # the default is taken from petl.config at view construction when the argument is omitted
                nm = arg[0]
                pol_idx = {'convert': 2, 'fieldmap': 2, 'rowmap': 3, 'rowmapmany': 3}[nm]
                config.failonerror = arg[pol_idx]
                arg = arg[:pol_idx] + (None,) + arg[pol_idx + 1:]
            try:
                v = call_transform(arg)
            finally:
                config.failonerror = old      # restored BEFORE iteration: the default must have been read already
            return obs_rows(v)
        except Exception as e:   # noqa
            return obs_exc(e)
        finally:
            config.failonerror = old

    def spec(self, case, impl_obs, model_obs):
        """The documented policy, judged on the implementation output."""
        if case.op == 'const_true':
            return impl_obs == codec.t_bool(True)
        nm = case.arg[0]
        t = case.arg[-1]
        pol = case.arg[2] if nm in ('convert', 'fieldmap') else case.arg[3]
        fails = [r[0] in (2, 'x') or isinstance(r[0], tuple) for r in t[1:]]
        if case.meta.get('fail_a_none'):
            fails = [len(r) > 1 and r[1] is None for r in t[1:]]
        if nm == 'convert' and case.arg[4] is not None:
            fails = [False for _ in fails]          # the guards used here reject every cell the converter fails on
            if impl_obs[0] == 'li' and any(tuple(codec.canon(x) for x in r) != o[1]
                                           for r, o in zip(t[1:], impl_obs[1][1:]) if r[0] in (2, 'x')):
                return False                        # rows rejected by the guard pass through unchanged
        if nm == 'convert':
            # every delivered row keeps its length and every cell outside the converted fields
            touched = {('k', 'a', 'v').index(k) for k, _c in case.arg[1]}
            rows_out = impl_obs[1][1:] if impl_obs[0] == 'li' else (impl_obs[1][1][1][1:] if impl_obs[0] == 'tu' and
                                                                   impl_obs[1][0] == codec.t_str('!partial') else [])
            for r, o in zip(t[1:], rows_out):
                if len(o[1]) != len(r) or any(j not in touched and o[1][j] != codec.canon(x) for j, x in enumerate(r)):
                    return False
        if pol is False or pol == 'inline':
            if impl_obs[0] != 'li':
                return False                      # nothing may be raised
            n = len(impl_obs[1]) - 1
            if nm in ('convert', 'fieldmap'):
                return n == len(fails)
            if nm == 'rowmap':
                return n == (len(fails) - sum(fails) if pol is False else len(fails))
            if nm == 'rowmapmany':
                return n == sum(1 if f else 2 for f in fails) + (sum(fails) if pol == 'inline' else 0)
        if pol is True:
            if not any(fails):
                return impl_obs[0] == 'li'
            # raised, after every earlier row was delivered
            if impl_obs[0] != 'tu' or impl_obs[1][0] != codec.t_str('!partial'):
                return False
            delivered = len(impl_obs[1][1][1]) - 1
            first = fails.index(True)
            want = first if nm != 'rowmapmany' else 2 * first + 1
            return delivered == want
        return None

    def valid(self, case):
        try:
            if case.op in ('const_true', 'cfg_default', 'odd_values'):
                a = case.arg[1:] if case.op == 'const_true' else case.arg
                return a[0] in ('convertnumbers', 'convertall', 'convert', 'convert:stop', 'convert:value', 'fieldmap:stop',
                                'fieldmap:value') and a[1] in (False, True, 'inline') \
                    and all(isinstance(f, bool) for f in a[2])
            t = case.arg[-1]
            if case.arg[0] == 'convert':
                return len(t) >= 1 and tuple(t[0]) == ('k', 'a', 'v') and all(2 <= len(r) <= 5 for r in t[1:])
            return len(t) >= 1 and tuple(t[0]) == ('k', 'a', 'v') and all(len(r) == 3 for r in t[1:])
        except Exception:
            return False

    def nontrivial(self, case):
        if case.op in ('const_true', 'cfg_default', 'odd_values'):
            return any(case.arg[-1])
        return any(r[0] in (2, 'x') or isinstance(r[0], tuple) or (len(r) > 1 and r[1] is None) for r in case.arg[-1][1:])


PROP = C19
