"""C10 — duplicates / unique / distinct / conflicts partition rows by key multiplicity."""
import itertools

from .. import codec, gen
from ..core import Prop, Case, obs_rows, obs_call


def compositions(n):
    """All compositions of n (run-length arrangements)."""
    if n == 0:
        yield ()
        return
    for first in range(1, n + 1):
        for rest in compositions(n - first):
            yield (first,) + rest


class C10(Prop):
    pid = 'C10'
    props_files = ['props/C10.v']
    gen_items = ['ComparableGen', 'AsIndicesGen']
    rule = ('rectangular tables (0..8 rows; thorough: every arrangement of run lengths up to 6 rows) with None / mixed-type '
            'cells x key None / single / compound x the five operators (+ conflicts with missing/include/exclude, isunique); '
            'non-trivial = at least 2 data rows')
    trusted = [
        'Coq 8.16.1 kernel; no axioms',
        'model/Dedup.v hand transcription of iterduplicates / iterunique / iterconflicts / DistinctView.__iter__ / isunique '
        '(tied by this correspondence run); model/Sort.v for the sorting stage',
        'translators comparable.py / asindices.py; extraction + OCaml driver; harness/codec.py',
    ]
    assumptions = ['tables are rectangular (the property\'s domain); cells contain no lists (so == and the Comparable '
                   'equivalence coincide)']

    def _call(self, opn, key, pre, bs, t, extra, meta=None):
        import petl as etl
        src = [list(r) for r in t]
        if meta and meta.get('mixed'):
            # presorted input whose rows alternate between lists and tuples
            src = [src[0]] + [list(r) if i % 2 else tuple(r) for i, r in enumerate(etl.sort(src, key).skip(1))]
            pre = True
        if meta and meta.get('view'):
            # the input is a petl view already: a whole-row sort (ascending / descending) of rows that are in that order anyway
            src = etl.sort(src, reverse=(meta['view'] == 'rsort'))
        kw = dict(presorted=pre, buffersize=bs)
        if opn == 'duplicates':
            return etl.duplicates(src, key, **kw)
        if opn == 'unique':
            return etl.unique(src, key, **kw)
        if opn == 'distinct':
            return etl.distinct(src, key, **kw)
        if opn == 'distinct_count':
            return etl.distinct(src, key, count=extra, **kw)
        if opn == 'conflicts':
            m, ex, inc = extra
            return etl.conflicts(src, key, missing=m, exclude=ex, include=inc, **kw)
        raise ValueError(opn)

    def _keys(self, rng, hdr):
        n = len(hdr)
        opts = [None, hdr[0], 0]
        if n >= 2:
            opts += [hdr[1], (hdr[0], hdr[1]), (hdr[1], hdr[0]), n - 1]
        return rng.choice(opts)

    def cases(self, rng, tier):
        ntab = 150 if tier == 'quick' else 2500
        for _ in range(ntab):
            alpha = gen.key_alphabet(rng)
            t = gen.freeze(gen.table(rng, maxrows=8 if rng.random() < 0.9 else 20, alphabet=alpha[:rng.choice([2, 3, 6])]))
            key = self._keys(rng, t[0])
            bs = rng.choice([None, None, 1, 2, 3])
            for opn in ('duplicates', 'unique', 'distinct'):
                yield Case('dedup', (opn, key, False, bs, t, None))
            yield Case('dedup', ('distinct_count', key, False, bs, t, 'n'))
            for opn in ('duplicates', 'unique', 'distinct'):
                yield Case('dedup', (opn, key, False, None, t, None), {'mixed': True})
            yield Case('dedup', ('distinct_count', key, False, None, t, 'n'), {'mixed': True})
            # the same operators on an input that is a sorted view (sorted on the whole row, which is not sorted on the key)
            import petl as etl
            vw = rng.choice(['sort', 'sort', 'rsort'])
            try:
                tv = tuple(tuple(r) for r in etl.sort([list(r) for r in t], reverse=(vw == 'rsort')))
            except Exception:
                tv = None
            if tv is not None:
                for opn in ('duplicates', 'unique', 'distinct'):
                    yield Case('dedup', (opn, key, False, bs, tv, None), {'view': vw})
                if key is not None:
                    yield Case('dedup', ('conflicts', key, False, bs, tv, (None, None, None)), {'view': vw})
            if key is not None:
                extra = (rng.choice([None, None, 0, 'a']), rng.choice([None, None, t[0][-1], (t[0][0],)]),
                         rng.choice([None, None, t[0][-1], (t[0][0], t[0][-1])]))
                yield Case('dedup', ('conflicts', key, False, bs, t, extra))
                yield Case('isunique', (key, t))
        # directed: values that differ but hash alike are not repeats; include / exclude given as a bare string name whole fields
        for vals in ((-1, -2), (-1.0, -2.0), (0, 2 ** 61 - 1), (-1, -2, 5), (('x', -1), ('x', -2))):
            t = (('k', 'v'),) + tuple((v, i) for i, v in enumerate(vals))
            yield Case('isunique', ('k', t))
            yield Case('isunique', (('k', 'v'), t))
            for opn in ('duplicates', 'unique', 'distinct'):
                yield Case('dedup', (opn, 'k', False, None, t, None))
        tc = (('k', 'x', 'qux', 'id', 'valid'), (1, 'a', 'p', 0, 'u'), (1, 'b', 'p', 0, 'u'), (2, 'a', 'p', 0, 'u'), (2, 'a', 'q', 0, 'u'),
              (3, 'a', 'p', 0, 'u'), (3, 'a', 'p', 1, 'u'), (4, 'a', 'p', 0, 'u'), (4, 'a', 'p', 0, 'w'))
        for inc, exc in (('qux', None), (None, 'qux'), ('valid', None), (None, 'valid'), ('x', None), (None, 'id'), (('qux',), None),
                         (None, ('valid', 'x'))):
            yield Case('dedup', ('conflicts', 'k', False, None, tc, (None, exc, inc)))
        # header-only / single-row tables, explicitly
        for hdr in (('a',), ('a', 'b'), ('a', 'b', 'c')):
            for rows in ((), ((1,) * len(hdr),)):
                t = (hdr,) + rows
                for key in (None, 'a', 0) + ((('a', 'b'),) if len(hdr) > 1 else ()):
                    for opn in ('duplicates', 'unique', 'distinct'):
                        yield Case('dedup', (opn, key, False, None, t, None))
                    yield Case('dedup', ('distinct_count', key, False, None, t, 'n'))
                    if key is not None:
                        yield Case('dedup', ('conflicts', key, False, None, t, (None, None, None)))
                        yield Case('isunique', (key, t))
        if tier == 'thorough':
            # every arrangement of run lengths up to 6 rows (exhaustive over compositions), keys of mixed types
            keyvals = [None, 0, 'a', 1.5, (1,), b'x']
            for n in range(0, 7):
                for comp in compositions(n):
                    rows = []
                    for gi, ln in enumerate(comp):
                        for j in range(ln):
                            rows.append((keyvals[gi], j % 2))
                    rng.shuffle(rows)
                    t = (('k', 'v'),) + tuple(rows)
                    for key in ('k', None, ('k', 'v')):
                        for opn in ('duplicates', 'unique', 'distinct'):
                            yield Case('dedup', (opn, key, False, rng.choice([None, 1, 2]), t, None))
                        yield Case('dedup', ('distinct_count', key, False, None, t, 'n'))

    def impl(self, case):
        import petl as etl
        if case.op == 'dedup':
            opn, key, pre, bs, t, extra = case.arg
            try:
                v = self._call(opn, key, pre, bs, t, extra, case.meta)
            except Exception as e:
                from ..core import obs_exc
                return obs_exc(e)
            return obs_rows(v)
        if case.op == 'isunique':
            key, t = case.arg
            return obs_call(lambda: etl.isunique([list(r) for r in t], key))
        raise ValueError(case.op)

    def valid(self, case):
        try:
            t = case.arg[4] if case.op == 'dedup' else case.arg[1]
            if len(t) < 1 or len(t[0]) < 1 or not all(isinstance(f, str) for f in t[0]):
                return False
            if len(set(t[0])) != len(t[0]):
                return False
            if case.op == 'dedup' and case.arg[0] == 'conflicts' and not (isinstance(case.arg[5], tuple) and len(case.arg[5]) == 3):
                return False
            return all(len(r) == len(t[0]) for r in t[1:])
        except Exception:
            return False

    def _key_ok(self, key, hdr):
        ks = key if isinstance(key, tuple) else (key,)
        for k in ks:
            if isinstance(k, bool) or not (isinstance(k, str) and k in hdr or isinstance(k, int) and 0 <= k < len(hdr)):
                return False
        return True

    def spec(self, case, impl_obs, model_obs):
        # inside the domain nothing may raise (header-only and single-row tables included)
        if case.op == 'dedup' and self.valid(case):
            opn, key, pre, bs, t, extra = case.arg
            if (key is None or self._key_ok(key, t[0])) and impl_obs[0] != 'li':
                return False
            if opn == 'conflicts' and impl_obs[0] == 'li' and key is not None and self._key_ok(key, t[0]):
                # two rows with the same key come back exactly when they disagree on a field that counts (include / exclude name
                # whole fields, whether given as a string or as a list; cells equal to `missing` never disagree)
                try:
                    want = self._conflicts_ref(key, t, extra)
                except Exception:
                    return None
                if want is not None:
                    w = sorted(codec.tree_sx(('tu', tuple(codec.canon(x) for x in r))) for r in want)
                    if sorted(codec.tree_sx(r) for r in impl_obs[1][1:]) != w:
                        return False
        if case.op == 'isunique' and impl_obs in (codec.t_bool(True), codec.t_bool(False)):
            # isunique says there is no repeated key: exactly when duplicates() has no rows
            import petl as etl
            key, t = case.arg
            try:
                ndup = len(list(etl.duplicates([list(r) for r in t], key))) - 1
            except Exception:
                return None
            return (impl_obs == codec.t_bool(True)) == (ndup == 0)
        return None

    def _conflicts_ref(self, key, t, extra):
        from petl.comparison import Comparable
        missing, exclude, include = extra
        hdr = list(t[0])
        ks = key if isinstance(key, tuple) else (key,)
        kidx = [k if isinstance(k, int) else hdr.index(k) for k in ks]
        norm = lambda x: None if x is None else (tuple(x) if isinstance(x, (list, tuple)) else (x,))   # noqa
        inc, exc = norm(include), norm(exclude)
        if inc is not None and not all(f in hdr for f in inc) or exc is not None and not all(f in hdr for f in exc):
            return None
        keynames = {hdr[i] for i in kidx}
        if (inc is not None and exc is not None) or (inc and keynames & set(inc)) or (exc and keynames & set(exc)):
            return None          # only the plain forms are judged: one of include / exclude, naming non-key fields
        counted = [i for i, f in enumerate(hdr) if i not in kidx and (inc is None or f in inc) and (exc is None or f not in exc)]
        groups = []
        for r in t[1:]:
            kv = tuple(r[i] for i in kidx)
            for g in groups:
                if Comparable(g[0]) == Comparable(kv):
                    g[1].append(tuple(r))
                    break
            else:
                groups.append((kv, [tuple(r)]))
        out = []
        for kv, rows in groups:
            # petl compares neighbouring rows of the sorted group and returns the rows of disagreeing pairs; that is
            # unambiguous for groups of at most two rows, the only ones judged here
            if len(rows) > 2:
                return None
            if len(rows) == 2 and any(rows[0][i] != rows[1][i] and rows[0][i] != missing and rows[1][i] != missing for i in counted):
                out.extend(rows)
        return out

    def spec_case(self, case, impl_obs):
        if case.op != 'dedup' or case.arg[0] != 'duplicates' or not self.valid(case) or impl_obs[0] != 'li':
            return None
        opn, key, pre, bs, t, extra = case.arg
        outs = []
        for o in ('unique', 'distinct', 'distinct_count'):
            r = obs_rows(self._call(o, key, pre, bs, t, 'n'))
            if r[0] != 'li':
                return None     # reported through spec() of that operator's own case
            outs.append(codec.uncanon(r))
        return Case('dedup_spec', (key, t, codec.uncanon(impl_obs), outs[0], outs[1], outs[2]))

    def nontrivial(self, case):
        t = case.arg[4] if case.op == 'dedup' else case.arg[1]
        return len(t) >= 3

    def finding_id(self, case, impl_obs, model_obs):
        if case.op == 'dedup' and case.arg[0] == 'distinct_count' and len(case.arg[4]) == 1:
            return 'distinct-count-header-only'
        return None


PROP = C10
