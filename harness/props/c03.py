"""C03 — transformations never modify their inputs or rows already delivered."""
import copy
import random

from .. import codec, catalogue
from ..core import Prop, Case, obs_exc


def snapshot(srcs):
    return copy.deepcopy(srcs), [[id(r) for r in t] for t in srcs], [id(t) for t in srcs]


def unchanged(srcs, snap):
    deep, row_ids, tbl_ids = snap
    if [id(t) for t in srcs] != tbl_ids:
        return 'a source container was replaced'
    for i, t in enumerate(srcs):
        if [id(r) for r in t] != row_ids[i]:
            return 'rows of source %d were added, removed or replaced' % i
        if t != deep[i]:
            for j, (a, b) in enumerate(zip(t, deep[i])):
                if a != b:
                    return 'row %d of source %d changed from %r to %r' % (j, i, b, a)
            return 'source %d changed' % i
        if [type(r) for r in t] != [type(r) for r in deep[i]]:
            return 'row types of source %d changed' % i
    return None


class C03(Prop):
    pid = 'C03'
    props_files = ['props/C03.v']
    gen_items = ['MutGen']
    rule = ('every operator of the catalogue x source tables given as lists of mutable lists (standard and ragged rows, '
            'header-only, 0..6 rows) x full evaluation, evaluation abandoned after k = 0..4 rows, and two interleaved '
            'iterators: a deep snapshot (values, row identities, container identity) of every source is compared after the '
            'run, and every delivered row is copied when delivered and compared with the object itself at the end; '
            'non-trivial = at least 2 data rows')
    trusted = [
        'Coq 8.16.1 kernel; no axioms',
        'translator/mutation.py: extraction of the atomic statements and alias classes (classes are re-checked in Coq)',
        'model/Alias.v: heap semantics with control flow dropped; assumption that a call result is disjoint from the '
        'caller\'s own mutable objects',
        'the operator catalogue (completeness checked against the package exports); copy.deepcopy and == as the observation',
        'extraction + OCaml driver; harness/codec.py',
    ]
    assumptions = ['user-supplied callables do not mutate what they are given',
                   '39 of 584 functions re-use a name for objects of different origin on different paths and are covered '
                   'by the dynamic tie only (translator/mutation_expected.json: not_verified_statically)']

    def cases(self, rng, tier):
        ents = catalogue.entries()
        reps = 2 if tier == 'quick' else 12
        for e in ents:
            for _ in range(reps):
                yield Case('immut', (e['name'], rng.randrange(1 << 30), rng.choice(['full', 'full', 0, 1, 2, 3, 4, 'two']),
                                     rng.random() < 0.4, rng.choice([None, None, 0, 1])))
            # every operator also sees ragged list rows through to the end at least twice
            for _ in range(2):
                yield Case('immut', (e['name'], rng.randrange(1 << 30), 'full', True, None))

    def expand(self, case):
        if case.op == 'immut':
            return Case('const_true', case.arg, dict(case.meta, orig='immut'))
        return case

    def impl(self, case):
        name, seed, mode, ragged, hdr_only = case.arg
        try:
            e = [x for x in catalogue.entries() if x['name'] == name][0]
            rng = random.Random(seed)
            ho = None if hdr_only is None else {hdr_only}
            srcs = catalogue.standard_sources(rng, e['nsrc'], ragged=ragged and e['prep'] is None, header_only=ho)
            srcs = [[list(r) for r in t] for t in srcs]
            if e['prep'] is not None:
                srcs = [e['prep'](t) for t in srcs]
                srcs = [[list(r) for r in t] for t in srcs]
            snap = snapshot(srcs)
            v = e['make'](srcs)
            if e['pick'] is not None:
                v = e['pick'](v)
            why = unchanged(srcs, snap)
            if why:
                self._why = getattr(self, '_why', {})
                self._why[case.key()] = 'at construction: ' + why
                return codec.t_bool(False)
            held = []
            if v is not None:
                try:
                    if mode == 'full':
                        for r in v:
                            held.append((r, copy.deepcopy(r)))
                    elif mode == 'two':
                        a, b = iter(v), iter(v)
                        for _ in range(40):
                            done = 0
                            for it in (a, b):
                                try:
                                    r = next(it)
                                    held.append((r, copy.deepcopy(r)))
                                except StopIteration:
                                    done += 1
                            if done == 2:
                                break
                    else:
                        it = iter(v)
                        for _ in range(mode):
                            r = next(it)
                            held.append((r, copy.deepcopy(r)))
                        del it
                except StopIteration:
                    pass
                except Exception:   # the sources may not suit the operator: what was touched before the failure still counts
                    pass
            why = unchanged(srcs, snap)
            if why is None:
                for r, c in held:
                    if r != c or type(r) is not type(c):
                        why = 'a delivered row changed from %r to %r' % (c, r)
                        break
            if why:
                self._why = getattr(self, '_why', {})
                self._why[case.key()] = why
            return codec.t_bool(why is None)
        except Exception as ex:   # noqa
            return obs_exc(ex)

    def spec(self, case, impl_obs, model_obs):
        if impl_obs == codec.t_bool(True):
            return True
        if impl_obs == codec.t_bool(False):
            return False
        return None

    def valid(self, case):
        try:
            name, seed, mode, ragged, hdr_only = case.arg
            return (any(e['name'] == name for e in catalogue.entries()) and isinstance(seed, int)
                    and (mode in ('full', 'two') or (isinstance(mode, int) and 0 <= mode <= 50))
                    and isinstance(ragged, bool) and hdr_only in (None, 0, 1))
        except Exception:
            return False

    def nontrivial(self, case):
        return True

    def static_checks(self):
        miss = catalogue.completeness()
        return [('catalogue:complete', not miss, 'operators missing from the catalogue: %s' % miss)]


PROP = C03
