"""C01 — table views are re-iterable and their iterators are mutually independent."""
import itertools
import random
import tempfile

from .. import codec, gen, catalogue
from ..core import Prop, Case, obs_exc


def safe_canon(x):
    """canon, with values outside the codec rendered as text (sets sorted) so that rows stay comparable."""
    try:
        return codec.canon(x)
    except codec.Unsupported:
        if isinstance(x, (set, frozenset)):
            return codec.t_str('<set %s>' % sorted(map(repr, x)))
        if isinstance(x, dict):
            return codec.t_str('<dict %s>' % sorted((repr(k), repr(v)) for k, v in x.items()))
        if isinstance(x, (tuple, list)):
            return ('tu' if isinstance(x, tuple) else 'li', tuple(safe_canon(y) for y in x))
        return codec.t_str('<%s %r>' % (type(x).__name__, x))


def enc_out_row(r):
    try:
        cells = tuple(safe_canon(x) for x in r)
    except TypeError:
        cells = (safe_canon(r),)
    return ('tu', (codec.t_str('r'), ('tu', cells)))


STOP = ('tu', (codec.t_str('s'),))


def enc_exc(e, generic=False):
    if generic:
        return ('tu', (codec.t_str('e'),))
    return ('tu', (codec.t_str('e'), obs_exc(e)))


def run_schedule(view, ops, generic_exc=False):
    """Run a schedule on a real view; returns the trace as a list of (k, out-tree)."""
    its = []
    trace = []
    for op in ops:
        if op[0] == 0:
            try:
                its.append(iter(view))
            except Exception as e:   # noqa
                its.append(None)
                trace.append((len(its) - 1, enc_exc(e, generic_exc)))
        elif op[0] == 1:
            k = op[1]
            if k < len(its) and its[k] is not None:
                try:
                    trace.append((k, enc_out_row(next(its[k]))))
                except StopIteration:
                    trace.append((k, STOP))
                except Exception as e:   # noqa
                    trace.append((k, enc_exc(e, generic_exc)))
        elif op[0] == 2:
            k = op[1]
            if k < len(its) and its[k] is not None:
                c = getattr(its[k], 'close', None)
                if c is not None:
                    try:
                        c()
                    except Exception:   # noqa
                        pass
                its[k] = None
    return trace


def solo(view, generic_exc=False):
    outs = []
    try:
        for r in view:
            outs.append(enc_out_row(r))
        outs.append(STOP)
    except Exception as e:   # noqa
        outs.append(enc_exc(e, generic_exc))
    return outs


def random_ops(rng, maxlen=14, maxiters=3):
    ops = []
    n = 0
    live = []
    for _ in range(rng.randint(3, maxlen)):
        r = rng.random()
        if n < maxiters and (n == 0 or r < 0.25):
            ops.append((0,))
            live.append(n)
            n += 1
        elif live and r < 0.32:
            k = rng.choice(live)
            ops.append((2, k))
            live.remove(k)
        elif live:
            ops.append((1, rng.choice(live)))
        else:
            ops.append((0,))
            live.append(n)
            n += 1
    return tuple(ops)


def all_ops(length, maxiters=3):
    """All schedules of the given length over {new, next k} with at most maxiters iterators (creation is a step)."""
    def rec(prefix, n):
        if len(prefix) == length:
            yield tuple(prefix)
            return
        if n < maxiters:
            for x in rec(prefix + [(0,)], n + 1):
                yield x
        for k in range(n):
            for x in rec(prefix + [(1, k)], n):
                yield x
    return rec([], 0)


def trace_tree(trace):
    return ('li', tuple(('tu', (codec.t_int(k), o)) for k, o in trace))


def prefix_ok(trace, sol):
    """Every iterator's outputs are a prefix of the solo pass, possibly followed by StopIteration only."""
    per = {}
    for k, o in trace:
        per.setdefault(k, []).append(o)
    for k, outs in per.items():
        n = min(len(outs), len(sol))
        if outs[:n] != sol[:n]:
            return False
        if any(o != STOP for o in outs[len(sol):]):
            return False
        if len(outs) > len(sol) and sol[-1] != STOP:
            # after an exception a generator is finished: further next() give StopIteration
            pass
    return True


class C01(Prop):
    pid = 'C01'
    props_files = ['props/C01.v']
    gen_items = ['ComparableGen', 'AsIndicesGen', 'Catalogue']
    rule = ('every view constructor of the operator catalogue (171 call forms) + sort with memory/file cache + cache(n) + '
            'fromdicts(generator) + randomtable/dummytable x schedules of __iter__/next/close on up to 3 iterators (iterator '
            'creation is a schedulable step), partial consumption and abandonment, followed by a fresh pass; thorough '
            'enumerates ALL schedules of length <= 7 for the stateful views; non-trivial = at least 2 iterators interleaved')
    trusted = [
        'Coq 8.16.1 kernel; no axioms',
        'translator/facts.py (Catalogue.v: self-attribute writes and global effects reachable from __iter__; fail-closed when '
        'self escapes)',
        'model/Machines.v hand-written machines at next() granularity (tied by this schedule correspondence)',
        'CPython generator semantics (suspension, finalisation) assumed; validated by the schedules run on the real views',
        'extraction + OCaml driver; harness/codec.py',
    ]
    assumptions = ['sources are not edited while iterators are live (tee* views are outside the guarantee)']

    # ---- cases ------------------------------------------------------------------------------------------------
    def cases(self, rng, tier):
        nsched = 60 if tier == 'quick' else 400
        # directed schedules: an iterator created from the cache while an older, not yet started one is pending;
        # alternating iterators while the memo is being filled; an iterator outliving an exhausted one
        hot = [((0,), (0,), (1, 1), (1, 1), (0,), (1, 0), (1, 2), (1, 2), (1, 2), (1, 0), (1, 0)),
               ((0,), (0,), (1, 0), (1, 1), (1, 0), (1, 1), (1, 0), (1, 1), (1, 0), (1, 1), (0,), (1, 2), (1, 2), (1, 2)),
               ((0,), (1, 0), (1, 0), (1, 0), (1, 0), (1, 0), (0,), (0,), (1, 2), (1, 1), (1, 2), (1, 1), (1, 2), (1, 1)),
               ((0,), (0,), (0,), (1, 2), (1, 2), (1, 2), (1, 2), (1, 2), (1, 1), (1, 0), (1, 1), (1, 0), (1, 1), (1, 0)),
               ((0,), (1, 0), (0,), (1, 1), (2, 0), (1, 1), (1, 1), (0,), (1, 2), (1, 2), (1, 2), (1, 2)),
               # one iterator three rows ahead, the lagging one reads an old record, then the leader draws a new row
               ((0,), (0,), (1, 0), (1, 0), (1, 0), (1, 0), (1, 1), (1, 1), (1, 0), (1, 1), (1, 1), (1, 1), (1, 1), (0,),
                (1, 2), (1, 2), (1, 2), (1, 2), (1, 2)),
               ((0,), (1, 0), (1, 0), (1, 0), (0,), (1, 1), (1, 0), (1, 0), (1, 1), (1, 1), (1, 1), (1, 1), (1, 1))]
        small = (('k', 'v'), (1, 'x'), (0, 'y'), (1, 'z'))
        longer = (('k', 'v'), (1, 'a'), (0, 'b'), (1, 'c'), (2, 'd'), (0, 'e'))
        for ops in hot[-2:]:
            yield Case('dg_run', (longer[0], longer[1:], ops))
            for n in (None, 2, 3):
                yield Case('cv_run', (n, longer, ops))
        for ops in hot:
            for bs in (None, 2):
                yield Case('sv_run', ('k', False, bs, True, small, ops))
            for n in (None, 2):
                yield Case('cv_run', (n, small, ops))
            yield Case('dg_run', (small[0], small[1:], ops))
        # stateful: sort
        for _ in range(nsched):
            t = gen.freeze(gen.table(rng, maxrows=4, ncols=2, alphabet=[None, 0, 1, 'a']))
            yield Case('sv_run', (rng.choice([t[0][0], None]), rng.random() < 0.3, rng.choice([None, 1, 2, 3]),
                                  rng.random() < 0.8, t, random_ops(rng)))
        for _ in range(nsched):
            t = gen.freeze(gen.table(rng, maxrows=4, ncols=2, alphabet=[0, 1, 'a']))
            yield Case('cv_run', (rng.choice([None, None, 0, 1, 2, 3, 5]), t, random_ops(rng)))
        for _ in range(nsched // 2):
            t = gen.freeze(gen.table(rng, maxrows=4, ncols=2, alphabet=[0, 1, 'a']))
            yield Case('dg_run', (t[0], t[1:], random_ops(rng)))
        if tier == 'thorough':
            small = (('k', 'v'), (1, 'x'), (0, 'y'), (1, 'z'))
            for ln in range(2, 8):
                for ops in all_ops(ln):
                    yield Case('sv_run', ('k', False, None, True, small, ops))
                    yield Case('sv_run', ('k', False, 2, True, small, ops))
                    yield Case('cv_run', (None, small, ops))
                    yield Case('cv_run', (2, small, ops))
                    if ln <= 6:
                        yield Case('dg_run', (small[0], small[1:], ops))
        # the whole catalogue as stateless cursors (the hash joins / random tables included)
        ents = catalogue.entries()
        reps = 1 if tier == 'quick' else 6
        # two directed schedules for every form: both iterators started, one runs to its end and is closed while the other is
        # in mid-table, then the other one finishes (in either order of creation)
        d1 = ((0,), (0,), (1, 0), (1, 1), (1, 1)) + ((1, 0),) * 8 + ((2, 0),) + ((1, 1),) * 8
        d2 = ((0,), (0,), (1, 1), (1, 0), (1, 0)) + ((1, 1),) * 8 + ((2, 1),) + ((1, 0),) * 8
        for e in ents:
            for _ in range(reps):
                seed = rng.randrange(1 << 30)
                yield Case('stateless_run', (e['name'], seed, random_ops(rng, maxlen=12)))
            yield Case('stateless_run', (e['name'], rng.randrange(1 << 30), d1))
            yield Case('stateless_run', (e['name'], rng.randrange(1 << 30), d2))
        for nm in ('randomtable', 'dummytable'):
            yield Case('same_view', (nm, rng.randrange(1 << 20)))
        for nm in ('randomtable', 'dummytable'):
            for _ in range(3 * reps):
                yield Case('stateless_run', (nm, rng.randrange(1 << 30), random_ops(rng, maxlen=12)))

    # ---- implementation ----------------------------------------------------------------------------------------
    def _build_named(self, name, seed):
        import petl as etl
        if name == 'randomtable':
            return lambda: etl.randomtable(3, 4, seed=seed)
        if name == 'dummytable':
            return lambda: etl.dummytable(4, seed=seed)
        e = [x for x in catalogue.entries() if x['name'] == name][0]
        srcs = catalogue.standard_sources(random.Random(seed), e['nsrc'])
        return lambda: catalogue.build(e, [[list(r) for r in t] for t in srcs])

    def _solo_for(self, case):
        name, seed, ops = case.arg
        mk = self._build_named(name, seed)
        v = mk()
        return solo(v, generic_exc=True) if v is not None else [STOP]

    def model_arg(self, case):
        return None

    def impl(self, case):
        import petl as etl
        if case.op == 'const_true':
            try:
                return codec.t_bool(self._same_view(*case.arg))
            except Exception as e:   # noqa
                return enc_exc(e)
        if case.op == 'sv_run':
            key, rev, bs, cache, t, ops = case.arg
            with tempfile.TemporaryDirectory(dir='/var/tmp') as td:
                v = etl.sort([list(r) for r in t], key, reverse=rev, buffersize=bs, cache=cache, tempdir=td)
                tr = run_schedule(v, ops)
                fresh = solo(v)
                del v
            self._store(case, tr, fresh)
            return trace_tree(tr)
        if case.op == 'cv_run':
            n, t, ops = case.arg
            v = etl.wrap([tuple(r) for r in t]).cache(n)
            tr = run_schedule(v, ops)
            memo = ('li', tuple(('tu', tuple(codec.canon(x) for x in r)) for r in v.cache))
            fresh = solo(v)
            self._store(case, tr, fresh)
            return ('tu', (trace_tree(tr), memo))
        if case.op == 'dg_run':
            hdr, rows, ops = case.arg
            dicts = [dict(zip(hdr, r)) for r in rows]
            v = etl.fromdicts((d for d in dicts), header=list(hdr))
            tr = run_schedule(v, ops)
            fresh = solo(v)
            self._store(case, tr, fresh)
            del v
            return trace_tree(tr)
        if case.op == 'stateless_run':
            if 'orig' in case.meta:
                name, seed = case.meta['orig']
                ops = case.arg[1]
            else:
                name, seed, ops = case.arg
            mk = self._build_named(name, seed)
            v = mk()
            if v is None:
                v = ()          # e.g. facet() of a table without data rows: no table at all
            tr = run_schedule(v, ops, generic_exc=True)
            fresh = solo(v, generic_exc=True)
            self._store(case, tr, fresh)
            return trace_tree(tr)
        raise ValueError(case.op)

    def _store(self, case, tr, fresh):
        if not hasattr(self, '_lasts'):
            self._lasts = {}
        if len(self._lasts) > 5000:
            self._lasts.clear()
        self._lasts[case.key()] = (tr, fresh)

    # the model of a stateless view needs the solo pass of a FRESH identical view as its input
    def _same_view(self, name, n):
        """a table built WITHOUT a seed: whatever it is, the same view object must say the same thing to every iterator"""
        import petl as etl
        import random as _r
        v = etl.randomtable(3, 5) if name == 'randomtable' else etl.dummytable(5)
        first = list(v)
        _r.random()
        a, b = iter(v), iter(v)
        inter = []
        for _ in range(4):
            inter.append((next(a), next(b)))
            _r.random()
        return list(v) == first and all(x == y for x, y in inter) and [x for x, _ in inter] == first[:4] and list(v) == first

    def expand(self, case):
        if case.op == 'same_view':
            return Case('const_true', case.arg, dict(case.meta, orig='same_view'))
        if case.op == 'stateless_run' and 'orig' not in case.meta:
            sol = self._solo_for(case)
            c = Case('stateless_run', (codec.uncanon(('li', tuple(sol))), case.arg[2]), dict(case.meta, orig=list(case.arg[:2])))
            return c
        return case

    def spec(self, case, impl_obs, model_obs):
        if case.op == 'const_true':
            return impl_obs == codec.t_bool(True)
        # the property itself, on the implementation's trace: prefix of a solo pass of a fresh identical view,
        # and a fresh pass after the schedule equals the solo pass
        tr, fresh = getattr(self, '_lasts', {}).get(case.key(), (None, None))
        if tr is None:
            return None
        if case.op == 'sv_run':
            key, rev, bs, cache, t, ops = case.arg
            import petl as etl
            sol = solo(etl.sort([list(r) for r in t], key, reverse=rev))
        elif case.op == 'cv_run':
            sol = [enc_out_row(r) for r in case.arg[1]] + [STOP]
        elif case.op == 'dg_run':
            sol = [enc_out_row(case.arg[0])] + [enc_out_row(r) for r in case.arg[1]] + [STOP]
        else:
            sol = [codec.canon(x) for x in case.arg[0]]
            sol = [('tu', tuple(x[1])) if x[0] == 'tu' else x for x in sol]
        return prefix_ok(tr, sol) and fresh == sol

    def valid(self, case):
        if case.op in ('const_true', 'same_view'):
            return len(case.arg) == 2 and case.arg[0] in ('randomtable', 'dummytable')
        try:
            ops = case.arg[-1]
            if not ops or ops[0] != (0,):
                return False
            if case.op == 'stateless_run':
                if 'orig' not in case.meta:
                    return True
                # the solo pass is derived from (operator, seed): the shrinker may only touch the schedule
                name, seed = case.meta['orig']
                sol = self._solo_for(Case('stateless_run', (name, seed, ops)))
                return codec.canon(case.arg[0]) == ('li', tuple(sol))
            t = case.arg[-2] if case.op != 'dg_run' else (case.arg[0],) + tuple(case.arg[1])
            return len(t) >= 1 and len(t[0]) >= 1 and all(isinstance(f, str) for f in t[0]) \
                and all(len(r) == len(t[0]) for r in t[1:]) and len(set(t[0])) == len(t[0])
        except Exception:
            return False

    def nontrivial(self, case):
        if case.op in ('const_true', 'same_view'):
            return True
        ops = case.arg[-1]
        return sum(1 for o in ops if o[0] == 0) >= 2


PROP = C01
