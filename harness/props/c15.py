"""C15 — writing a table and reading it back returns the same table."""
import csv
import gzip
import bz2
import itertools
import os
import tempfile

from .. import codec, gen
from ..core import Prop, Case, obs_exc, obs_call

QUOTING = {0: csv.QUOTE_MINIMAL, 1: csv.QUOTE_ALL, 2: csv.QUOTE_NONNUMERIC, 3: csv.QUOTE_NONE}
NASTY = ['', 'a', 'a,b', 'say "hi"', '"', '""', 'line\nbreak', 'cr\rhere', 'crlf\r\nx', '\n', '\r', ' lead', 'trail ', 'é',
         'tab\there', 'a;b', "it's", '\x00nul', ',', '",', 'x"y,z\n', '|', '日本', 'a\r', '\rb']


def dialects():
    for delim, quote in ((',', '"'), ('\t', '"'), (';', "'"), ('|', '"'), (',', "'")):
        for q in (0, 1, 2, 3):
            yield delim, quote, q


def cell_text(v):
    return '' if v is None else str(v)


class C15(Prop):
    pid = 'C15'
    props_files = ['props/C15.v']
    gen_items = []
    rule = ('tables of adversarial strings (delimiters, quotes, CR, LF, CRLF, NUL, non-ASCII), None / int / bool cells, ragged '
            'and empty rows x 5 delimiter/quotechar pairs x 4 quoting modes: model writer vs bytes of tocsv, model reader vs '
            'fromcsv on written AND malformed text; round trips tocsv/fromcsv, topickle/frompickle, tojson/fromjson (array and '
            'lines), tojsonarrays x encodings (utf-8, utf-16, latin-1, cp1252 where encodable) x source kinds (path, .gz, '
            '.bz2, MemorySource) x write_header / header flags x append sequences; non-trivial = at least 2 rows')
    trusted = [
        'Coq 8.16.1 kernel; no axioms',
        'model/Csv.v hand transcription of CPython _csv (join_append_data, writerow, parse_process_char, Reader_iternext) '
        'and of TextIOWrapper(newline="") line splitting; tied by this correspondence run on written and malformed text',
        'text codecs, gzip/bz2, pickle and json are exercised as black boxes (round trips on the real code only)',
        'extraction + OCaml driver; harness/codec.py',
    ]
    assumptions = ['delimiter and quote character are distinct, single, and neither CR nor LF; line terminator and doublequote '
                   'at their defaults', 'QUOTE_NONNUMERIC round trips are claimed for text cells only (unquoted fields are '
                                       'read back as floats by the csv module)']

    def _rows(self, rng, typed=False, maxrows=5):
        n = rng.choice([0, 1, 2, 3, maxrows])
        rows = []
        for _ in range(n):
            w = rng.choice([0, 1, 1, 2, 3])
            row = []
            for _j in range(w):
                r = rng.random()
                if typed and r < 0.3:
                    row.append(rng.choice([None, 0, 12, -3, True, False]))
                else:
                    row.append(rng.choice(NASTY))
            rows.append(tuple(row))
        return tuple(rows)

    def cases(self, rng, tier):
        n = 40 if tier == 'quick' else 600
        dl = list(dialects())
        for _ in range(n):
            delim, quote, q = rng.choice(dl)
            rows = self._rows(rng, typed=(q != 2))
            if q == 2:
                rows = tuple(tuple(c for c in r) for r in rows)
            yield Case('csv_write', (delim, quote, q, rows))
            # reader on text produced by the real writer, and on malformed text
            yield Case('csv_parse', (delim, quote, rng.choice([0, 1, 3]),
                                     ''.join(rng.choice(['a', 'b', delim, quote, '\r', '\n', '\r\n', ' ', 'é', quote + quote])
                                             for _ in range(rng.randint(0, 14)))))
            yield Case('roundtrip', ('csv', delim, quote, q, rng.choice(['utf-8', 'utf-8', 'utf-16', 'latin-1', 'cp1252']),
                                     rng.choice(['path', 'gz', 'bz2', 'mem']), rng.random() < 0.8, rows))
            yield Case('roundtrip', ('csv_append', delim, quote, q, rng.choice(['utf-8', 'utf-8', 'utf-16', 'utf-8-sig', 'utf-32']),
                                     rng.choice(['path', 'gz', 'bz2', 'mem']), self._rows(rng, True), self._rows(rng, True)))
            yield Case('roundtrip', ('json_ragged', rng.random() < 0.5, rng.choice(['path', 'mem']),
                                     tuple(tuple(rng.choice(['x', 1, None, 'é']) for _ in range(rng.choice([0, 1, 2, 3, 3])))
                                           for _ in range(rng.choice([1, 2, 4])))))
            yield Case('roundtrip', ('csv_noheader', rng.choice([(), ('a', 'b')]), rng.choice(['path', 'mem']),
                                     self._rows(rng, False, 3)))
            yield Case('roundtrip', ('tsv_append', rng.choice(['utf-8', 'latin-1', 'cp1252', 'utf-16-le']),
                                     rng.choice(['path', 'gz', 'mem']), self._rows(rng, True), self._rows(rng, True)))
            yield Case('roundtrip', ('rewrite', rng.choice(['csv', 'tsv', 'pickle', 'json', 'text']), rng.choice(['path', 'mem', 'gz']),
                                     self._rows(rng, False, 6), self._rows(rng, False, 2)))
            pt = gen.freeze(gen.table(rng, maxrows=4, ragged=True))
            if rng.random() < 0.4:
                # field names that are not text travel as they are
                pt = (tuple(rng.choice([2019, None, 2.5, ('a', 1), b'f', True]) if rng.random() < 0.6 else f for f in pt[0]),) + pt[1:]
            yield Case('roundtrip', ('pickle', rng.choice(['path', 'gz', 'bz2', 'mem']), rng.random() < 0.8, pt))
            yield Case('roundtrip', ('pickle_append', rng.choice(['path', 'mem']),
                                     gen.freeze(gen.table(rng, maxrows=3, ragged=True)),
                                     gen.freeze(gen.table(rng, maxrows=3, ragged=True))))
            jt = (('a', 'b', 'c'),) + tuple((rng.choice(NASTY + ['\ud800x', 'a\udfff']), rng.choice([1, 2.5, None, True, 'x']),
                                             rng.choice([None, 0, 'é']))
                                            for _ in range(rng.choice([1, 2, 4])))
            yield Case('roundtrip', ('json', rng.choice(['path', 'gz', 'mem']), rng.random() < 0.5, jt))
            yield Case('roundtrip', ('jsonarrays', rng.choice(['path', 'mem']), jt))
        # a genuine U+FEFF (and a backslash) at the very start of the file: first data cell with write_header=False
        for enc in ('utf-8', 'utf8', 'UTF-8', 'utf-16'):
            for sk in ('path', 'mem', 'gz'):
                for q in (0, 1):
                    yield Case('roundtrip', ('csv', ',', '"', q, enc, sk, False, (('\ufeffx', 'y'), ('a', '\ufeff'), ('\\', 'b\\c'))))
        if tier == 'thorough':
            for delim, quote, q in dl:
                for a, b in itertools.product(NASTY, repeat=2):
                    yield Case('csv_write', (delim, quote, q, ((a, b), (b,), ())))

    # ---- implementation -----------------------------------------------------------------------------------------------
    def _source(self, kind, td, name='f'):
        import petl as etl
        if kind == 'mem':
            return etl.MemorySource(), None
        ext = {'path': '.dat', 'gz': '.gz', 'bz2': '.bz2'}[kind]
        p = os.path.join(td, name + ext)
        return p, p

    def _bytes_of(self, src, path, kind):
        if path is None:
            return src.getvalue()
        if kind == 'gz':
            with gzip.open(path, 'rb') as f:
                return f.read()
        if kind == 'bz2':
            with bz2.open(path, 'rb') as f:
                return f.read()
        with open(path, 'rb') as f:
            return f.read()

    def _reader_source(self, src, path):
        import petl as etl
        if path is None:
            return etl.MemorySource(src.getvalue())
        return path

    def impl(self, case):
        import petl as etl
        try:
            if case.op == 'csv_write':
                delim, quote, q, rows = case.arg
                sink = etl.MemorySource()
                t = [('h',)] + [list(r) for r in rows]
                try:
                    etl.tocsv(t, sink, encoding='utf-8', write_header=False, delimiter=delim, quotechar=quote,
                              quoting=QUOTING[q])
                except csv.Error:
                    return codec.t_err('Error')
                return codec.canon(sink.getvalue().decode('utf-8'))
            if case.op == 'csv_parse':
                delim, quote, q, text = case.arg
                try:
                    rows = list(etl.fromcsv(etl.MemorySource(text.encode('utf-8')), encoding='utf-8', delimiter=delim,
                                            quotechar=quote, quoting=QUOTING[q]))
                except csv.Error:
                    return codec.t_err('Error')
                return ('li', tuple(('tu', tuple(codec.canon(x) for x in r)) for r in rows))
            if case.op in ('roundtrip', 'const_true'):
                with tempfile.TemporaryDirectory(dir='/var/tmp') as td:
                    return codec.t_bool(self._roundtrip(etl, td, case.arg))
        except Exception as e:   # noqa
            return obs_exc(e)
        raise ValueError(case.op)

    def _roundtrip(self, etl, td, arg):
        kind = arg[0]
        if kind == 'csv':
            _, delim, quote, q, enc, sk, write_header, rows = arg
            t = [('h1', 'h2')] + [list(r) for r in rows]
            kw = dict(delimiter=delim, quotechar=quote, quoting=QUOTING[q])
            text_ok = all(self._encodable(cell_text(c), enc) for r in t for c in r)
            if not text_ok:
                return True
            if q == 3 and self._qnone_refuses(t, delim, quote):
                return True          # QUOTE_NONE cannot represent these cells (csv.Error): outside the claim
            if q == 2 and any(not isinstance(c, str) and c is not None for r in t for c in r):
                return True
            src, path = self._source(sk, td)
            etl.tocsv(t, src, encoding=enc, write_header=write_header, **kw)
            back = list(etl.fromcsv(self._reader_source(src, path), encoding=enc, **kw))
            want = [tuple(cell_text(c) for c in r) for r in (t if write_header else t[1:])]
            if back != want:
                return False
            # header= on read adds exactly the header row
            back2 = list(etl.fromcsv(self._reader_source(src, path), encoding=enc, header=['x', 'y'], **kw))
            return back2 == [('x', 'y')] + want
        if kind == 'csv_append':
            _, delim, quote, q, enc, sk, rows1, rows2 = arg
            kw = dict(delimiter=delim, quotechar=quote, quoting=QUOTING[q])
            t1 = [('h1', 'h2')] + [list(r) for r in rows1]
            t2 = [('h1', 'h2')] + [list(r) for r in rows2]
            cells = [c for t in (t1, t2) for r in t for c in r]
            if q == 3 and self._qnone_refuses(t1 + t2, delim, quote):
                return True
            src, path = self._source(sk, td, 'a')
            etl.tocsv(t1, src, encoding=enc, **kw)
            etl.appendcsv(t2, src, encoding=enc, **kw)
            both, p2 = self._source(sk, td, 'b')
            etl.tocsv(t1 + t2[1:], both, encoding=enc, **kw)
            return self._bytes_of(src, path, sk) == self._bytes_of(both, p2, sk)
        if kind == 'json_ragged':
            # short rows are written with None for the fields they lack, long rows are trimmed
            _, lines, sk, rows = arg
            hdr = ('a', 'b', 'c')
            t = [hdr] + [list(r) for r in rows]
            src, path = self._source(sk, td)
            etl.tojson(t, src, lines=lines)
            back = list(etl.fromjson(self._reader_source(src, path), lines=lines, header=list(hdr)))
            want = [hdr] + [tuple((r[i] if i < len(r) else None) for i in range(3)) for r in rows]
            if back != want:
                return False
            # every record carries every field, so the fields can be rediscovered from the file alone
            back2 = list(etl.fromjson(self._reader_source(src, path), lines=lines))
            return back2 == want
        if kind == 'csv_noheader':
            # written without its header and read back with the header supplied (also an empty one)
            _, hdr, sk, rows = arg
            rows = [tuple(cell_text(c) for c in r) for r in rows]
            t = [tuple(hdr)] + rows
            src, path = self._source(sk, td)
            etl.tocsv(t, src, encoding='utf-8', write_header=False)
            back = list(etl.fromcsv(self._reader_source(src, path), encoding='utf-8', header=hdr))
            return back == [tuple(hdr)] + rows
        if kind == 'tsv_append':
            _, enc, sk, rows1, rows2 = arg
            t1 = [('h1', 'h2')] + [list(r) for r in rows1]
            t2 = [('h1', 'h2')] + [list(r) for r in rows2]
            if not all(self._encodable(cell_text(c), enc) for t in (t1, t2) for r in t for c in r):
                return True
            src, path = self._source(sk, td, 'a')
            etl.totsv(t1, src, encoding=enc)
            etl.appendtsv(t2, src, encoding=enc)
            back = list(etl.fromtsv(self._reader_source(src, path), encoding=enc))
            want = [tuple(cell_text(c) for c in r) for r in t1 + t2[1:]]
            return back == want
        if kind == 'rewrite':
            # writing to a target that already holds a (longer) table replaces it
            _, fmt, sk, rows1, rows2 = arg
            t1 = [('h1', 'h2')] + [[cell_text(c) for c in r] for r in rows1]
            t2 = [('h1', 'h2')] + [[cell_text(c) for c in r] for r in rows2]
            src, path = self._source(sk, td, 'a')
            rect = lambda t: [r for r in t if len(r) == 2]   # noqa
            if fmt == 'csv':
                etl.tocsv(t1, src, encoding='utf-8'); etl.tocsv(t2, src, encoding='utf-8')   # noqa
                return list(etl.fromcsv(self._reader_source(src, path), encoding='utf-8')) == [tuple(r) for r in t2]
            if fmt == 'tsv':
                etl.totsv(t1, src, encoding='utf-8'); etl.totsv(t2, src, encoding='utf-8')   # noqa
                return list(etl.fromtsv(self._reader_source(src, path), encoding='utf-8')) == [tuple(r) for r in t2]
            if fmt == 'pickle':
                etl.topickle(t1, src); etl.topickle(t2, src)   # noqa
                return list(etl.frompickle(self._reader_source(src, path))) == [tuple(r) for r in t2]
            if fmt == 'json':
                etl.tojson(rect(t1), src); etl.tojson(rect(t2), src)   # noqa
                back = list(etl.fromjson(self._reader_source(src, path), header=['h1', 'h2']))
                return back == [tuple(r) for r in rect(t2)]
            if fmt == 'text':
                kw = dict(encoding='utf-8', template='{h1}|{h2}\n', prologue='P\n', epilogue='E\n')
                etl.totext(rect(t1), src, **kw); etl.totext(rect(t2), src, **kw)   # noqa
                data = self._bytes_of(src, path, sk).decode('utf-8')
                return data == 'P\n' + ''.join('%s|%s\n' % tuple(r) for r in rect(t2)[1:]) + 'E\n'
            raise ValueError(fmt)
        if kind == 'pickle':
            _, sk, write_header, t = arg
            src, path = self._source(sk, td)
            etl.topickle([list(r) for r in t], src, write_header=write_header)
            back = list(etl.frompickle(self._reader_source(src, path)))
            want = [tuple(r) for r in (t if write_header else t[1:])]
            return back == want and [[type(x) for x in r] for r in back] == [[type(x) for x in r] for r in want]
        if kind == 'pickle_append':
            _, sk, t1, t2 = arg
            src, path = self._source(sk, td, 'a')
            etl.topickle([list(r) for r in t1], src)
            etl.appendpickle([list(r) for r in t2], src)
            back = list(etl.frompickle(self._reader_source(src, path)))
            return back == [tuple(r) for r in t1] + [tuple(r) for r in t2[1:]]
        if kind == 'json':
            _, sk, lines, t = arg
            src, path = self._source(sk, td)
            etl.tojson([list(r) for r in t], src, lines=lines)
            back = list(etl.fromjson(self._reader_source(src, path), lines=lines, header=list(t[0])))
            return back == [tuple(r) for r in t]
        if kind == 'jsonarrays':
            _, sk, t = arg
            import json
            src, path = self._source(sk, td)
            etl.tojsonarrays([list(r) for r in t], src)
            data = json.loads(self._bytes_of(src, path, sk).decode('utf-8'))
            if [tuple(r) for r in data] != [tuple(r) for r in t[1:]]:     # data rows only by default
                return False
            src2, path2 = self._source(sk, td, 'h')
            etl.tojsonarrays([list(r) for r in t], src2, output_header=True)
            data2 = json.loads(self._bytes_of(src2, path2, sk).decode('utf-8'))
            return [tuple(r) for r in data2] == [tuple(r) for r in t]
        raise ValueError(kind)

    @staticmethod
    def _qnone_refuses(t, delim, quote):
        # the csv writer raises csv.Error (loudly, nothing is lost silently) under QUOTE_NONE for a cell containing a special
        # character and for a one-cell row whose cell is empty ("single empty field record must be quoted")
        return (any(ch in cell_text(c) for r in t for c in r for ch in (delim, quote, '\r', '\n'))
                or any(len(r) == 1 and cell_text(r[0]) == '' for r in t))

    @staticmethod
    def _encodable(s, enc):
        try:
            s.encode(enc)
            return True
        except UnicodeError:
            return False

    def expand(self, case):
        if case.op == 'roundtrip':
            return Case('const_true', case.arg, dict(case.meta, orig='roundtrip'))
        return case

    def spec(self, case, impl_obs, model_obs):
        if case.op == 'const_true':
            return impl_obs == codec.t_bool(True)
        return None

    def valid(self, case):
        if case.op in ('roundtrip', 'const_true'):
            try:
                if case.arg[0] in ('json', 'jsonarrays'):
                    t = case.arg[-1]
                    return len(t) >= 2 and len(set(t[0])) == len(t[0]) and all(len(r) == len(t[0]) for r in t)
                if case.arg[0] in ('pickle', 'pickle_append'):
                    return all(len(t) >= 1 for t in case.arg[-2:] if isinstance(t, tuple) and t and isinstance(t[0], tuple))
                return True
            except Exception:
                return False
        if case.op == 'csv_write':
            try:
                d, qc, q, rows = case.arg
                return len(d) == 1 and len(qc) == 1 and d != qc and q in (0, 1, 2, 3)
            except Exception:
                return False
        return True

    def finding_id(self, case, impl_obs, model_obs):
        a = case.arg
        if case.op == 'const_true' and a[0] in ('csv', 'csv_append') and a[4] in ('utf-16', 'utf-32') and a[5] == 'bz2':
            return 'csv-bom-codec-on-bz2'
        if case.op == 'const_true' and a[0] == 'csv_append' and (
                (a[5] == 'gz' and a[4] in ('utf-8-sig', 'utf-16', 'utf-32')) or (a[5] == 'bz2' and a[4] == 'utf-8-sig')):
            return 'csv-append-bom-on-compressed'
        return None

    def nontrivial(self, case):
        try:
            return len(case.arg[-1]) >= 2
        except Exception:
            return True


PROP = C15
