"""C07 — hash joins and lookups agree with the sort-merge joins."""
from .. import codec, gen
from ..core import Prop, Case, obs_rows, obs_exc, obs_call
from .c06 import call_join, gen_pair, C06

HKINDS = ('join', 'leftjoin', 'rightjoin', 'lookupjoin', 'antijoin')


class C07(Prop):
    pid = 'C07'
    props_files = ['props/C07.v']
    gen_items = ['ComparableGen', 'AsIndicesGen']
    rule = ('pairs of tables as in C06 with hashable key values (rectangular for the anti-joins) x {hashjoin, hashleftjoin, '
            'hashrightjoin, hashlookupjoin, hashantijoin} x cache on/off x two passes; lookup / lookupone / dictlookup / '
            'recordlookup with strict on/off; non-trivial = both sides have data rows')
    trusted = [
        'Coq 8.16.1 kernel; no axioms',
        'model/HashJoins.v hand transcription of lookup / lookupone and the iterhash*join probe loops (tied by this '
        'correspondence run); Python dict modelled as insertion-ordered association list keyed by ==',
        'translators; extraction + OCaml driver; harness/codec.py',
    ]
    assumptions = ['key values are hashable (no lists) so that == coincides with the Comparable equivalence',
                   'header fields are text and distinct within a table']

    def cases(self, rng, tier):
        n = 250 if tier == 'quick' else 4000
        for _ in range(n):
            key, lkey, rkey, l, r = gen_pair(rng, hashable=True)
            missing = rng.choice([None, None, 'NA'])
            lp, rp = rng.choice([(None, None), (None, None), ('l_', 'r_'), (None, 'r_'), ('l_', None)])
            for kn in HKINDS:
                if kn == 'antijoin' and any(len(x) != len(t[0]) for t in (l, r) for x in t[1:]):
                    continue
                yield Case('hashjoin', (kn, key, lkey, rkey, None if kn in ('antijoin', 'join') else missing,
                                        lp if kn != 'antijoin' else None, rp if kn != 'antijoin' else None, l, r),
                           {'cache': rng.random() < 0.5})
            # lookups on the right table
            t = r
            if all(len(x) == len(t[0]) for x in t[1:]):
                k = rng.choice([t[0][0], 0, (t[0][0], t[0][-1])])
                v = rng.choice([None, t[0][-1], (t[0][-1], t[0][0]), 0, len(t[0]) - 1, (0,)])
                yield Case('lookup', (False, False, k, v, t))
                yield Case('lookup', (True, rng.random() < 0.5, k, v, t))
                # the whole family (lookup / dictlookup / recordlookup and their *one forms), also into a mapping that hands
                # out copies of its values (as shelve does): judged against an independent grouping of the rows
                if isinstance(k, str) and len(set(t[0])) == len(t[0]):
                    yield Case('lookup_family', (k, t))

        # lookupone: the first row of a key wins, also when its value is None / falsy; strict raises on the repeat
        for first in (None, 0, '', False):
            tl = (('id', 'v'), ('a', first), ('b', 1), ('a', 2), ('c', None), ('c', None), ('b', first))
            for strict in (False, True):
                yield Case('lookup', (True, strict, 'id', 'v', tl))
            yield Case('lookup', (False, False, 'id', 'v', tl))
            yield Case('lookup_family', ('id', tl))
        # the value selected by position, position 0 included
        tv = (('id', 'v'), ('a', 1), ('b', 2), ('a', 3))
        for val in (0, 1, (0,), (1, 0), 'id'):
            yield Case('lookup', (False, False, 'v', val, tv))
            yield Case('lookup', (True, False, 'v', val, tv))

    def expand(self, case):
        if case.op == 'lookup_family':
            return Case('const_true', case.arg, dict(case.meta, orig='lookup_family'))
        return case

    def _family(self, k, t):
        import petl as etl
        from petl.errors import DuplicateKeyError

        class CopyingDict(dict):
            def __getitem__(self, key):
                v = dict.__getitem__(self, key)
                return list(v) if isinstance(v, list) else v

        src = [tuple(r) for r in t]
        hdr = t[0]
        ki = hdr.index(k)
        groups = {}
        order = []
        for r in src[1:]:
            try:
                hash(r[ki])
            except TypeError:
                return True
            if r[ki] not in groups:
                order.append(r[ki])
            groups.setdefault(r[ki], []).append(r)
        dup = any(len(v) > 1 for v in groups.values())
        as_dict = lambda r: dict(zip(hdr, r))   # noqa
        ok = True
        for store in (None, 'copy'):
            mk = (lambda: None) if store is None else (lambda: CopyingDict())
            got = etl.lookup(src, k, dictionary=mk())
            ok &= {kk: [tuple(x) for x in vv] for kk, vv in got.items()} == groups
            got = etl.dictlookup(src, k, dictionary=mk())
            ok &= {kk: list(vv) for kk, vv in got.items()} == {kk: [as_dict(r) for r in vv] for kk, vv in groups.items()}
            got = etl.recordlookup(src, k, dictionary=mk())
            ok &= {kk: [tuple(x) for x in vv] for kk, vv in got.items()} == groups
        first = {kk: vv[0] for kk, vv in groups.items()}
        ok &= {kk: tuple(vv) for kk, vv in etl.lookupone(src, k, strict=False).items()} == first
        ok &= dict(etl.dictlookupone(src, k, strict=False)) == {kk: as_dict(vv) for kk, vv in first.items()}
        ok &= {kk: tuple(vv) for kk, vv in etl.recordlookupone(src, k, strict=False).items()} == first
        for f in (etl.lookupone, etl.dictlookupone, etl.recordlookupone):
            try:
                f(src, k, strict=True)
                raised = False
            except DuplicateKeyError:
                raised = True
            ok &= (raised == dup)
        return bool(ok)

    def impl(self, case):
        import petl as etl
        if case.op == 'const_true':
            try:
                return codec.t_bool(self._family(*case.arg))
            except Exception as e:   # noqa
                from ..core import obs_exc
                return obs_exc(e)
        if case.op == 'hashjoin':
            kn, key, lkey, rkey, missing, lp, rp, l, r = case.arg
            try:
                v = call_join(kn, key, lkey, rkey, False, missing, lp, rp, None, l, r, hash_=True,
                              cache=case.meta.get('cache', True))
                if kn in ('antijoin', 'lookupjoin'):
                    pass
            except TypeError:
                # hashantijoin / hashlookupjoin take no cache argument
                import petl as etl2
                a = [list(x) for x in l]
                b = [list(x) for x in r]
                try:
                    if kn == 'antijoin':
                        v = etl2.hashantijoin(a, b, key=key, lkey=lkey, rkey=rkey)
                    else:
                        v = etl2.hashlookupjoin(a, b, key=key, lkey=lkey, rkey=rkey, missing=missing,
                                                lprefix=lp, rprefix=rp)
                except Exception as e:
                    return obs_exc(e)
            except Exception as e:
                return obs_exc(e)
            o1 = obs_rows(v)
            o2 = obs_rows(v)      # second pass (served from the cached lookup when cache=True)
            if o1 != o2:
                return ('tu', (codec.t_str('!passes-differ'), o1, o2))
            return o1
        if case.op == 'lookup':
            one, strict, k, v, t = case.arg
            src = [list(x) for x in t]

            def f():
                if one:
                    d = etl.lookupone(src, k, v, strict=strict)
                    return [(kk, vv) for kk, vv in d.items()]
                d = etl.lookup(src, k, v)
                return [(kk, list(vv)) for kk, vv in d.items()]
            return obs_call(f)
        raise ValueError(case.op)

    def valid(self, case):
        if case.op == 'hashjoin':
            kn, key, lkey, rkey, missing, lp, rp, l, r = case.arg
            c = Case('join', (kn, key, lkey, rkey, False, missing, lp, rp, None, l, r))
            if not C06().valid(c):
                return False
            # hashable keys only
            for t in (l, r):
                for row in t[1:]:
                    for x in row:
                        if isinstance(x, list) or (isinstance(x, tuple) and any(isinstance(y, list) for y in x)):
                            return False
            return True
        return True

    def spec(self, case, impl_obs, model_obs):
        if case.op == 'const_true':
            return impl_obs == codec.t_bool(True)
        if case.op == 'hashjoin' and self.valid(case) and impl_obs[0] != 'li':
            return False
        if case.op == 'lookup':
            one, strict, k, v, t = case.arg
            # strict raises DuplicateKeyError exactly when a key repeats
            try:
                import petl as etl
                keys = list(etl.values([list(x) for x in t], k))
                etl.lookupone([list(x) for x in t], k, v, strict=False)
            except Exception:
                return None
            dup = len(set(keys)) != len(keys)
            if one and strict:
                raised = codec.is_err(impl_obs) and codec.err_name(impl_obs) == 'DuplicateKeyError'
                return raised == dup
        return None

    def spec_case(self, case, impl_obs):
        if case.op != 'hashjoin' or not self.valid(case) or impl_obs[0] != 'li':
            return None
        kn, key, lkey, rkey, missing, lp, rp, l, r = case.arg
        out = codec.uncanon(impl_obs)
        scs = []
        if lp is None and rp is None:
            scs.append(Case('hash_spec', (kn, key, lkey, rkey, missing, l, r, out)))
        # agreement with the sort-merge operator (implementation vs implementation, judged by the extracted same_table)
        try:
            m = obs_rows(call_join(kn, key, lkey, rkey, False, missing, lp, rp, None, l, r))
        except Exception:
            m = None
        if m is not None and m[0] == 'li':
            scs.append(Case('same_table', (out, codec.uncanon(m))))
        return scs

    def nontrivial(self, case):
        if case.op in ('const_true', 'lookup_family'):
            return len(case.arg[1]) > 2
        if case.op == 'hashjoin':
            return len(case.arg[7]) > 1 and len(case.arg[8]) > 1
        return len(case.arg[4]) > 2


PROP = C07
