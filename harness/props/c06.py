"""C06 — sort-merge joins implement the relational join operators exactly."""
import itertools

from .. import codec, gen
from ..core import Prop, Case, obs_rows, obs_exc

KINDS = ('join', 'leftjoin', 'rightjoin', 'outerjoin', 'lookupjoin', 'antijoin')


def call_join(kn, key, lkey, rkey, pre, missing, lp, rp, bs, l, r, hash_=False, cache=True):
    import petl as etl
    a = [list(x) for x in l]
    b = [list(x) for x in r]
    kw = dict(key=key, lkey=lkey, rkey=rkey)
    if not hash_:
        kw.update(presorted=pre, buffersize=bs)
        fn = getattr(etl, kn)
    else:
        fn = getattr(etl, 'hash' + kn)
        kw.update(cache=cache)
    if kn != 'antijoin':
        if kn != 'join':
            kw['missing'] = missing
        kw.update(lprefix=lp, rprefix=rp)
    return fn(a, b, **kw)


def gen_pair(rng, maxrows=5, ragged=True, hashable=False):
    """Two tables sharing a key field (and possibly with different lkey/rkey names)."""
    alpha = gen.key_alphabet(rng)
    if hashable:
        alpha = [x for x in alpha if not isinstance(x, list)]
    alpha = alpha[:rng.choice([2, 3, 4, 6])]
    kname = 'id'
    compound = rng.random() < 0.25
    lf = ['id'] + (['k2'] if compound else []) + rng.sample(['a', 'b', 'c'], rng.choice([0, 1, 2]))
    rf = ['id'] + (['k2'] if compound else []) + rng.sample(['x', 'y', 'z'], rng.choice([0, 1, 2]))
    if rng.random() < 0.3:
        rng.shuffle(lf)
    if rng.random() < 0.3:
        rng.shuffle(rf)
    diffkey = rng.random() < 0.2 and not compound
    if diffkey:
        rf[rf.index('id')] = 'rid'

    def tab(fields):
        n = rng.choice([0, 0, 1, 2, 3, maxrows])
        rows = []
        for _ in range(n):
            w = len(fields)
            if ragged and rng.random() < 0.2:
                w = rng.choice([max(0, w - 1), w + 1, 0])
            rows.append(tuple(rng.choice(alpha) if (j < len(fields) and fields[j] in ('id', 'rid', 'k2')) or rng.random() < 0.3
                              else rng.choice([1, 2, 'p', 'q', None, 2.5]) for j in range(w)))
        return (tuple(fields),) + tuple(rows)
    l, r = tab(lf), tab(rf)
    if diffkey:
        key, lkey, rkey = None, 'id', 'rid'
        if rng.random() < 0.4:
            # the same fields by position (0 included)
            key, lkey, rkey = None, lf.index('id'), rf.index('rid')
    elif compound:
        key, lkey, rkey = rng.choice([('id', 'k2'), ('k2', 'id'), 'id', lf.index('id') if lf.index('id') == rf.index('id') else 'id',
                                      lf.index('k2') if lf.index('k2') == rf.index('k2') else 'k2']), None, None
    else:
        key, lkey, rkey = rng.choice(['id', 'id', None, 0 if lf[0] == 'id' and rf[0] == 'id' else 'id']), None, None
    return key, lkey, rkey, l, r


class C06(Prop):
    pid = 'C06'
    props_files = ['props/C06.v']
    gen_items = ['ComparableGen', 'AsIndicesGen']
    rule = ('pairs of tables (0..5 rows; header-only on either side; duplicate keys on both sides; None / mixed-type / '
            'compound keys; lkey != rkey; ragged rows; natural key) x {join,leftjoin,rightjoin,outerjoin,lookupjoin,antijoin,'
            'crossjoin} x missing/lprefix/rprefix x buffersize; thorough adds ALL pairs of <=3x3 rows over keys '
            '{None,0,1,\'a\'}; non-trivial = both sides have data rows')
    trusted = [
        'Coq 8.16.1 kernel; no axioms',
        'model/Joins.v hand transcription of stack, JoinView, iterjoin (hanging flags), iterantijoin, iterlookupjoin, '
        'itercrossjoin, keys_from_args (tied by this correspondence run); itertools.groupby / product modelled on lists',
        'translators; extraction + OCaml driver; harness/codec.py',
    ]
    assumptions = ['header fields are text and distinct within a table']

    def cases(self, rng, tier):
        n = 250 if tier == 'quick' else 4000
        for _ in range(n):
            key, lkey, rkey, l, r = gen_pair(rng)
            missing = rng.choice([None, None, 'NA', 0])
            lp, rp = rng.choice([(None, None), (None, None), ('l_', 'r_'), (None, 'r_')])
            bs = rng.choice([None, None, 1, 2])
            for kn in KINDS:
                if kn == 'antijoin' and any(len(x) != len(t[0]) for t in (l, r) for x in t[1:]):
                    continue
                yield Case('join', (kn, key, lkey, rkey, False, None if kn in ('join', 'antijoin') else missing,
                                    lp if kn != 'antijoin' else None, rp if kn != 'antijoin' else None, bs, l, r))
            # presorted=True on inputs that are sorted by the key already (ragged rows included: the views still square up)
            lk1, rk1 = (key, key) if key is not None else (lkey, rkey)
            if lk1 is not None and rng.random() < 0.5:
                import petl as etl
                def carries(t, k):
                    # rows too short to hold the key cells would get `missing` there when squared up, and stop being sorted
                    ks = k if isinstance(k, tuple) else (k,)
                    need = 1 + max((x if isinstance(x, int) else list(t[0]).index(x)) for x in ks)
                    return [list(t[0])] + [list(x) for x in t[1:] if len(x) >= need]
                try:
                    ls = tuple(tuple(x) for x in etl.sort(carries(l, lk1), lk1))
                    rs = tuple(tuple(x) for x in etl.sort(carries(r, rk1), rk1))
                except Exception:
                    ls = rs = None
                if ls is not None:
                    for kn in KINDS:
                        if kn == 'antijoin' and any(len(x) != len(t[0]) for t in (l, r) for x in t[1:]):
                            continue
                        yield Case('join', (kn, key, lkey, rkey, True, None if kn in ('join', 'antijoin') else missing,
                                            lp if kn != 'antijoin' else None, rp if kn != 'antijoin' else None, None, ls, rs))
            # field names that are not text: the natural key is found by name, as with text names
            if rng.random() < 0.3:
                yield Case('intnames', (rng.choice(KINDS), l, r))
            if rng.random() < 0.2:
                tabs = tuple(gen.freeze(gen.table(rng, maxrows=3, ncols=rng.choice([1, 2]), ragged=True))
                             for _ in range(rng.choice([1, 2, 3])))
                yield Case('crossjoin', (rng.random() < 0.3, missing, tabs))
        if tier == 'thorough':
            alpha = [None, 0, 1, 'a']
            for nl in range(0, 4):
                for nr in range(0, 4):
                    for lk in itertools.product(alpha, repeat=nl):
                        for rk in itertools.product(alpha, repeat=nr):
                            l = (('id', 'a'),) + tuple((k, i) for i, k in enumerate(lk))
                            r = (('id', 'b'),) + tuple((k, 10 + i) for i, k in enumerate(rk))
                            for kn in KINDS:
                                yield Case('join', (kn, 'id', None, None, False, None, None, None, None, l, r))

    def expand(self, case):
        if case.op == 'intnames':
            return Case('const_true', ('intnames',) + tuple(case.arg), dict(case.meta, orig='intnames'))
        return case

    def _intnames(self, kn, l, r):
        """the same two tables with their field names replaced by numbers (shared names by the same number): the natural join
        gives the same data rows, under the correspondingly numbered header"""
        import petl as etl
        names = sorted(set(l[0]) | set(r[0]))
        # numbers that are valid positions in both tables, so that a name taken for a position would go unnoticed by an IndexError
        num = {f: i for i, f in enumerate(reversed(names))}
        rect = lambda t: [list(x) for x in t if len(x) == len(t[0])]   # noqa
        l1, r1 = rect(l), rect(r)
        l2 = [[num[f] for f in l1[0]]] + l1[1:]
        r2 = [[num[f] for f in r1[0]]] + r1[1:]
        fn = getattr(etl, kn)
        try:
            a = [tuple(x) for x in fn(l1, r1)]
        except Exception as e:
            a = type(e).__name__
        try:
            b = [tuple(x) for x in fn(l2, r2)]
        except Exception as e:
            b = type(e).__name__
        if isinstance(a, str) or isinstance(b, str):
            return a == b
        return tuple(num[f] for f in a[0]) == b[0] and a[1:] == b[1:]

    def impl(self, case):
        import petl as etl
        if case.op == 'const_true':
            try:
                return codec.t_bool(self._intnames(*case.arg[1:]))
            except Exception as e:   # noqa
                return obs_exc(e)
        if case.op == 'join':
            kn, key, lkey, rkey, pre, missing, lp, rp, bs, l, r = case.arg
            try:
                v = call_join(kn, key, lkey, rkey, pre, missing, lp, rp, bs, l, r)
            except Exception as e:
                return obs_exc(e)
            return obs_rows(v)
        if case.op == 'crossjoin':
            prefix, missing, tabs = case.arg
            try:
                v = etl.crossjoin(*[[list(x) for x in t] for t in tabs], prefix=prefix, missing=missing)
            except Exception as e:
                return obs_exc(e)
            return obs_rows(v)
        raise ValueError(case.op)

    def valid(self, case):
        try:
            if case.op == 'const_true':
                return case.arg[0] == 'intnames' and case.arg[1] in KINDS and all(
                    len(t) >= 1 and len(t[0]) >= 1 and len(set(t[0])) == len(t[0]) and all(isinstance(f, str) for f in t[0])
                    for t in case.arg[2:4])
            if case.op == 'intnames':
                return True
            tabs = case.arg[9:11] if case.op == 'join' else case.arg[2]
            for t in tabs:
                if len(t) < 1 or len(t[0]) < 1 or not all(isinstance(f, str) for f in t[0]):
                    return False
                if len(set(t[0])) != len(t[0]):
                    return False
            if case.op == 'join':
                kn, key, lkey, rkey = case.arg[:4]
                l, r = tabs
                if kn == 'antijoin' and any(len(x) != len(t[0]) for t in (l, r) for x in t[1:]):
                    return False

                def ok(k, hdr):
                    ks = k if isinstance(k, tuple) else (k,)
                    return all(isinstance(x, str) and x in hdr or (isinstance(x, int) and not isinstance(x, bool)
                                                                    and 0 <= x < len(hdr)) for x in ks)
                if key is not None:
                    if lkey is not None or rkey is not None:
                        return False
                    return ok(key, l[0]) and ok(key, r[0])
                if lkey is None and rkey is None:
                    return any(f in r[0] for f in l[0])
                if lkey is None or rkey is None:
                    return False
                if not (ok(lkey, l[0]) and ok(rkey, r[0])):
                    return False
                nl = len(lkey) if isinstance(lkey, tuple) else 1
                nr = len(rkey) if isinstance(rkey, tuple) else 1
                return nl == nr
            return True
        except Exception:
            return False

    def spec(self, case, impl_obs, model_obs):
        if case.op == 'const_true':
            return impl_obs == codec.t_bool(True)
        if self.valid(case) and impl_obs[0] != 'li':
            return False      # inside the domain no join may raise (header-only sides included)
        return None

    def spec_case(self, case, impl_obs):
        if case.op == 'const_true' or not self.valid(case) or impl_obs[0] != 'li':
            return None
        out = codec.uncanon(impl_obs)
        if case.op == 'join':
            kn, key, lkey, rkey, pre, missing, lp, rp, bs, l, r = case.arg
            if kn == 'join':
                missing = None
            return Case('join_spec', (kn, key, lkey, rkey, missing, lp, rp, l, r, out))
        if case.op == 'crossjoin':
            prefix, missing, tabs = case.arg
            if prefix:
                return None
            return Case('crossjoin_spec', (missing, tabs, out))
        return None

    def nontrivial(self, case):
        if case.op == 'join':
            return len(case.arg[9]) > 1 and len(case.arg[10]) > 1
        return True

    def finding_id(self, case, impl_obs, model_obs):
        return None


PROP = C06
