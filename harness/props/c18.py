"""C18 — temporary files live exactly as long as something can still read them."""
import gc
import itertools
import os
import random
import tempfile

from .. import codec, catalogue
from ..core import Prop, Case, obs_exc


class SrcError(Exception):
    pass


class FailingTable(object):
    """header ('v','k') + n rows whose key order is the reverse of their natural (whole-row) order; raises at position `fail`
    (0 = header, r+1 = data row r).  `bad` = index of a row holding a cell that cannot be pickled (the chunk dump fails)."""
    def __init__(self, n, fail, bad=None, ties=False):
        self.n, self.fail, self.bad, self.ties = n, fail, bad, ties

    def __iter__(self):
        if self.fail == 0:
            raise SrcError('header')
        yield ('v', 'k', 'w')
        for i in range(self.n):
            if self.fail is not None and self.fail == i + 1:
                raise SrcError('row %d' % i)
            name = 'r%d' % i if i != self.bad else (lambda: None)
            # (the same object in two cells of a row: what a record-by-record pickle stream must keep apart between rows)
            yield (name, (self.n - i) // 2 if self.ties else self.n - i, name)


def expected_rows(n, ties=False, rev=False):
    # the stable sort by the key (ties: equal keys in neighbouring chunks keep their table order, in either direction)
    rows = [('r%d' % i, (n - i) // 2 if ties else n - i, 'r%d' % i) for i in range(n)]
    return [('v', 'k', 'w')] + sorted(rows, key=lambda r: r[1], reverse=rev)


def random_history(rng, maxlen=14, maxiters=3):
    ops = []
    niter = 0
    view = True
    for _ in range(rng.randint(1, maxlen)):
        r = rng.random()
        if niter == 0 or (r < 0.15 and niter < maxiters and view):
            if view:
                ops.append((0,))
                niter += 1
            continue
        if r < 0.75:
            ops.append((1, rng.randrange(niter)))
        elif r < 0.9:
            ops.append((2, rng.randrange(niter)))
        else:
            ops.append((3,))
            view = False
    return tuple(ops)


def all_histories(length, maxiters=2):
    """every history of the given length over {new, next k, drop k, drop view} (iterators are created in order)."""
    def rec(prefix, niter, view):
        if len(prefix) == length:
            yield tuple(prefix)
            return
        if view and niter < maxiters:
            yield from rec(prefix + [(0,)], niter + 1, view)
        for k in range(niter):
            yield from rec(prefix + [(1, k)], niter, view)
            yield from rec(prefix + [(2, k)], niter, view)
        if view:
            yield from rec(prefix + [(3,)], niter, False)
    return rec([(0,)], 1, True)


def _dict_gen(rows):
    for r in rows:
        yield {'k': r[0], 'v': r[1]}


class C18(Prop):
    pid = 'C18'
    props_files = ['props/C18.v']
    gen_items = []
    rule = ('external sort: (rows 0..6) x (buffersize None, 1, 2, 3, 5) x cache on/off x source failing at the header / at every '
            'data row / never x histories over {new iterator, next k, drop iterator k, drop view} with up to 3 iterators '
            '(quick: random up to 14 steps; thorough: every history up to 8 steps with 2 iterators and up to 7 steps with 3 iterators for cache on, up to 7 steps for cache off / failing source, plus random); after EVERY step '
            'the number of files in a private tempdir is compared with the model and each iterator\'s rows with the sorted '
            'sequence; fromdicts(<generator>): same histories, existence of the spill file after every step; every sort-backed '
            'operator of the catalogue (joins, set operations, dedup, reductions, reshape) with petl.config.sort_buffersize=2: '
            'abandoned after k rows, view and iterator released in either order, directory must be empty; '
            'non-trivial = files were actually created')
    trusted = [
        'Coq 8.16.1 kernel; no axioms',
        'model/TempFiles.v: which objects reference the chunk-file wrappers, as read from petl/transform/sorts.py and '
        'petl/io/json.py; CPython reference semantics rendered as finalisation of unreachable objects after every operation '
        '(harness calls gc.collect()); tied by this correspondence after every step of every history',
        'directory listing of a private temporary directory as the observation of file existence',
        'extraction + OCaml driver; harness/codec.py',
    ]
    assumptions = ['buffersize >= 1', 'CPython (reference counting + gc.collect()); on interpreters with deferred finalisation '
                   'files disappear later than the model says']

    # ---- cases ----------------------------------------------------------------------------------------------------------
    def cases(self, rng, tier):
        nrand = 120 if tier == 'quick' else 1500
        for _ in range(nrand):
            n = rng.choice([0, 1, 2, 3, 4, 6])
            bs = rng.choice([None, 1, 2, 2, 3, 5])
            cache = rng.random() < 0.6
            fail = rng.choice([None, None, None] + list(range(0, n + 1)))
            yield Case('tf_run', (n, bs, cache, fail, random_history(rng)), {'rev': rng.random() < 0.4, 'ties': rng.random() < 0.4})
        for _ in range(nrand // 3):
            n = rng.choice([0, 1, 2, 3, 5])
            yield Case('df_hist', (n, random_history(rng)))
        # a directed set: spill, abandon, serve from the file cache, drop the view while an iterator runs, re-sort
        directed = [
            ((0,), (1, 0), (1, 0), (2, 0), (0,), (1, 1), (3,), (1, 1), (2, 1)),
            ((0,), (0,), (1, 0), (1, 0), (1, 1), (1, 1), (3,), (2, 0), (1, 1), (2, 1)),
            ((0,), (1, 0), (1, 0), (1, 0), (1, 0), (1, 0), (1, 0), (0,), (0,), (1, 1), (2, 0), (1, 2), (1, 2), (3,), (2, 1), (2, 2)),
            ((0,), (1, 0), (1, 0), (0,), (1, 1), (1, 1), (1, 0), (2, 0), (1, 1), (3,), (2, 1)),
            # an old iterator is created first but not advanced; another one sorts and fills the file cache; a third is served
            # from the file cache and stopped at the header; then the old one is advanced for the first time (it re-sorts and
            # resets the cache); the third must still be able to read its chunk files
            ((0,), (0,), (1, 1), (1, 1), (1, 1), (1, 1), (1, 1), (1, 1), (1, 1), (0,), (1, 2), (1, 0), (1, 2), (1, 2), (1, 2), (1, 2),
             (2, 0), (2, 1), (2, 2), (3,)),
            ((0,), (0,), (1, 1), (1, 1), (1, 1), (1, 1), (1, 1), (1, 1), (1, 1), (0,), (1, 0), (1, 2), (1, 2), (1, 2), (1, 2), (1, 2),
             (2, 2), (2, 0), (3,), (2, 1)),
        ]
        # a pass served from the file cache runs to its end (or is dropped mid-way), then further passes are made
        again = ((0,), (1, 0), (1, 0), (1, 0), (1, 0), (1, 0), (1, 0), (0,), (1, 1), (1, 1), (1, 1), (1, 1), (1, 1), (1, 1), (0,),
                 (1, 2), (1, 2), (1, 2), (1, 2), (1, 2), (0,), (1, 3), (1, 3), (2, 3), (0,), (1, 4), (1, 4), (1, 4), (1, 4), (1, 4),
                 (2, 0), (2, 1), (2, 2), (2, 4), (3,))
        yield Case('tf_run', (4, 2, True, None, again))
        yield Case('tf_run', (3, 1, True, None, again))
        yield Case('tf_run', (4, 2, True, None, again), {'rev': True})
        yield Case('tf_run', (5, 1, True, None, again), {'rev': True})
        for n, bs in ((6, 1), (6, 2), (5, 1), (4, 1), (6, 3)):
            yield Case('tf_run', (n, bs, True, None, again), {'ties': True})
            yield Case('tf_run', (n, bs, True, None, again), {'ties': True, 'rev': True})
        # fromdicts(<generator>): a lagging iterator re-reads an old record of the spill file, then the leader draws a new row
        lag = ((0,), (0,), (1, 0), (1, 0), (1, 0), (1, 0), (1, 1), (1, 1), (1, 0), (1, 1), (1, 1), (1, 1), (1, 1), (1, 1), (0,),
               (1, 2), (1, 2), (1, 2), (1, 2), (1, 2), (1, 2), (2, 0), (2, 1), (2, 2), (3,))
        yield Case('df_hist', (5, lag))
        yield Case('df_hist', (4, lag[:14] + ((3,),)))
        for ops in directed:
            for n, bs in ((3, 2), (5, 2), (4, 1), (2, 2), (2, 5)):
                for cache in (True, False):
                    for fail in (None, 2):
                        yield Case('tf_run', (n, bs, cache, fail, ops), {'rev': (n + bs) % 2 == 0 and fail is None})
        if tier == 'thorough':
            for ln in range(2, 9):
                for ops in all_histories(ln):
                    yield Case('tf_run', (3, 2, True, None, ops))
                    if ln <= 7:
                        yield Case('tf_run', (3, 2, False, None, ops))
                        yield Case('tf_run', (2, 1, True, None, ops))
                        yield Case('tf_run', (3, 2, True, 3, ops))
                    if ln <= 6:
                        yield Case('df_hist', (2, ops))
            for ln in range(3, 8):
                for ops in all_histories(ln, 3):
                    yield Case('tf_run', (3, 2, True, None, ops))
        # sort-backed operators
        # the chunk dump itself fails (a cell that cannot be pickled): the half-written chunk file must not stay behind
        for n, bs in ((3, 2), (5, 2), (4, 1), (6, 3), (2, 5)):
            for bad in range(n):
                for cache in (True, False):
                    yield Case('dump_fail', (n, bs, bad, cache))
        # fromdicts(<generator>) with a generator that raises midway
        for n in (1, 3, 5):
            for fail in range(0, n):
                for with_header in (True, False):
                    yield Case('df_fail', (n, fail, with_header, rng.choice([1, 2])))
        names = [e['name'] for e in catalogue.entries() if 'sorted' in e['flags']]
        reps = 1 if tier == 'quick' else 5
        for nm in names:
            for _ in range(reps):
                yield Case('op_leak', (nm, rng.randrange(1 << 30), rng.choice([1, 2, 3, 50, 50] if tier == 'quick' else [0, 1, 2, 3, 50, 50]), rng.random() < 0.5))

    def expand(self, case):
        if case.op == 'df_hist':
            # the model needs to know which next() calls found the generator exhausted: read off the implementation
            n, ops = case.arg
            lasts = self._df_impl(n, ops)[1]
            return Case('df_run', tuple((o, l) for o, l in zip(ops, lasts)), dict(case.meta, orig=[n, [list(o) for o in ops]]))
        if case.op == 'op_leak':
            return Case('const_true', case.arg, dict(case.meta, orig='op_leak'))
        if case.op in ('dump_fail', 'df_fail'):
            return Case('const_true', (case.op,) + tuple(case.arg), dict(case.meta, orig=case.op))
        return case

    # ---- implementation -------------------------------------------------------------------------------------------------
    def impl(self, case):
        # full collections after every step must stay cheap: park everything allocated so far in the permanent generation
        gc.freeze()
        try:
            return self._impl(case)
        finally:
            gc.unfreeze()

    def _impl(self, case):
        try:
            if case.op == 'tf_run':
                return self._tf_impl(case)
            if case.op == 'df_run':
                n, ops = case.meta['orig']
                files, lasts, released = self._df_impl(n, tuple(tuple(o) for o in ops))
                return ('tu', (('li', tuple(codec.t_bool(f) for f in files)), codec.t_bool(released)))
            if case.op == 'const_true':
                if case.arg[0] == 'dump_fail':
                    return codec.t_bool(self._dump_fail(*case.arg[1:]))
                if case.arg[0] == 'df_fail':
                    return codec.t_bool(self._df_fail(*case.arg[1:]))
                return codec.t_bool(self._op_leak(*case.arg))
        except Exception as e:   # noqa
            return obs_exc(e)
        raise ValueError(case.op)

    def _tf_impl(self, case):
        import petl as etl
        n, bs, cache, fail, ops = case.arg
        rev = bool(case.meta.get('rev'))
        ties = bool(case.meta.get('ties'))
        exp = expected_rows(n, ties, rev)
        rows_ok = True
        with tempfile.TemporaryDirectory(dir='/var/tmp') as td:
            view = etl.sort(FailingTable(n, fail, ties=ties), 'k', reverse=rev, buffersize=bs, cache=cache, tempdir=td)
            its = []
            got = []
            obs = []
            for op in ops:
                out = ('N',)
                if op[0] == 0:
                    if view is not None:
                        its.append(iter(view))
                        got.append([])
                elif op[0] == 1:
                    k = op[1]
                    if k < len(its):
                        if its[k] is None:
                            out = codec.t_str('s')
                        else:
                            try:
                                got[k].append(tuple(next(its[k])))
                                out = codec.t_str('r')
                            except StopIteration:
                                out = codec.t_str('s')
                            except SrcError:
                                out = codec.t_str('e')
                            except (IOError, OSError, EOFError):
                                out = codec.t_str('m')
                elif op[0] == 2:
                    if op[1] < len(its):
                        its[op[1]] = None
                elif op[0] == 3:
                    view = None
                gc.collect()
                obs.append(('tu', (out, codec.t_int(len(os.listdir(td))))))
            released = view is None and all(i is None or self._finished(i) for i in its)
            for g in got:
                if g != exp[:len(g)]:
                    rows_ok = False
            # the second half of the property, on the real objects: releasing everything empties the directory
            del its
            view = None
            gc.collect()
            left = len(os.listdir(td))
        self._store(case, rows_ok and left == 0)
        return ('tu', (('li', tuple(obs)), codec.t_bool(released)))

    @staticmethod
    def _finished(it):
        return getattr(it, 'gi_frame', 1) is None

    def _df_impl(self, n, ops):
        import petl as etl
        rows = [(n - i, 'r%d' % i) for i in range(n)]
        old = tempfile.tempdir
        files, lasts = [], []
        with tempfile.TemporaryDirectory(dir='/var/tmp') as td:
            tempfile.tempdir = td
            try:
                view = etl.fromdicts(_dict_gen(rows), header=['k', 'v'])
                its = []
                got = []
                for op in ops:
                    last = False
                    if op[0] == 0:
                        if view is not None:
                            its.append(iter(view))
                            got.append([])
                    elif op[0] == 1:
                        k = op[1]
                        if k < len(its) and its[k] is not None:
                            try:
                                got[k].append(tuple(next(its[k])))
                            except StopIteration:
                                last = True
                    elif op[0] == 2:
                        if op[1] < len(its):
                            its[op[1]] = None
                    elif op[0] == 3:
                        view = None
                    gc.collect()
                    files.append(len(os.listdir(td)) > 0)
                    lasts.append(last)
                released = view is None and all(i is None or self._finished(i) for i in its)
                exp = [('k', 'v')] + rows
                ok = all(g == exp[:len(g)] for g in got)
                del its
                view = None
                gc.collect()
                ok = ok and len(os.listdir(td)) == 0
            finally:
                tempfile.tempdir = old
        self._df_ok = getattr(self, '_df_ok', {})
        self._df_ok[(n, ops)] = ok
        return files, lasts, released

    def _df_fail(self, n, fail, with_header, passes):
        """fromdicts(<generator>) whose generator raises at record `fail`: after everything is released the spill file is gone,
        and the rows read before the failure were the right ones"""
        import petl as etl
        rows = [(n - i, 'r%d' % i) for i in range(n)]

        def gen():
            for i, r in enumerate(rows):
                if i == fail:
                    raise SrcError('record %d' % i)
                yield {'k': r[0], 'v': r[1]}
        old = tempfile.tempdir
        with tempfile.TemporaryDirectory(dir='/var/tmp') as td:
            tempfile.tempdir = td
            try:
                ok = True
                try:
                    view = etl.fromdicts(gen(), header=['k', 'v']) if with_header else etl.fromdicts(gen())
                except SrcError:
                    view = None      # without a header the sample is drawn at construction
                for _ in range(passes if view is not None else 0):
                    got = []
                    try:
                        for r in view:
                            got.append(tuple(r))
                    except SrcError:
                        pass
                    ok = ok and got[1:] == rows[:len(got) - 1] and len(got) - 1 <= max(fail, 0) if got else ok
                view = None
                gc.collect()
                return ok and len(os.listdir(td)) == 0
            finally:
                tempfile.tempdir = old

    def _dump_fail(self, n, bs, bad, cache):
        import petl as etl
        with tempfile.TemporaryDirectory(dir='/var/tmp') as td:
            view = etl.sort(FailingTable(n, None, bad), 'k', buffersize=bs, cache=cache, tempdir=td)
            for _ in range(2):
                it = iter(view)
                try:
                    for _r in it:
                        pass
                except Exception:   # the dump error (or nothing, when everything fits in memory)
                    pass
                del it
            view = None
            gc.collect()
            return len(os.listdir(td)) == 0

    def _op_leak(self, name, seed, k, view_first):
        import petl as etl
        import petl.config
        e = [x for x in catalogue.entries() if x['name'] == name][0]
        srcs = catalogue.standard_sources(random.Random(seed), e['nsrc'], nrows=5)
        old_dir, old_bs = tempfile.tempdir, petl.config.sort_buffersize
        with tempfile.TemporaryDirectory(dir='/var/tmp') as td:
            tempfile.tempdir = td
            petl.config.sort_buffersize = 2
            try:
                v = catalogue.build(e, [[list(r) for r in t] for t in srcs])
                if v is None:
                    return True
                it = iter(v)
                peak = 0
                try:
                    for _ in range(k):
                        next(it)
                        peak = max(peak, len(os.listdir(td)))
                except StopIteration:
                    pass
                except Exception:   # the standard sources may not suit the operator: what matters here is the cleanup
                    pass
                peak = max(peak, len(os.listdir(td)))
                self._peaks = getattr(self, '_peaks', {})
                self._peaks[name] = max(self._peaks.get(name, 0), peak)
                if view_first:
                    v = None
                    gc.collect()
                    it = None
                else:
                    it = None
                    gc.collect()
                    v = None
                gc.collect()
                return len(os.listdir(td)) == 0
            finally:
                tempfile.tempdir = old_dir
                petl.config.sort_buffersize = old_bs

    def _store(self, case, ok):
        if not hasattr(self, '_oks'):
            self._oks = {}
        if len(self._oks) > 50000:
            self._oks.clear()
        self._oks[case.key() + repr((case.meta.get('rev'), case.meta.get('ties')))] = ok

    # ---- the property on the implementation's own behaviour ---------------------------------------------------------------
    def spec(self, case, impl_obs, model_obs):
        if case.op == 'const_true':
            return impl_obs == codec.t_bool(True)
        if case.op == 'tf_run':
            ok = getattr(self, '_oks', {}).get(case.key() + repr((case.meta.get('rev'), case.meta.get('ties'))))
            if ok is None:
                return None
            if not ok:
                return False
            # no next() may find its file missing; all released => no file
            try:
                steps = impl_obs[1][0][1]
                if any(s[1][0] == codec.t_str('m') for s in steps):
                    return False
                if impl_obs[1][1] == codec.t_bool(True) and steps and steps[-1][1][1] != codec.t_int(0):
                    return False
            except Exception:
                return None
            return True
        if case.op == 'df_run':
            n, ops = case.meta['orig']
            ok = getattr(self, '_df_ok', {}).get((n, tuple(tuple(o) for o in ops)))
            return None if ok is None else bool(ok)
        return None

    def valid(self, case):
        try:
            if case.op == 'tf_run':
                n, bs, cache, fail, ops = case.arg
                if not (isinstance(n, int) and 0 <= n <= 50) or not (bs is None or (isinstance(bs, int) and bs >= 1)):
                    return False
                if not (fail is None or (isinstance(fail, int) and 0 <= fail <= n)) or not isinstance(cache, bool):
                    return False
                return all(isinstance(o, tuple) and len(o) in (1, 2) and o[0] in (0, 1, 2, 3) and
                           (len(o) == 2) == (o[0] in (1, 2)) and all(isinstance(x, int) and x >= 0 for x in o) for o in ops)
            if case.op == 'df_run':
                n, ops = case.meta['orig']
                ops = tuple(tuple(o) for o in ops)
                lasts = self._df_impl(n, ops)[1]
                return case.tree == Case('df_run', tuple((o, l) for o, l in zip(ops, lasts))).tree
            if case.op in ('df_hist', 'op_leak', 'dump_fail', 'df_fail'):
                return True
            if case.op == 'const_true':
                nm = case.arg[0]
                if nm == 'df_fail':
                    n, fail, wh, passes = case.arg[1:]
                    return isinstance(n, int) and 0 <= fail < n <= 50 and isinstance(wh, bool) and passes in (1, 2)
                if nm == 'dump_fail':
                    n, bs, bad, cache = case.arg[1:]
                    return isinstance(n, int) and 0 <= bad < n <= 50 and isinstance(bs, int) and bs >= 1

                return any(e['name'] == nm for e in catalogue.entries()) and isinstance(case.arg[2], int)
            return False
        except Exception:
            return False

    def nontrivial(self, case):
        try:
            if case.op == 'tf_run':
                n, bs, cache, fail, ops = case.arg
                return bs is not None and n >= bs and fail is None and len(ops) >= 3
            if case.op == 'df_run':
                return len(case.arg) >= 3
            return True
        except Exception:
            return True

    def extra_evidence(self):
        peaks = getattr(self, '_peaks', {})
        return {'sort_backed_operators_checked': len(peaks),
                'sort_backed_operators_that_spilled': sorted(k for k, v in peaks.items() if v > 0),
                'sort_backed_operators_that_never_spilled': sorted(k for k, v in peaks.items() if v == 0)}


PROP = C18
