"""C17 — database loads round-trip and are all-or-nothing when the source fails."""
import itertools
import os
import random
import sqlite3
import tempfile

from .. import codec
from ..core import Prop, Case, obs_exc

CELLS = [None, 0, 5, -1, 'a', 'é', '', 2.5, 'it\'s', 'x"y']
TABLE_NAMES = ['t', 'my table', 'we"ird', 'select']
FIELD_NAMES = [('a', 'b', 'c'), ('first name', 'x"y', 'order'), ('A', 'é', 'from')]
KINDS = ['filename', 'connection', 'cursor', 'mkcurs']


class SrcError(Exception):
    pass


class FailingTable(object):
    def __init__(self, hdr, rows, fail):
        self.hdr, self.rows, self.fail = hdr, rows, fail

    def __iter__(self):
        if self.fail == 0:
            raise SrcError('header')
        yield tuple(self.hdr)
        for i, r in enumerate(self.rows):
            if self.fail == i + 1:
                raise SrcError('row %d' % i)
            yield tuple(r)
        if self.fail == len(self.rows) + 1:
            raise SrcError('exhaustion')


def q(name):
    return '"' + name.replace('"', '""') + '"'


def rows_tree(rows):
    return ('li', tuple(('tu', tuple(codec.canon(x) for x in r)) for r in rows))


class C17(Prop):
    pid = 'C17'
    props_files = ['props/C17.v']
    gen_items = ['DbProgGen']
    rule = ('sqlite3 database files: tables of 1..3 columns (names with spaces, quotes, keywords, non-ASCII) x prior contents of '
            '0..3 rows x sources of 0..4 rows (None / int / float / text cells; occasionally a row of the wrong width) x failure '
            'injected at the header, at EVERY row index and at exhaustion, or not at all x todb / appenddb x handle kind (file '
            'name, connection, cursor, cursor factory) x commit flag; observed: did the call raise, SELECT * through a FRESH '
            'connection, and fromdb through the loading connection; non-trivial = prior contents and at least 2 source rows')
    trusted = [
        'Coq 8.16.1 kernel; no axioms',
        'translator/dbprog.py (fail-closed ast grammar over petl/io/db.py: loaders, _todb routing, todb / appenddb wrappers)',
        'model/Db.v: meaning of DELETE / INSERT / commit / close on a connection in default transactional mode, row-by-row '
        'executemany, width check; validated against sqlite3 by this correspondence run',
        'sqlite3 (CPython module + SQLite) as the database; extraction + OCaml driver; harness/codec.py',
    ]
    assumptions = ['the target table exists with one column per header field', 'the handle is in DB-API default (transactional) '
                   'mode, not autocommit', 'create=True / drop=True and SQLAlchemy handles need the absent sqlalchemy package '
                   'and are not covered']

    def cases(self, rng, tier):
        n = 60 if tier == 'quick' else 1500
        for _ in range(n):
            ncols = rng.choice([1, 2, 3])
            names = rng.choice(FIELD_NAMES)[:ncols]
            tname = rng.choice(TABLE_NAMES)
            prior = tuple(tuple(rng.choice(CELLS) for _ in range(ncols)) for _ in range(rng.choice([0, 1, 2, 3])))
            nrows = rng.choice([0, 1, 2, 3, 4])
            rows = []
            for _ in range(nrows):
                w = ncols if rng.random() < 0.93 else rng.choice([ncols - 1, ncols + 1])
                rows.append(tuple(rng.choice(CELLS) for _ in range(max(w, 0))))
            rows = tuple(rows)
            fail = rng.choice([None, None] + list(range(0, nrows + 2)))
            yield Case('db_load', (rng.choice(KINDS), rng.random() < 0.5, rng.random() < 0.75, names, rows, fail, prior),
                       {'table': tname})
        for c in self._big(rng, 2 if tier == 'quick' else 40):
            yield c
        if tier == 'thorough':
            rows = (('r0', 0), ('r1', 1), ('r2', 2))
            prior = (('p0', 9), ('p1', 8))
            for kind, is_todb, cm in itertools.product(KINDS, (True, False), (True, False)):
                for nr in range(0, 4):
                    for fail in [None] + list(range(0, nr + 2)):
                        yield Case('db_load', (kind, is_todb, cm, ('a', 'b'), rows[:nr], fail, prior), {'table': 't'})
                        yield Case('db_load', (kind, is_todb, cm, ('a', 'b'), rows[:nr], fail, ()), {'table': 'my table'})
                    for bad in range(nr):
                        rr = tuple(r if i != bad else r[:1] for i, r in enumerate(rows[:nr]))
                        yield Case('db_load', (kind, is_todb, cm, ('a', 'b'), rr, None, prior), {'table': 't'})

    def _big(self, rng, count):
        rows = tuple(('r%d' % i, i) for i in range(2500))
        prior = (('p0', 9), ('p1', 8))
        for _ in range(count):
            fail = rng.choice([None, 1, 999, 1001, 1200, 2001, 2501])
            yield Case('db_load', (rng.choice(KINDS), rng.random() < 0.5, True, ('a', 'b'), rows, fail, prior), {'table': 't'})

    def search(self, rng, broken, runner):
        for c in self._big(rng, 24):
            yield c
        for i in range(10):
            for c in self.cases(random.Random(rng.random()), 'quick'):
                yield c

    def impl(self, case):
        import petl as etl
        kind, is_todb, cm, names, rows, fail, prior = case.arg
        tname = case.meta.get('table', 't')
        try:
            with tempfile.TemporaryDirectory(dir='/var/tmp') as td:
                path = os.path.join(td, 'db.sqlite')
                c0 = sqlite3.connect(path)
                c0.execute('CREATE TABLE %s (%s)' % (q(tname), ', '.join(q(f) for f in names)))
                c0.executemany('INSERT INTO %s VALUES (%s)' % (q(tname), ', '.join('?' * len(names))), [tuple(r) for r in prior])
                c0.commit()
                c0.close()
                conn = None
                if kind == 'filename':
                    handle = path
                else:
                    conn = sqlite3.connect(path)
                    if kind == 'connection':
                        handle = conn
                    elif kind == 'cursor':
                        handle = conn.cursor()
                    else:
                        handle = lambda: conn.cursor()   # noqa
                raised = False
                try:
                    (etl.todb if is_todb else etl.appenddb)(FailingTable(names, rows, fail), handle, tname, commit=cm)
                except (SrcError, sqlite3.ProgrammingError):
                    raised = True
                fresh = sqlite3.connect(path, timeout=2)
                try:
                    seen = fresh.execute('SELECT * FROM %s' % q(tname)).fetchall()
                finally:
                    fresh.close()
                own = None
                hdr_ok = True
                if conn is not None:
                    back = list(etl.fromdb(conn, 'SELECT * FROM %s' % q(tname)))
                    hdr_ok = tuple(back[0]) == tuple(names)
                    own = [tuple(r) for r in back[1:]]
                    conn.close()
                # a connection opened afterwards sees the same as `fresh` did (nothing is committed late)
                late = sqlite3.connect(path)
                try:
                    seen_late = late.execute('SELECT * FROM %s' % q(tname)).fetchall()
                finally:
                    late.close()
        except Exception as e:   # noqa
            self._store(case, None)
            return obs_exc(e)
        # the property itself, on the real database
        prior_l = [tuple(r) for r in prior]
        want = ([] if is_todb else prior_l) + [tuple(r) for r in rows]
        if raised:
            ok = seen == prior_l and seen_late == prior_l
        else:
            ok = (seen == (want if cm else prior_l)) and (own is None or own == want) and hdr_ok and seen_late == seen
        self._store(case, ok)
        return ('tu', (codec.t_bool(raised), rows_tree(seen), ('N',) if own is None else rows_tree(own)))

    def _store(self, case, ok):
        if not hasattr(self, '_oks'):
            self._oks = {}
        if len(self._oks) > 50000:
            self._oks.clear()
        self._oks[case.key()] = ok

    def spec(self, case, impl_obs, model_obs):
        ok = getattr(self, '_oks', {}).get(case.key())
        return None if ok is None else bool(ok)

    def valid(self, case):
        try:
            kind, is_todb, cm, names, rows, fail, prior = case.arg
            if kind not in KINDS or not isinstance(is_todb, bool) or not isinstance(cm, bool):
                return False
            if not (1 <= len(names) <= 3) or len(set(names)) != len(names) or not all(isinstance(f, str) and f for f in names):
                return False
            if not all(len(r) == len(names) for r in prior):
                return False
            if not (fail is None or (isinstance(fail, int) and 0 <= fail <= len(rows) + 1)):
                return False
            ok_cell = lambda x: x is None or (isinstance(x, (int, float, str)) and not isinstance(x, bool))   # noqa
            return all(ok_cell(x) for r in tuple(rows) + tuple(prior) for x in r)
        except Exception:
            return False

    def nontrivial(self, case):
        try:
            return len(case.arg[4]) >= 2 and len(case.arg[6]) >= 1
        except Exception:
            return True


PROP = C17
