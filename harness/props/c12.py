"""C12 — row- and field-level transforms touch only what they are asked to."""
from collections import OrderedDict

from .. import codec, gen, zoo
from ..core import Prop, Case, obs_rows, obs_exc
from .c13 import vpred_fn


def canon_exc_rows(view):
    """Rows with exception objects (failonerror='inline') rendered as ('!exc', ClassName)."""
    for r in view:
        yield tuple(('!exc', type(x).__name__) if isinstance(x, Exception) else x for x in r)


def fresh(v):
    """an object equal to v but (where CPython allows) not identical with it, so that `is` and `==` can be told apart"""
    if isinstance(v, str) and len(v) >= 2:
        return ''.join(list(v))
    if isinstance(v, float):
        return float(repr(v))
    if isinstance(v, tuple):
        return tuple(fresh(x) for x in v)
    return v


def call_transform(arg):
    import petl as etl
    nm = arg[0]
    a = arg[1:]
    L = lambda t: [[fresh(c) for c in r] for r in t]
    if nm == 'cut':
        spec, missing, t = a
        return etl.cut(L(t), *spec, missing=missing)
    if nm == 'cutout':
        spec, missing, t = a
        return etl.cutout(L(t), *spec, missing=missing)
    if nm == 'movefield':
        f, i, t = a
        return etl.movefield(L(t), f, i)
    if nm == 'cat':
        missing, header, ts = a
        return etl.cat(*[L(t) for t in ts], missing=missing, header=list(header) if header is not None else None)
    if nm == 'stack':
        missing, trim, pad, ts = a
        return etl.stack(*[L(t) for t in ts], missing=missing, trim=trim, pad=pad)
    if nm == 'annex':
        missing, ts = a
        return etl.annex(*[L(t) for t in ts], missing=missing)
    if nm == 'addfield':
        field, fv, index, missing, t = a
        value = fv[1] if fv[0] == 'const' else zoo.ROWFN[fv[1]]
        return etl.addfield(L(t), field, value, index=index, missing=missing)
    if nm == 'addcolumn':
        field, col, index, missing, t = a
        return etl.addcolumn(L(t), field, list(col), index=index, missing=missing)
    if nm == 'addrownumbers':
        start, step, field, t = a
        return etl.addrownumbers(L(t), start, step, field)
    if nm == 'rename':
        spec, strict, t = a
        return etl.rename(L(t), OrderedDict(spec), strict=strict)
    if nm == 'setheader':
        return etl.setheader(L(a[1]), list(a[0]))
    if nm == 'extendheader':
        return etl.extendheader(L(a[1]), list(a[0]))
    if nm == 'pushheader':
        return etl.pushheader(L(a[1]), list(a[0]))
    if nm == 'prefixheader':
        return etl.prefixheader(L(a[1]), a[0])
    if nm == 'suffixheader':
        return etl.suffixheader(L(a[1]), a[0])
    if nm == 'sortheader':
        rev, missing, t = a
        return etl.sortheader(L(t), reverse=rev, missing=missing)
    if nm == 'filldown':
        fields, missing, t = a
        return etl.filldown(L(t), *fields, missing=missing)
    if nm == 'fillright':
        return etl.fillright(L(a[1]), missing=a[0])
    if nm == 'fillleft':
        return etl.fillleft(L(a[1]), missing=a[0])
    if nm == 'convert':
        cs, pol, errorvalue, where, t = a
        convs = OrderedDict((k, zoo.conv_of(c)) for k, c in cs)
        kw = {}
        if where is not None:
            f, vp = where[1], where[2]
            test = vpred_fn(vp)
            kw['where'] = lambda rec: test(rec[f])
        if any(c is not None and c[0] == 'fn' and c[1] in (6, 8) for _, c in cs):
            kw['pass_row'] = True
        return canon_exc_rows(etl.convert(L(t), convs, failonerror=pol, errorvalue=errorvalue, **kw))
    if nm == 'fieldmap':
        ms, pol, errorvalue, t = a
        mp = OrderedDict()
        for out, m in ms:
            if m[0] == 'field':
                mp[out] = m[1]
            elif m[0] == 'rowfn':
                mp[out] = zoo.ROWFN[m[1]]
            else:
                c = zoo.conv_of(m[2])
                mp[out] = (m[1], (lambda v, c=c: getattr(v, c)()) if isinstance(c, str) else c)
        return canon_exc_rows(etl.fieldmap(L(t), mp, failonerror=pol, errorvalue=errorvalue))
    if nm == 'rowmap':
        i, header, pol, t = a
        return canon_exc_rows(etl.rowmap(L(t), zoo.ROWMAPPER[i], header=list(header), failonerror=pol))
    if nm == 'rowmapmany':
        i, header, pol, t = a
        return canon_exc_rows(etl.rowmapmany(L(t), zoo.ROWGEN[i], header=list(header), failonerror=pol))
    raise ValueError(nm)


def exc_to_user(obs):
    """UserError raised by zoo functions is reported by the model as ('!err','UserError',tag)."""
    return obs


class C12(Prop):
    pid = 'C12'
    props_files = ['props/C12.v']
    gen_items = ['ComparableGen', 'AsIndicesGen']
    rule = ('tables with ragged rows (short, long, empty) and duplicate field names x cut/cutout/movefield/cat/stack/annex/'
            'addfield(s)/addcolumn/addrownumbers/rename/setheader/extendheader/pushheader/prefix/suffix/sortheader/filldown/'
            'fillright/fillleft/convert(+where, dict, pass_row)/fieldmap x selection by name / index / mixed x negative and '
            'out-of-range insertion indices; non-trivial = at least 2 data rows')
    trusted = [
        'Coq 8.16.1 kernel; no axioms',
        'model/Transforms.v and model/Basics.v hand transcriptions (tied by this correspondence run); list.insert, '
        'zip_longest, itertools.count modelled on lists; the callable zoo is defined on both sides',
        'translators (asindices is regenerated); extraction + OCaml driver; harness/codec.py',
    ]
    assumptions = ['header fields are text; converters are drawn from the zoo']

    def _table(self, rng, ragged=True, dup=False):
        hdr = ['k', 'a', 'v']
        if dup and rng.random() < 0.3:
            hdr = ['k', 'a', 'k']
        n = rng.choice([0, 1, 2, 3, 5])
        rows = []
        for _ in range(n):
            r = [rng.choice([None, 0, 1, 2, 'x', 'b']), rng.choice(['x', 'y', 'xy', None]), rng.choice([1, 2, 3, None])]
            if ragged and rng.random() < 0.3:
                r = r[:rng.choice([0, 1, 2])] if rng.random() < 0.7 else r + ['extra']
            rows.append(tuple(r))
        return (tuple(hdr),) + tuple(rows)

    def cases(self, rng, tier):
        n = 50 if tier == 'quick' else 700
        for _ in range(n):
            t = self._table(rng, dup=True)
            t2 = self._table(rng)
            h = t[0]
            spec = rng.choice([('v', 'k'), (0, 2), ('k', 1), ('a',), (2, 'k', 'a'), ('k', 'k') if h.count('k') > 1 else ('k',)])
            missing = rng.choice([None, None, 'M'])
            yield Case('transform', ('cut', spec, missing, t))
            # the accessors on the same (ragged) table: fields in any order, by name or position
            tu = self._table(rng)
            yield Case('accessors', (rng.choice([('v', 'k'), ('a',), (2, 0), ('v', 'a', 'k'), ('k', 'v'), (1,)]), missing, tu))
            yield Case('reshape', ('dicts', missing, t))
            yield Case('transform', ('cutout', spec[:rng.choice([1, 2])], missing, t))
            yield Case('transform', ('movefield', rng.choice(['v', 'a', 'k']), rng.choice([0, 1, 2, 5, -1]), t))
            yield Case('transform', ('cat', missing, rng.choice([None, None, ('v', 'k', 'z')]), (t, t2)))
            # a later table brings a new field name, and brings it twice
            t3 = (rng.choice([('z', 'k', 'z'), ('k', 'z', 'z'), ('z', 'z', 'y')]),) + tuple(t2[1:])
            yield Case('transform', ('cat', missing, None, (t, t3)))
            yield Case('transform', ('cat', missing, None, (t2, t3, t)))
            yield Case('transform', ('stack', missing, rng.random() < 0.8, rng.random() < 0.8, (t, t2)))
            yield Case('transform', ('annex', missing, (t, t2)))
            yield Case('transform', ('addfield', 'n', rng.choice([('const', 42), ('const', None), ('fn', 0), ('fn', 1),
                                                                  ('fn', 2)]),
                                     rng.choice([None, 0, 1, 3, 7, -1, -5]), missing, t))
            yield Case('addfields', ((('n', ('const', 1)), ('m', ('fn', 1), rng.choice([0, 1, -1, 9])), ('p', ('const', 'z'))),
                                     missing, t))
            yield Case('transform', ('addcolumn', 'c', tuple(rng.choice([10, 20, None]) for _ in range(rng.choice([0, 2, 4]))),
                                     rng.choice([None, 0, 1, 5, -1]), missing, t))
            yield Case('transform', ('addrownumbers', rng.choice([1, 0, 5]), rng.choice([1, 2]), 'row', t))
            yield Case('transform', ('rename', rng.choice([(('a', 'b'),), (('a', 'b'), ('v', 'w')), ((0, 'z'), ('a', 'b')),
                                                           (('zz', 'y'),), ((5, 'y'),)]), rng.random() < 0.6, t))
            # renaming by name reaches every field of that name; a position wins over a name
            yield Case('transform', ('rename', rng.choice([(('k', 'kk'),), ((0, 'z'), ('k', 'kk')), (('k', 'kk'), (2, 'z')),
                                                           (('k', 'a'), ('a', 'k'))]), rng.random() < 0.6, t))
            yield Case('transform', ('setheader', ('x', 'y', 'z'), t))
            yield Case('transform', ('extendheader', ('e',), t))
            yield Case('transform', ('pushheader', ('x', 'y', 'z'), t))
            yield Case('transform', ('prefixheader', 'p_', t))
            yield Case('transform', ('suffixheader', '_s', t))
            yield Case('transform', ('sortheader', False, missing, t))
            # headers that are in order already (ascending / descending): ragged rows are still squared up
            hp = rng.choice([('a', 'k', 'v'), ('v', 'k', 'a'), ('a', 'k', 'v'), ('k', 'v', 'a')])
            yield Case('transform', ('sortheader', rng.random() < 0.4, missing, (hp,) + tuple(t[1:])))
            rect = self._table(rng, ragged=False)
            yield Case('transform', ('filldown', rng.choice([(), ('k',), ('a', 'v')]), rng.choice([None, None, 'x', 'xy']), rect))
            yield Case('transform', ('fillright', rng.choice([None, None, 'x', 'xy']), t))
            yield Case('transform', ('fillleft', rng.choice([None, None, 'x', 'xy']), t))
            yield Case('reshape', ('columns', missing, t2))       # (unique field names)
            yield Case('sub', (rng.choice(['x', 'y', '[xy]', 'xy']), rng.choice(['-', '', 'Z']), rng.choice([0, 1, 2]),
                               tuple(rng.choice(['xx', 'xyxy', 'axbxc', '', 'y']) for _ in range(rng.choice([1, 3])))))
            cs = rng.choice([(('a', ('fn', 0)),), (('a', ('fn', 0)), ('v', ('fn', 2))), ((1, ('fn', 0)),),
                             (('k', ('dict', ((1, 'one'), ('x', 'X')))),), (('v', ('fn', 6)),), (('a', None), ('v', ('fn', 5))),
                             (('zz', ('fn', 0)),)])
            where = rng.choice([None, None, ('field', 'k', ('eq', 1)), ('field', 'v', ('isnone',))])
            if any(c is not None and c[0] == 'fn' and c[1] in (6, 8) for _, c in cs):
                where = None
            yield Case('transform', ('convert', cs, False, rng.choice([None, 'ERR']), where, t))
            yield Case('transform', ('fieldmap', (('kk', ('field', 'k')), ('aa', ('fieldconv', 'a', ('fn', 0))),
                                                  ('n', ('rowfn', 1)), ('v2', ('fieldconv', 'v', ('fn', 2)))),
                                     False, rng.choice([None, 'ERR']), t))

    def expand(self, case):
        if case.op == 'sub':
            return Case('const_true', case.arg, dict(case.meta, orig='sub'))
        if case.op == 'accessors':
            return Case('const_true', ('accessors',) + tuple(case.arg), dict(case.meta, orig='accessors'))
        return case

    def _accessors(self, sel, missing, t):
        """values / data / records / namedtuples / dicts: one item per data row, in order, every cell under its own field,
        `missing` for the cells a short row does not have, extra cells of long rows kept by data / records and trimmed by
        namedtuples / dicts"""
        import petl as etl
        hdr = list(t[0])
        src = lambda: [list(r) for r in t]   # noqa
        cell = lambda r, i: r[i] if i < len(r) else missing   # noqa
        idx = [f if isinstance(f, int) else hdr.index(f) for f in sel]
        got = list(etl.values(src(), *sel, missing=missing))
        want = [cell(r, idx[0]) for r in t[1:]] if len(sel) == 1 else [tuple(cell(r, i) for i in idx) for r in t[1:]]
        if [tuple(g) if len(sel) > 1 else g for g in got] != want:
            return False
        if [tuple(r) for r in etl.data(src())] != [tuple(r) for r in t[1:]]:
            return False
        recs = list(etl.records(src(), missing=missing))
        if [tuple(r) for r in recs] != [tuple(r) for r in t[1:]]:
            return False
        for rec, r in zip(recs, t[1:]):
            for i, f in enumerate(hdr):
                if hdr.index(f) == i and rec[f] != cell(r, i):
                    return False
        nts = list(etl.namedtuples(src(), missing=missing)) if all(f.isidentifier() for f in hdr) else None
        if nts is not None and [tuple(n) for n in nts] != [tuple(cell(r, i) for i in range(len(hdr))) for r in t[1:]]:
            return False
        return True

    def impl(self, case):
        try:
            if case.op == 'const_true' and case.arg and case.arg[0] == 'accessors':
                return codec.t_bool(self._accessors(*case.arg[1:]))
            if case.op == 'const_true':
                # sub(table, field, pattern, repl, count): re.sub on that field only, the other cells untouched
                import re
                import petl as etl
                pat, repl, count, vals = case.arg
                src = [['id', 'txt', 'other']] + [[i, v, v] for i, v in enumerate(vals)]
                got = [tuple(r) for r in etl.sub(src, 'txt', pat, repl, count=count)]
                want = [('id', 'txt', 'other')] + [(i, re.sub(pat, repl, v, count=count), v) for i, v in enumerate(vals)]
                return codec.t_bool(got == want)
            if case.op == 'reshape':      # dicts() / columns(): short rows are padded with `missing`, long ones trimmed
                import petl as etl
                _nm, missing, t = case.arg
                from ..core import obs_call
                if _nm == 'columns':
                    return obs_call(lambda: [(k, list(v)) for k, v in etl.columns([list(r) for r in t], missing=missing).items()])
                return obs_call(lambda: [list(d.items()) for d in etl.dicts([list(r) for r in t], missing=missing)])
            if case.op == 'addfields':
                import petl as etl
                defs, missing, t = case.arg
                fd = []
                for d in defs:
                    v = d[1][1] if d[1][0] == 'const' else zoo.ROWFN[d[1][1]]
                    fd.append((d[0], v) + tuple(d[2:]))
                return obs_rows(etl.addfields([list(r) for r in t], fd, missing=missing))
            return obs_rows(call_transform(case.arg))
        except Exception as e:   # noqa
            return obs_exc(e)

    def valid(self, case):
        if case.op == 'accessors' or (case.op == 'const_true' and case.arg and case.arg[0] == 'accessors'):
            try:
                sel, missing, t = case.arg[-3:]
                return (len(t) >= 1 and tuple(t[0]) == ('k', 'a', 'v') and 1 <= len(sel) <= 3
                        and all(f in t[0] or (isinstance(f, int) and 0 <= f < 3) for f in sel))
            except Exception:
                return False
        if case.op in ('const_true', 'sub'):
            try:
                pat, repl, count, vals = case.arg
                import re
                re.compile(pat)
                return isinstance(count, int) and count >= 0 and all(isinstance(v, str) for v in vals) and isinstance(repl, str)
            except Exception:
                return False
        try:
            ts = case.arg[-1]
            if case.arg[0] in ('cat', 'stack', 'annex'):
                return all(len(t) >= 1 and len(t[0]) == 3 for t in ts)
            return len(ts) >= 1 and len(ts[0]) == 3 and all(isinstance(f, str) for f in ts[0])
        except Exception:
            return False

    def spec(self, case, impl_obs, model_obs):
        """one output row per input row, in input order, for the 1:1 transforms; cells outside the requested fields
        carried over unchanged (checked independently of the model for cut/addfield/convert)."""
        if case.op == 'const_true':
            return impl_obs == codec.t_bool(True)
        if case.op == 'reshape' and case.arg[0] == 'columns' and impl_obs[0] == 'li':
            _nm, missing, t = case.arg
            flds = list(t[0])
            if len(set(flds)) != len(flds):
                return None
            want = [('tu', (codec.canon(f), ('li', tuple(codec.canon(r[i] if i < len(r) else missing) for r in t[1:]))))
                    for i, f in enumerate(flds)]
            return impl_obs == ('li', tuple(want))
        if case.op == 'reshape' and impl_obs[0] == 'li':
            # every record has exactly the header's fields, in order, with the row's cells (padded / trimmed)
            _nm, missing, t = case.arg
            flds = [str(f) for f in t[0]]
            want = []
            for r in t[1:]:
                d = OrderedDict()
                for i, f in enumerate(flds):
                    d[f] = r[i] if i < len(r) else missing
                want.append(('li', tuple(('tu', (codec.canon(k), codec.canon(v))) for k, v in d.items())))
            return impl_obs == ('li', tuple(want))
        if impl_obs[0] != 'li' or case.op != 'transform':
            return None
        nm = case.arg[0]
        t = case.arg[-1]
        one_to_one = ('cut', 'cutout', 'movefield', 'addfield', 'addrownumbers', 'rename', 'setheader', 'extendheader',
                      'prefixheader', 'suffixheader', 'sortheader', 'filldown', 'fillright', 'fillleft', 'convert', 'fieldmap')
        if nm in one_to_one and len(impl_obs[1]) != len(t):
            return False
        rows_in = [tuple(codec.canon(x) for x in r) for r in t[1:]] if nm not in ('cat', 'stack', 'annex') else None
        out = [r[1] for r in impl_obs[1][1:]]
        if nm == 'rename':
            spec = dict(case.arg[1])
            want_hdr = tuple(codec.canon(spec[i] if i in spec else spec[f] if f in spec else f) for i, f in enumerate(t[0]))
            return out == rows_in and impl_obs[1][0][1] == want_hdr        # a position wins over a name; every field of a name
        if nm == 'cat' and case.arg[2] is None:
            # fields of the first table, then every new name once in order of appearance; cells matched by name (the first field
            # of that name), `missing` where a table or a short row has none; one output row per input row, tables in order
            missing, tabs = case.arg[1], t
            outhdr = list(tabs[0][0]) if tabs and len(tabs[0]) else []
            for tb in tabs[1:]:
                for h in (tb[0] if len(tb) else ()):
                    if h not in outhdr:
                        outhdr.append(h)
            want = []
            for tb in tabs:
                hdr = list(tb[0]) if len(tb) else []
                for r in tb[1:]:
                    want.append(tuple(codec.canon(r[hdr.index(h)] if h in hdr and hdr.index(h) < len(r) else missing)
                                      for h in outhdr))
            return out == want and impl_obs[1][0][1] == tuple(codec.canon(h) for h in outhdr)
        if nm == 'annex':
            # headers side by side; the j-th output row is, table by table, the j-th row squared up to that table's own
            # header (padded with `missing`, longer rows trimmed), all `missing` once a table is exhausted
            missing, tabs = case.arg[1], t
            if not all(len(tb) >= 1 for tb in tabs):
                return None
            outhdr = [h for tb in tabs for h in tb[0]]
            n = max(len(tb) - 1 for tb in tabs)
            want = []
            for j in range(n):
                row = []
                for tb in tabs:
                    w = len(tb[0])
                    r = list(tb[1 + j]) if 1 + j < len(tb) else []
                    row.extend((r + [missing] * w)[:w])
                want.append(tuple(codec.canon(x) for x in row))
            return out == want and impl_obs[1][0][1] == tuple(codec.canon(h) for h in outhdr)
        if nm in ('setheader', 'extendheader', 'prefixheader', 'suffixheader'):
            return out == rows_in                                   # data rows untouched
        if nm == 'addrownumbers':
            start, step = case.arg[1], case.arg[2]
            return all(o[1:] == i and o[0] == codec.canon(start + j * step) for j, (o, i) in enumerate(zip(out, rows_in)))
        if nm == 'sortheader' and len(set(t[0])) == len(t[0]) and not case.arg[1]:
            # fields in sorted order, every row carrying its own cells under them, squared up with `missing`
            # (the undocumented `reverse` argument is ignored by the code as it stands; only the documented order is judged)
            rev, missing = case.arg[1], case.arg[2]
            order = sorted(range(len(t[0])), key=lambda i: t[0][i])
            want = [tuple(codec.canon(r[i] if i < len(r) else missing) for i in order) for r in t[1:]]
            return out == want and impl_obs[1][0][1] == tuple(codec.canon(t[0][i]) for i in order)
        if nm == 'convert':
            cs = case.arg[1]
            touched = set()
            for k, c in cs:
                touched.add(k if isinstance(k, int) else (t[0].index(k) if k in t[0] else None))
            for o, i in zip(out, rows_in):
                if len(o) != len(i):
                    return False
                for j, (x, y) in enumerate(zip(o, i)):
                    if j not in touched and x != y:
                        return False
            return True
        return None

    def nontrivial(self, case):
        t = case.arg[-1]
        if case.op == 'transform' and case.arg[0] in ('cat', 'stack', 'annex'):
            return sum(len(x) - 1 for x in t) >= 2
        return len(t) >= 3

    def static_checks(self):
        from .. import catalogue
        return [catalogue.method_alias_check()]


PROP = C12
