(* C08 — set operations obey multiset algebra.
   zcnt r l = number of rows of l that are == r.  Proved here, for all tables: the Counter-based variants
   (hashcomplement, strict hashcomplement, hashintersection) have exactly the prescribed multiplicities and reassemble a.
   The same laws hold for the sort-merge variants (the two-pointer loops of itercomplement / iterintersection as written,
   model/SetOps.v) on inputs sorted by the Comparable order (proofs/MergeFacts.v, induction on the two streams), so the
   merge and the hash variants deliver the same multisets.  Hypothesis of the merge theorems: on the rows in play raw ==
   coincides with the equivalence of the Comparable order (no list-valued cells; the harness judges the conclusion on the
   implementation's output for every generated table anyway). *)
From Verif Require Import PyVal Rows Order SetOps SetSpec SetFacts MergeFacts.
From Coq Require Import Sorted.
Open Scope Z_scope.

Theorem C08_hashcomplement_is_multiset_difference : forall ra rb r,
  zcnt r (hashcomp_loop false (cnt_of rb) ra) = Z.max 0 (zcnt r ra - zcnt r rb).
Proof. exact hashcomplement_is_multiset_difference. Qed.

Theorem C08_hashcomplement_strict : forall ra rb r,
  zcnt r (hashcomp_loop true (cnt_of rb) ra) = if 0 <? zcnt r rb then 0 else zcnt r ra.
Proof. exact hashcomplement_strict_spec. Qed.

Theorem C08_hashintersection_is_multiset_intersection : forall ra rb r,
  zcnt r (hashinter_loop (cnt_of rb) ra) = Z.min (zcnt r ra) (zcnt r rb).
Proof. exact hashintersection_is_multiset_intersection. Qed.

Theorem C08_hash_complement_intersection_reassemble : forall ra rb r,
  zcnt r (hashcomp_loop false (cnt_of rb) ra) + zcnt r (hashinter_loop (cnt_of rb) ra) = zcnt r ra.
Proof. exact hash_reassemble. Qed.

Theorem C08_row_equality_is_equivalence :
  (forall r, row_eq r r = true) /\ (forall a b, row_eq a b = row_eq b a)
  /\ (forall a b d, row_eq a b = true -> row_eq b d = true -> row_eq a d = true).
Proof. repeat split; [exact row_eq_refl | exact row_eq_sym | exact row_eq_trans]. Qed.

Theorem C08_complement_is_multiset_difference : forall (ok : row -> Prop),
  (forall a b, ok a -> ok b -> row_eq a b = is_eq (rcmp a b)) ->
  forall ra rb, StronglySorted rle ra -> StronglySorted rle rb -> Forall ok ra -> Forall ok rb -> forall r, ok r ->
  zcnt r (itercomplement_data false ra rb) = Z.max 0 (zcnt r ra - zcnt r rb).
Proof. exact merge_complement_is_multiset_difference. Qed.

Theorem C08_complement_strict : forall (ok : row -> Prop),
  (forall a b, ok a -> ok b -> row_eq a b = is_eq (rcmp a b)) ->
  forall ra rb, StronglySorted rle ra -> StronglySorted rle rb -> Forall ok ra -> Forall ok rb -> forall r, ok r ->
  zcnt r (itercomplement_data true ra rb) = if 0 <? zcnt r rb then 0 else zcnt r ra.
Proof. exact merge_complement_strict_spec. Qed.

Theorem C08_intersection_is_multiset_intersection : forall (ok : row -> Prop),
  (forall a b, ok a -> ok b -> row_eq a b = is_eq (rcmp a b)) ->
  forall ra rb, StronglySorted rle ra -> StronglySorted rle rb -> Forall ok ra -> Forall ok rb -> forall r, ok r ->
  zcnt r (iterintersection_data ra rb) = Z.min (zcnt r ra) (zcnt r rb).
Proof. exact merge_intersection_is_multiset_intersection. Qed.

Theorem C08_merge_and_hash_variants_agree : forall (ok : row -> Prop),
  (forall a b, ok a -> ok b -> row_eq a b = is_eq (rcmp a b)) ->
  forall ra rb, StronglySorted rle ra -> StronglySorted rle rb -> Forall ok ra -> Forall ok rb -> forall r, ok r ->
  zcnt r (itercomplement_data false ra rb) = zcnt r (hashcomp_loop false (cnt_of rb) ra) /\
  zcnt r (itercomplement_data true ra rb) = zcnt r (hashcomp_loop true (cnt_of rb) ra) /\
  zcnt r (iterintersection_data ra rb) = zcnt r (hashinter_loop (cnt_of rb) ra).
Proof. exact merge_agrees_with_hash. Qed.

Theorem C08_complement_intersection_reassemble : forall (ok : row -> Prop),
  (forall a b, ok a -> ok b -> row_eq a b = is_eq (rcmp a b)) ->
  forall ra rb, StronglySorted rle ra -> StronglySorted rle rb -> Forall ok ra -> Forall ok rb -> forall r, ok r ->
  zcnt r (itercomplement_data false ra rb) + zcnt r (iterintersection_data ra rb) = zcnt r ra.
Proof. exact merge_reassemble. Qed.

(* end to end: the model of complement / intersection itself (sort both inputs as whole rows, then merge) on two
   rectangular tables given in any order *)
Theorem C08_complement_of_unsorted_tables : forall (ok : row -> Prop),
  (forall a b, ok a -> ok b -> row_eq a b = is_eq (rcmp a b)) ->
  forall ha hb ra rb, Forall (fun r : row => length r = length ha) ra -> Forall (fun r : row => length r = length hb) rb ->
  ha <> [] -> hb <> [] -> Forall ok ra -> Forall ok rb -> forall r, ok r ->
  exists out, setop_model (OpComplement false) false None (ha :: ra) (hb :: rb) = (ha :: out, None) /\
              zcnt r out = Z.max 0 (zcnt r ra - zcnt r rb).
Proof. exact complement_model_is_multiset_difference. Qed.

Theorem C08_intersection_of_unsorted_tables : forall (ok : row -> Prop),
  (forall a b, ok a -> ok b -> row_eq a b = is_eq (rcmp a b)) ->
  forall ha hb ra rb, Forall (fun r : row => length r = length ha) ra -> Forall (fun r : row => length r = length hb) rb ->
  ha <> [] -> hb <> [] -> Forall ok ra -> Forall ok rb -> forall r, ok r ->
  exists out, setop_model OpIntersection false None (ha :: ra) (hb :: rb) = (ha :: out, None) /\
              zcnt r out = Z.min (zcnt r ra) (zcnt r rb).
Proof. exact intersection_model_is_multiset_intersection. Qed.

(* the hypotheses are satisfiable: rows of scalars satisfy the compatibility, and a sorted pair of streams exists *)
Example C08_ex_merge :
  let a := [[VNone]; [VNum KInt (Fin 1)]; [VNum KInt (Fin 1)]; [VStr [97]]] in
  let b := [[VNum KBool (Fin 1)]; [VStr [98]]] in
  itercomplement_data false a b = [[VNone]; [VNum KInt (Fin 1)]; [VStr [97]]] /\
  iterintersection_data a b = [[VNum KInt (Fin 1)]] /\
  row_eq [VNum KInt (Fin 1)] [VNum KBool (Fin 1)] = is_eq (rcmp [VNum KInt (Fin 1)] [VNum KBool (Fin 1)]).
Proof. vm_compute. auto. Qed.

Example C08_ex :
  let a := [[VNum KInt (Fin 1)]; [VNone]; [VNum KInt (Fin 1)]; [VStr [97]]] in
  let b := [[VNum KBool (Fin 1)]; [VStr [98]]] in
  hashcomp_loop false (cnt_of b) a = [[VNone]; [VNum KInt (Fin 1)]; [VStr [97]]]
  /\ hashinter_loop (cnt_of b) a = [[VNum KInt (Fin 1)]].
Proof. split; reflexivity. Qed.

Print Assumptions C08_hashcomplement_is_multiset_difference.
Print Assumptions C08_hashcomplement_strict.
Print Assumptions C08_hashintersection_is_multiset_intersection.
Print Assumptions C08_hash_complement_intersection_reassemble.
Print Assumptions C08_row_equality_is_equivalence.
Print Assumptions C08_complement_is_multiset_difference.
Print Assumptions C08_complement_strict.
Print Assumptions C08_intersection_is_multiset_intersection.
Print Assumptions C08_merge_and_hash_variants_agree.
Print Assumptions C08_complement_intersection_reassemble.
Print Assumptions C08_complement_of_unsorted_tables.
Print Assumptions C08_intersection_of_unsorted_tables.
