(* C08 — set operations obey multiset algebra.
   zcnt r l = number of rows of l that are == r.  Proved here, for all tables: the Counter-based variants
   (hashcomplement, strict hashcomplement, hashintersection) have exactly the prescribed multiplicities and reassemble a.
   The same laws for the sort-merge variants (complement / intersection two-pointer loops of model/SetOps.v) are
   NOT mechanised in this file: they are judged on every run by the extracted oracle SetSpec.setop_spec_holds /
   reassemble_holds on the implementation's output (statement kept visible below as a comment). *)
From Verif Require Import PyVal Rows SetOps SetSpec SetFacts.
Open Scope Z_scope.

Theorem C08_hashcomplement_is_multiset_difference : forall ra rb r,
  zcnt r (hashcomp_loop false (cnt_of rb) ra) = Z.max 0 (zcnt r ra - zcnt r rb).
Proof. exact hashcomplement_is_multiset_difference. Qed.

Theorem C08_hashcomplement_strict : forall ra rb r,
  zcnt r (hashcomp_loop true (cnt_of rb) ra) = if 0 <? zcnt r rb then 0 else zcnt r ra.
Proof. exact hashcomplement_strict_spec. Qed.

Theorem C08_hashintersection_is_multiset_intersection : forall ra rb r,
  zcnt r (hashinter_loop (cnt_of rb) ra) = Z.min (zcnt r ra) (zcnt r rb).
Proof. exact hashintersection_is_multiset_intersection. Qed.

Theorem C08_hash_complement_intersection_reassemble : forall ra rb r,
  zcnt r (hashcomp_loop false (cnt_of rb) ra) + zcnt r (hashinter_loop (cnt_of rb) ra) = zcnt r ra.
Proof. exact hash_reassemble. Qed.

Theorem C08_row_equality_is_equivalence :
  (forall r, row_eq r r = true) /\ (forall a b, row_eq a b = row_eq b a)
  /\ (forall a b d, row_eq a b = true -> row_eq b d = true -> row_eq a d = true).
Proof. repeat split; [exact row_eq_refl | exact row_eq_sym | exact row_eq_trans]. Qed.

(* target statement for the merge variants (not yet mechanised):
   forall strict a b r, sorted a -> sorted b ->
     zcnt r (itercomplement_data strict a b) = (if strict then (if 0 <? zcnt r b then 0 else zcnt r a) else Z.max 0 (zcnt r a - zcnt r b))
     /\ zcnt r (iterintersection_data a b) = Z.min (zcnt r a) (zcnt r b) *)

Example C08_ex :
  let a := [[VNum KInt (Fin 1)]; [VNone]; [VNum KInt (Fin 1)]; [VStr [97]]] in
  let b := [[VNum KBool (Fin 1)]; [VStr [98]]] in
  hashcomp_loop false (cnt_of b) a = [[VNone]; [VNum KInt (Fin 1)]; [VStr [97]]]
  /\ hashinter_loop (cnt_of b) a = [[VNum KInt (Fin 1)]].
Proof. split; reflexivity. Qed.

Print Assumptions C08_hashcomplement_is_multiset_difference.
Print Assumptions C08_hashcomplement_strict.
Print Assumptions C08_hashintersection_is_multiset_intersection.
Print Assumptions C08_hash_complement_intersection_reassemble.
Print Assumptions C08_row_equality_is_equivalence.
