(* C01 — table views are re-iterable and their iterators are mutually independent.
   For EVERY schedule of __iter__ / next / close operations on any number of iterators, every iterator yields a prefix
   of the solo pass (then StopIteration for ever).  Proved for the views whose iterators share state —
   sort() with memory/file cache (as repaired: the cache is bound to the generator when it is created), cache()
   (as repaired: rows are memoised only at the high-water mark), fromdicts(<generator>) — and for the generic
   stateless view (a private cursor).  Which views are stateless is decided by the REGENERATED catalogue below. *)
From Verif Require Import PyVal Rows Sort Machines MachineFacts Catalogue.
From Coq Require Import String List.
Import ListNotations.

Theorem C01_sort_iterators_independent : forall c src ops,
  let '(_, _, t) := mrun (sv_machine c) ops (sv_init src) [] [] in
  forall k, prefix_with_stops (Sol c src) (proj k t).
Proof. exact sortview_independent. Qed.

Theorem C01_cache_iterators_independent : forall n inner ops,
  let '(_, _, t) := mrun (cv_machine n) ops (cv_init inner) [] [] in
  forall k, prefix_with_stops (cv_sol inner) (proj k t).
Proof. exact cacheview_independent. Qed.

Theorem C01_fromdicts_generator_iterators_independent : forall hdr rows ops,
  let '(_, _, t) := mrun dg_machine ops (dg_init hdr rows) [] [] in
  forall k, prefix_with_stops (dg_sol hdr rows) (proj k t).
Proof. exact dictsgenerator_independent. Qed.

Theorem C01_stateless_iterators_independent : forall (result : list out) ops,
  (exists rows t, result = map ORow rows ++ [t] /\ match t with ORow _ => False | _ => True end) ->
  let '(_, _, t) := mrun (stateless_machine result) ops tt [] [] in
  forall k, prefix_with_stops result (proj k t).
Proof. exact stateless_independent. Qed.

(* the generic lifting used above: a one-step invariant gives independence under every schedule *)
Theorem C01_step_invariant_lifts_to_all_schedules :
  forall (S I : Type) (m : vmachine S I) (Inv : S -> Prop) (wf : S -> I -> Prop) (rem : I -> list out) (sol : list out),
  (forall s, Inv s -> let '(s', i) := vm_iter m s in Inv s' /\ wf s' i /\ rem i = sol /\ (forall j, wf s j -> wf s' j)) ->
  (forall s i, Inv s -> wf s i ->
     let '(s', i', o) := vm_next m s i in
     Inv s' /\ wf s' i' /\ ((rem i = o :: rem i') \/ (rem i = [] /\ o = OStop /\ rem i' = []))
     /\ (forall j, wf s j -> wf s' j)) ->
  forall ops s, Inv s -> let '(_, _, t) := mrun m ops s [] [] in forall k, prefix_with_stops sol (proj k t).
Proof. intros S I m Inv wf rem sol H1 H2 ops s. apply (schedule_independent m Inv wf rem sol H1 H2). Qed.

(* the views that write shared state from __iter__, as found in /repo's source on this run, are exactly the ones
   accounted for: four modelled machines (SortView, CacheView, DictsGeneratorView and the hash-join lookups, which are
   built before the generator starts and never mutated), and four benign ones whose writes do not reach the rows
   (DummyTable saves/restores the global RNG state per row; ClockView.time, ProgressView.file_object and
   AvroView.avro_schema are bookkeeping) *)
Open Scope string_scope.
Definition expected_stateful : list (string * list string * list string) := [
  ("AvroView", ["avro_schema"], []);
  ("DictsGeneratorView", ["_cached"; "_filecache"; "_header"; "dicts"], []);
  ("HashJoinView", ["rlookup"], []);
  ("HashLeftJoinView", ["rlookup"], []);
  ("HashRightJoinView", ["llookup"], []);
  ("SortView", ["_filecache"; "_getkey"; "_hdrcache"; "_memcache"], []);
  ("CacheView", ["cache"; "cachecomplete"], []);
  ("DummyTable", [], ["pyrandom.seed"; "pyrandom.setstate"]);
  ("ClockView", ["time"], []);
  ("ProgressView", ["file_object"], [])
].
Theorem C01_modelled_state_matches_source :
  map (fun v => (vf_class v, vf_writes v, vf_effects v)) stateful_views = expected_stateful.
Proof. vm_compute. reflexivity. Qed.

Print Assumptions C01_sort_iterators_independent.
Print Assumptions C01_cache_iterators_independent.
Print Assumptions C01_fromdicts_generator_iterators_independent.
Print Assumptions C01_stateless_iterators_independent.
Print Assumptions C01_step_invariant_lifts_to_all_schedules.
Print Assumptions C01_modelled_state_matches_source.
