(* C17 — database loads round-trip and are all-or-nothing when the source fails.
   gen/DbProgGen.v is REGENERATED from petl/io/db.py on every run: the sequence of calls each loader (_todb_dbapi_connection,
   _todb_dbapi_cursor, _todb_dbapi_mkcurs) makes on the handle, under the truncate / commit flags; the routing of handle
   kinds in _todb with flags forwarded unchanged; todb = truncate, appenddb = no truncate; a connection opened for a file
   name is closed in a finally clause.  model/Db.v gives the calls their meaning on a transactional connection.
   Theorems, for ALL prior contents, ALL sources (any rows, failing at the header, at any row, at exhaustion, or containing a
   row of the wrong width) and both values of each flag:
     * the regenerated programs have the canonical shape (header; DELETE iff truncating; one executemany; commit last);
     * a load that raises leaves what a fresh connection sees unchanged (C17_atomic), and with a file name leaves
       nothing pending either (C17_filename_atomic);
     * a load that does not fail makes the table hold base ++ rows (base = [] for todb, the previous visible contents for
       appenddb), committed iff commit (C17_roundtrip). *)
From Verif Require Import PyVal Db DbProgGen DbFacts.
Local Open Scope nat_scope.

Lemma shape_connection : has_shape prog_connection = true. Proof. vm_compute. reflexivity. Qed.
Lemma shape_cursor : has_shape prog_cursor = true. Proof. vm_compute. reflexivity. Qed.
Lemma shape_mkcurs : has_shape prog_mkcurs = true. Proof. vm_compute. reflexivity. Qed.
Lemma wrappers : todb_truncate = true /\ appenddb_truncate = false /\ filename_closes_in_finally = true.
Proof. vm_compute. auto. Qed.

Definition loaders := [prog_connection; prog_cursor; prog_mkcurs].
Lemma loaders_shape : forall p, In p loaders -> has_shape p = true.
Proof.
  intros p [H|[H|[H|[]]]]; subst; [exact shape_connection | exact shape_cursor | exact shape_mkcurs].
Qed.

Theorem C17_atomic : forall p, In p loaders -> forall tr cm src s,
  let '(s', raised) := dbrun src (flatten tr cm p) s in raised = true -> committed s' = committed s.
Proof. intros p Hp. exact (load_atomic p (loaders_shape p Hp)). Qed.

Theorem C17_failed_load_is_a_pending_prefix : forall p, In p loaders -> forall tr cm src s,
  let '(s', raised) := dbrun src (flatten tr cm p) s in
  raised = true -> s' = s \/ exists k, k <= length (s_rows src) /\ pending s' = Some (base tr s ++ firstn k (s_rows src)).
Proof. intros p Hp. exact (load_failed_pending p (loaders_shape p Hp)). Qed.

Theorem C17_roundtrip : forall p, In p loaders -> forall tr cm src s,
  s_fail src = None -> Forall (fun r => length r = length (s_hdr src)) (s_rows src) ->
  let '(s', raised) := dbrun src (flatten tr cm p) s in
  raised = false /\ visible s' = base tr s ++ s_rows src /\
  committed s' = (if cm then base tr s ++ s_rows src else committed s) /\
  (cm = true -> pending s' = None).
Proof. intros p Hp. exact (load_roundtrip p (loaders_shape p Hp)). Qed.

Theorem C17_filename_atomic : forall tr cm src s, pending s = None ->
  let '(s', raised) := run_prog filename_closes_in_finally tr cm prog_connection src s in
  (raised = true -> s' = s) /\ pending s' = None.
Proof. exact (load_filename_atomic prog_connection shape_connection). Qed.

(* non-vacuity: todb into a table holding two rows, the source failing when its third row is requested *)
Example C17_ex :
  let src := {| s_hdr := [VNone; VNone]; s_rows := [[VNone; VNone]; [VNone; VNone]; [VNone; VNone]]; s_fail := Some 3 |} in
  let s := {| committed := [[VNone]; [VNone]]; pending := None |} in
  dbrun src (flatten todb_truncate true prog_connection) s
  = ({| committed := [[VNone]; [VNone]]; pending := Some [[VNone; VNone]; [VNone; VNone]] |}, true).
Proof. vm_compute. reflexivity. Qed.

Print Assumptions C17_atomic.
Print Assumptions C17_failed_load_is_a_pending_prefix.
Print Assumptions C17_roundtrip.
Print Assumptions C17_filename_atomic.
