(* C19 — the failonerror policy decides exactly what a failing conversion becomes (for ALL converters / mappers:
   the statements quantify over the functions' results). *)
From Verif Require Import PyVal Rows Selects Transforms TransformFacts.

Theorem C19_policy_false_never_raises : forall ev c v r, exists x, transform_value PolFalse ev c v r = Ok x.
Proof. exact policy_false_never_raises. Qed.

(* a failing cell becomes errorvalue (False), the exception (True: raised), or the exception object ('inline');
   a non-failing cell is identical under all three policies *)
Theorem C19_cell_outcomes : forall pol ev cv v r, cv <> CNone ->
  match run_conv cv v r with
  | Ok x => transform_value pol ev (Some cv) v r = Ok x
  | Err e => transform_value pol ev (Some cv) v r =
             match pol with PolFalse => Ok ev | PolTrue => Err e | PolInline => Ok (exn_val e) end
  end.
Proof. exact policy_cell_outcomes. Qed.

(* rowmap: False drops exactly the failing rows; 'inline' delivers one row holding the exception per failing row;
   True on a table without failures is the same table *)
Theorem C19_rowmap_policies : forall id flds rows,
  let ok := fun r => match apply_rowmapper id flds r with Ok _ => true | Err _ => false end in
  let img := fun r => match apply_rowmapper id flds r with Ok o => o | Err e => [exn_val e] end in
  rowmap_rows id flds PolFalse rows = (map img (filter ok rows), None)
  /\ rowmap_rows id flds PolInline rows = (map img rows, None)
  /\ (forallb ok rows = true -> rowmap_rows id flds PolTrue rows = (map img rows, None)).
Proof. exact rowmap_policy. Qed.

(* True: the exception surfaces when the failing row is requested, after every earlier row has been delivered *)
Theorem C19_true_raises_at_first_failure_after_prefix : forall id flds pre r post e,
  (forall x, In x pre -> exists o, apply_rowmapper id flds x = Ok o) ->
  apply_rowmapper id flds r = Err e ->
  rowmap_rows id flds PolTrue (pre ++ r :: post)
  = (map (fun x => match apply_rowmapper id flds x with Ok o => o | Err _ => [] end) pre, Some e).
Proof. exact rowmap_true_raises_at_first_failure. Qed.

(* rowmapmany: False keeps the rows a generator produced before failing *)
Theorem C19_rowmapmany_false_keeps_prefix : forall id flds rows,
  rowmapmany_rows id flds PolFalse rows = (flat_map (fun r => fst (apply_rowgen id flds r)) rows, None).
Proof. exact rowmapmany_false_keeps_prefix. Qed.

Print Assumptions C19_policy_false_never_raises.
Print Assumptions C19_cell_outcomes.
Print Assumptions C19_rowmap_policies.
Print Assumptions C19_true_raises_at_first_failure_after_prefix.
Print Assumptions C19_rowmapmany_false_keeps_prefix.
