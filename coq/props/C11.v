(* C11 — execution-strategy arguments never change results.
   (1) buffersize: every sort-backed operator model returns the same header, rows and order for every buffersize >= 1
       as for the in-memory sort;
   (2) presorted=True on inputs sorted by the key equals presorted=False;
   (3) forwarding: every call site in petl/transform (REGENERATED facts) hands buffersize, tempdir and cache on to the
       sort-backed callee from the same-named parameters;
   (4) cache (SortView machine, all histories of edit-source / full-pass steps): with cache=False every pass reflects
       the current source; with cache=True passes after a completed one replay it and pull nothing. *)
From Verif Require Import PyVal Rows ComparableGen AsIndicesGen Sort SortFacts Basics Dedup SetOps Joins Reductions
     Machines StrategyFacts MachineFacts Forwarding.
From Coq Require Import Sorted.

Theorem C11_buffersize_sort : forall b reverse key t, (1 <= b)%nat ->
  sort_model (Some b) reverse key t = sort_model None reverse key t.
Proof. exact sort_model_chunked. Qed.
Theorem C11_buffersize_dedup : forall b, (1 <= b)%nat -> forall op key pre t,
  dedup_model op key pre (Some b) t = dedup_model op key pre None t.
Proof. exact dedup_bs. Qed.
Theorem C11_buffersize_setops : forall b, (1 <= b)%nat -> forall op pre ta tb,
  setop_model op pre (Some b) ta tb = setop_model op pre None ta tb.
Proof. exact setop_bs. Qed.
Theorem C11_buffersize_recordcomplement : forall b, (1 <= b)%nat -> forall strict ta tb,
  recordcomplement_model strict (Some b) ta tb = recordcomplement_model strict None ta tb.
Proof. exact recordcomplement_bs. Qed.
Theorem C11_buffersize_joins : forall b, (1 <= b)%nat -> forall kind lkey rkey pre missing lp rp l r,
  join_model kind lkey rkey pre missing lp rp (Some b) l r = join_model kind lkey rkey pre missing lp rp None l r.
Proof. exact join_bs. Qed.
Theorem C11_buffersize_antijoin : forall b, (1 <= b)%nat -> forall lkey rkey pre l r,
  antijoin_model lkey rkey pre (Some b) l r = antijoin_model lkey rkey pre None l r.
Proof. exact antijoin_bs. Qed.
Theorem C11_buffersize_mergesort : forall b, (1 <= b)%nat -> forall key rev pre missing header ts,
  mergesort_model key rev pre missing header (Some b) ts = mergesort_model key rev pre missing header None ts.
Proof. exact mergesort_bs. Qed.
Theorem C11_buffersize_aggregate : forall b, (1 <= b)%nat -> forall key agg value field pre t,
  simple_aggregate_model key agg value field pre (Some b) t = simple_aggregate_model key agg value field pre None t.
Proof. exact simple_aggregate_bs. Qed.
Theorem C11_buffersize_multiaggregate : forall b, (1 <= b)%nat -> forall key aggs pre t,
  multi_aggregate_model key aggs pre (Some b) t = multi_aggregate_model key aggs pre None t.
Proof. exact multi_aggregate_bs. Qed.
Theorem C11_buffersize_rowreduce : forall b, (1 <= b)%nat -> forall key red header pre t,
  rowreduce_model key red header pre (Some b) t = rowreduce_model key red header pre None t.
Proof. exact rowreduce_bs. Qed.
Theorem C11_buffersize_mergeduplicates : forall b, (1 <= b)%nat -> forall key missing pre t,
  mergeduplicates_model key missing pre (Some b) t = mergeduplicates_model key missing pre None t.
Proof. exact mergeduplicates_bs. Qed.
Theorem C11_buffersize_fold : forall b, (1 <= b)%nat -> forall key f value pre t,
  fold_model key f value pre (Some b) t = fold_model key f value pre None t.
Proof. exact fold_bs. Qed.

Theorem C11_presorted_dedup : forall op key hdr rows idx,
  key_indices hdr key = Ok idx -> idx <> [] ->
  StronglySorted (fun r1 r2 => row_leb false idx r1 r2 = true) rows ->
  dedup_model op key true None (hdr :: rows) = dedup_model op key false None (hdr :: rows).
Proof. exact dedup_presorted. Qed.
Theorem C11_presorted_rowreduce : forall key red header hdr rows idx,
  key_indices hdr (Some key) = Ok idx -> idx <> [] ->
  StronglySorted (fun r1 r2 => row_leb false idx r1 r2 = true) rows ->
  rowreduce_model key red header true None (hdr :: rows) = rowreduce_model key red header false None (hdr :: rows).
Proof. exact rowreduce_presorted. Qed.

(* regenerated from /repo on every run: every strategy-taking call site forwards all three arguments *)
Theorem C11_forwarding_ok : forallb forwards_all fwd_calls = true.
Proof. vm_compute. reflexivity. Qed.

Theorem C11_nocache_pass_reflects_source : forall c, (forall b, sv_bs c = Some b -> (1 <= b)%nat) ->
  forall fuel, sv_cache c = false -> forall ops s,
  has_header (sv_src s) -> (length (sv_src s) + 1 < fuel)%nat -> edits_ok fuel ops ->
  map fst (sv_history c fuel ops s) = map (Sol c) (srcs_at_pass ops (sv_src s)).
Proof. exact nocache_pass_reflects_source. Qed.

Theorem C11_cache_pass_no_pulls : forall c fuel h srows, sv_cache c = true -> forall ops s,
  sv_cached s = Some (h, srows) -> (length srows + 1 < fuel)%nat ->
  sv_history c fuel ops s = repeat (ORow h :: map ORow srows ++ [OStop], 0%Z) (count_passes ops).
Proof. exact cache_pass_no_pulls. Qed.

Theorem C11_first_pass_fills_cache : forall c, (forall b, sv_bs c = Some b -> (1 <= b)%nat) ->
  forall fuel hdr rows srows, sv_cache c = true ->
  sort_model (sv_bs c) (sv_reverse c) (sv_key c) (hdr :: rows) = (hdr :: srows, None) -> (length rows + 2 < fuel)%nat ->
  exists s', pass (sv_machine c) fuel (sv_init (hdr :: rows)) = (s', ORow hdr :: map ORow srows ++ [OStop])
             /\ sv_cached s' = Some (hdr, srows) /\ sv_pulls s' = (1 + zlen rows)%Z.
Proof. exact first_pass_fills_cache. Qed.

Print Assumptions C11_buffersize_sort.
Print Assumptions C11_buffersize_dedup.
Print Assumptions C11_buffersize_setops.
Print Assumptions C11_buffersize_recordcomplement.
Print Assumptions C11_buffersize_joins.
Print Assumptions C11_buffersize_antijoin.
Print Assumptions C11_buffersize_mergesort.
Print Assumptions C11_buffersize_aggregate.
Print Assumptions C11_buffersize_multiaggregate.
Print Assumptions C11_buffersize_rowreduce.
Print Assumptions C11_buffersize_mergeduplicates.
Print Assumptions C11_buffersize_fold.
Print Assumptions C11_presorted_dedup.
Print Assumptions C11_presorted_rowreduce.
Print Assumptions C11_forwarding_ok.
Print Assumptions C11_nocache_pass_reflects_source.
Print Assumptions C11_cache_pass_no_pulls.
Print Assumptions C11_first_pass_fills_cache.
