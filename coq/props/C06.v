(* C06 — sort-merge joins.  Mechanised here: the exhausted-side behaviour of the group-wise merges (the place where rows
   with a None key were lost before the "fix:" commits), groupby tiling, crossjoin cardinality.
   NOT yet mechanised: Permutation (join_loop ... (groupby (sort L)) (groupby (sort R))) (nl_join ... L R); that statement
   is judged on every run by the extracted oracle Relational.join_spec_holds on the implementation's output. *)
From Verif Require Import PyVal Rows Sort Basics Joins Relational JoinFacts.

Theorem C06_outer_join_right_exhausted : forall n lkind rkind rvind missing lo ro lgs,
  join_loop n lkind rkind rvind missing lo ro lgs [] =
  if lo then flat_map (fun g => join_left_only rvind missing (snd g)) lgs else [].
Proof. exact join_loop_right_empty. Qed.

Theorem C06_outer_join_left_exhausted : forall n lkind rkind rvind missing lo ro rgs,
  join_loop n lkind rkind rvind missing lo ro [] rgs =
  if ro then flat_map (fun g => join_right_only n lkind rkind rvind missing (snd g)) rgs else [].
Proof. exact join_loop_left_empty. Qed.

Theorem C06_leftjoin_header_only_right : forall n lkind rkind rvind missing ro keyf rows,
  join_loop n lkind rkind rvind missing true ro (groupby keyf rows) [] = join_left_only rvind missing rows.
Proof. exact leftjoin_header_only_right. Qed.

Theorem C06_antijoin_header_only_right : forall keyf rows, antijoin_loop (groupby keyf rows) [] = rows.
Proof. exact antijoin_header_only_right. Qed.

Theorem C06_lookupjoin_header_only_right : forall rvind missing lgs,
  lookupjoin_loop rvind missing lgs [] = flat_map (fun g => join_left_only rvind missing (snd g)) lgs.
Proof. exact lookupjoin_loop_right_empty. Qed.

Theorem C06_groupby_tiles_rows : forall keyf rows, concat (map snd (groupby keyf rows)) = rows.
Proof. exact groupby_concat. Qed.

Theorem C06_crossjoin_cardinality : forall srcs,
  length (product srcs) = fold_right (fun s n => (length s * n)%nat) 1%nat srcs.
Proof. exact product_length. Qed.

Open Scope Z_scope.
(* the witness of the repaired defect, on the model: a None key on the left, no rows on the right *)
Example C06_ex_none_key_kept :
  join_model JLeft (VStr [105; 100]) (VStr [105; 100]) false VNone None None None
    [[VStr [105; 100]; VStr [97]]; [VNone; VNum KInt (Fin 1)]; [VNum KInt (Fin 2); VNum KInt (Fin 3)]]
    [[VStr [105; 100]; VStr [98]]]
  = ([[VStr [105; 100]; VStr [97]; VStr [98]]; [VNone; VNum KInt (Fin 1); VNone];
      [VNum KInt (Fin 2); VNum KInt (Fin 3); VNone]], None).
Proof. vm_compute. reflexivity. Qed.

Print Assumptions C06_outer_join_right_exhausted.
Print Assumptions C06_outer_join_left_exhausted.
Print Assumptions C06_leftjoin_header_only_right.
Print Assumptions C06_antijoin_header_only_right.
Print Assumptions C06_lookupjoin_header_only_right.
Print Assumptions C06_groupby_tiles_rows.
Print Assumptions C06_crossjoin_cardinality.
