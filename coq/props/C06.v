(* C06 — sort-merge joins implement the relational join operators exactly.
   join_loop / antijoin_loop / lookupjoin_loop are the group-wise merges of iterjoin / iterantijoin / iterlookupjoin
   (model/Joins.v, as repaired); nl_join / nl_anti / nl_lookup are the nested-loop definitions (spec/Relational.v):
   one output row per pair of rows with equal keys (None == None), unmatched rows padded for the outer variants.
   L and R are the data rows after squaring up; sort_data is the model of sort() proved in C05.                     *)
From Verif Require Import PyVal Rows ComparableGen Sort Basics Joins Relational JoinFacts JoinRel.
From Coq Require Import Permutation.

(* join / leftjoin / rightjoin / outerjoin  (lo, ro = left / right outer), for every buffersize of the two sorts *)
Theorem C06_join_is_relational : forall n lkind rkind rvind missing lo ro bl br L R,
  (forall b, bl = Some b -> (1 <= b)%nat) -> (forall b, br = Some b -> (1 <= b)%nat) ->
  Permutation
    (join_loop n lkind rkind rvind missing lo ro
               (groupby (getkey lkind) (sort_data (row_leb false lkind) bl L))
               (groupby (getkey rkind) (sort_data (row_leb false rkind) br R)))
    (nl_join n lkind rkind rvind missing lo ro L R).
Proof. exact join_is_relational. Qed.

(* antijoin: exactly the left rows without a partner *)
Theorem C06_antijoin_is_relational : forall lkind rkind L R,
  Permutation (antijoin_loop (groupby (getkey lkind) (sort_data (row_leb false lkind) None L))
                             (groupby (getkey rkind) (sort_data (row_leb false rkind) None R)))
              (nl_anti lkind rkind L R).
Proof. exact antijoin_is_relational. Qed.

(* lookupjoin: every left row exactly once, with its first partner (in the right table's order) or padding *)
Theorem C06_lookupjoin_is_relational : forall lkind rkind rvind missing L R,
  Permutation (lookupjoin_loop rvind missing (groupby (getkey lkind) (sort_data (row_leb false lkind) None L))
                               (groupby (getkey rkind) (sort_data (row_leb false rkind) None R)))
              (nl_lookup lkind rkind rvind missing L R).
Proof. exact lookupjoin_is_relational. Qed.

(* on the key-sorted inputs the anti and lookup joins are exact, order included (hence ascending key order) *)
Theorem C06_antijoin_exact_on_sorted : forall lkind rkind lgs rgs,
  grp_ok (getkey lkind) lgs -> grp_ok (getkey rkind) rgs -> grp_sorted lgs -> grp_sorted rgs ->
  antijoin_loop lgs rgs = nl_anti lkind rkind (rows_of lgs) (rows_of rgs).
Proof. exact antijoin_loop_exact. Qed.

(* exhausted sides (where rows with a None key were lost before the fix: commits) *)
Theorem C06_outer_join_right_exhausted : forall n lkind rkind rvind missing lo ro lgs,
  join_loop n lkind rkind rvind missing lo ro lgs [] =
  if lo then flat_map (fun g => join_left_only rvind missing (snd g)) lgs else [].
Proof. exact join_loop_right_empty. Qed.
Theorem C06_outer_join_left_exhausted : forall n lkind rkind rvind missing lo ro rgs,
  join_loop n lkind rkind rvind missing lo ro [] rgs =
  if ro then flat_map (fun g => join_right_only n lkind rkind rvind missing (snd g)) rgs else [].
Proof. exact join_loop_left_empty. Qed.
Theorem C06_leftjoin_header_only_right : forall n lkind rkind rvind missing ro keyf rows,
  join_loop n lkind rkind rvind missing true ro (groupby keyf rows) [] = join_left_only rvind missing rows.
Proof. exact leftjoin_header_only_right. Qed.
Theorem C06_antijoin_header_only_right : forall keyf rows, antijoin_loop (groupby keyf rows) [] = rows.
Proof. exact antijoin_header_only_right. Qed.

Theorem C06_groupby_tiles_rows : forall keyf rows, concat (map snd (groupby keyf rows)) = rows.
Proof. exact groupby_concat. Qed.
Theorem C06_groupby_of_sorted_is_strictly_increasing : forall kf rows,
  key_sorted kf rows -> grp_ok kf (groupby kf rows) /\ grp_sorted (groupby kf rows).
Proof. exact groupby_ok. Qed.

Theorem C06_crossjoin_cardinality : forall srcs,
  length (product srcs) = fold_right (fun s n => (length s * n)%nat) 1%nat srcs.
Proof. exact product_length. Qed.

Open Scope Z_scope.
(* the witness of the repaired defect, on the model: a None key on the left, no rows on the right *)
Example C06_ex_none_key_kept :
  join_model JLeft (VStr [105; 100]) (VStr [105; 100]) false VNone None None None
    [[VStr [105; 100]; VStr [97]]; [VNone; VNum KInt (Fin 1)]; [VNum KInt (Fin 2); VNum KInt (Fin 3)]]
    [[VStr [105; 100]; VStr [98]]]
  = ([[VStr [105; 100]; VStr [97]; VStr [98]]; [VNone; VNum KInt (Fin 1); VNone];
      [VNum KInt (Fin 2); VNum KInt (Fin 3); VNone]], None).
Proof. vm_compute. reflexivity. Qed.

Print Assumptions C06_join_is_relational.
Print Assumptions C06_antijoin_is_relational.
Print Assumptions C06_lookupjoin_is_relational.
Print Assumptions C06_antijoin_exact_on_sorted.
Print Assumptions C06_outer_join_right_exhausted.
Print Assumptions C06_outer_join_left_exhausted.
Print Assumptions C06_leftjoin_header_only_right.
Print Assumptions C06_antijoin_header_only_right.
Print Assumptions C06_groupby_tiles_rows.
Print Assumptions C06_groupby_of_sorted_is_strictly_increasing.
Print Assumptions C06_crossjoin_cardinality.
