(* C15 — write then read returns the same table.
   Mechanised: the csv writer / reader pair.  model/Csv.v transcribes CPython's _csv.c writer (join_append_data,
   QUOTE_MINIMAL / QUOTE_ALL / QUOTE_NONNUMERIC, doublequote, lineterminator CRLF, the lone-empty-field rule) and reader
   state machine (parse_process_char); both are tied to the real csv module, and through it to petl's tocsv/fromcsv,
   tobcsv/frombcsv and appendcsv, by the correspondence on every run.  The theorem: for EVERY table of cell texts —
   delimiters, quote characters, CR, LF, empty cells, empty rows, any length — and every dialect whose delimiter and
   quote character differ and are not CR / LF, parsing what the writer wrote gives back exactly the cell texts, in
   order, row by row.
   Not mechanised (tied dynamically, judged on every run on the implementation's output): pickle, json, text and
   bcolz-free binary sinks, text encodings, and gzip / bz2 compression by extension. *)
From Verif Require Import PyVal Rows Csv CsvFacts.
Open Scope Z_scope.

Theorem C15_csv_roundtrip : forall d : dialect,
  d_delim d <> d_quote d -> d_delim d <> CR -> d_delim d <> LF -> d_quote d <> CR -> d_quote d <> LF ->
  0 <= d_delim d -> 0 <= d_quote d -> d_quoting d <> QNone ->
  forall (rows : list (list (list Z * bool))) (txt : list Z),
    Forall (cells_ok) rows ->
    write_rows d rows = Some txt ->
    parse d txt = Some (map (map fst) rows).
Proof.
  intros d H1 H2 H3 H4 H5 H6 H7 H8 rows txt Hok Hw. unfold parse.
  exact (csv_roundtrip d H1 H2 H3 H4 H5 H6 H7 H8 rows txt [] Hok Hw).
Qed.

(* the hypotheses are met by the default dialect and a table with awkward cells, and the writer does produce text *)
Example C15_ex_dialect :
  let d := {| d_delim := 44; d_quote := 34; d_quoting := QMinimal |} in
  let rows := [[([97; 44; 98], false); ([], false)]; [([34; 13; 10; 34], false)]; []; [([], false)]] in
  Forall cells_ok rows /\
  write_rows d rows = Some [34; 97; 44; 98; 34; 44; 13; 10;  34; 34; 34; 13; 10; 34; 34; 34; 13; 10;  13; 10;  34; 34; 13; 10] /\
  parse d [34; 97; 44; 98; 34; 44; 13; 10;  34; 34; 34; 13; 10; 34; 34; 34; 13; 10;  13; 10;  34; 34; 13; 10]
    = Some (map (map fst) rows).
Proof.
  cbv zeta. split; [|split; vm_compute; reflexivity].
  repeat constructor; unfold charok; cbn; try discriminate.
Qed.

Print Assumptions C15_csv_roundtrip.
