(* C20 — tables with a header and no data rows: the operator models return their usual header and what their definition
   gives for zero rows, for a SYMBOLIC header (any header on which the key resolves), never an error.
   Joins: see also C06 (exhausted-side theorems).  Every public operator is swept dynamically on every run. *)
From Verif Require Import PyVal Rows ComparableGen AsIndicesGen Sort Basics Dedup SetOps Joins Reductions JoinFacts
     HeaderOnlyFacts.

Theorem C20_sort : forall bs rev key hdr i idx,
  key_indices hdr key = Ok (i :: idx) -> sort_model bs rev key [hdr] = ([hdr], None).
Proof. exact sort_header_only. Qed.

Theorem C20_duplicates_unique_distinct_conflicts : forall op key pre bs hdr i idx,
  key_indices hdr key = Ok (i :: idx) ->
  dedup_model op key pre bs [hdr] = ([match op with OpDistinctCount name => hdr ++ [name] | _ => hdr end], None).
Proof. exact dedup_header_only. Qed.

Theorem C20_complement_other_side_rows : forall strict ra, itercomplement_data strict ra [] = ra.
Proof. exact complement_header_only_b. Qed.
Theorem C20_complement_of_nothing : forall strict rb, itercomplement_data strict [] rb = [].
Proof. exact complement_header_only_a. Qed.
Theorem C20_intersection_left : forall rb, iterintersection_data [] rb = [].
Proof. exact intersection_header_only_a. Qed.
Theorem C20_intersection_right : forall ra, iterintersection_data ra [] = [].
Proof. exact intersection_header_only_b. Qed.
Theorem C20_hashcomplement_other_side_rows : forall strict ra, hashcomp_loop strict (cnt_of []) ra = ra.
Proof. exact hashcomplement_header_only_b. Qed.
Theorem C20_hashintersection : forall ra, hashinter_loop (cnt_of []) ra = [].
Proof. exact hashintersection_header_only_b. Qed.

Theorem C20_outer_join_other_side_rows : forall n lkind rkind rvind missing ro keyf rows,
  join_loop n lkind rkind rvind missing true ro (groupby keyf rows) [] = join_left_only rvind missing rows.
Proof. exact leftjoin_header_only_right. Qed.
Theorem C20_inner_join_nothing : forall n lkind rkind rvind missing lgs,
  join_loop n lkind rkind rvind missing false false lgs [] = [].
Proof. intros. apply (join_loop_right_empty n lkind rkind rvind missing false false lgs). Qed.
Theorem C20_antijoin_other_side_rows : forall keyf rows, antijoin_loop (groupby keyf rows) [] = rows.
Proof. exact antijoin_header_only_right. Qed.

Theorem C20_rowreduce : forall key red pre bs hdr i idx,
  key_indices hdr (Some key) = Ok (i :: idx) -> rowreduce_model key red None pre bs [hdr] = ([hdr], None).
Proof. exact rowreduce_header_only. Qed.

Print Assumptions C20_sort.
Print Assumptions C20_duplicates_unique_distinct_conflicts.
Print Assumptions C20_complement_other_side_rows.
Print Assumptions C20_complement_of_nothing.
Print Assumptions C20_intersection_left.
Print Assumptions C20_intersection_right.
Print Assumptions C20_hashcomplement_other_side_rows.
Print Assumptions C20_hashintersection.
Print Assumptions C20_outer_join_other_side_rows.
Print Assumptions C20_inner_join_nothing.
Print Assumptions C20_antijoin_other_side_rows.
Print Assumptions C20_rowreduce.
