(* C03 — transformations never modify their inputs or rows already delivered.
   gen/MutGen.v is REGENERATED from the petl sources on every run: for every function of the transformation, utility and
   io modules, the SET of its atomic statements about objects (fresh allocation, binding to an object of the caller — a
   parameter, a row pulled from a source, a cell of it —, binding to a call result, copy, in-place mutation, yield) and
   the alias class of every variable (translator/mutation.py).  model/Alias.v gives these a heap semantics in which
   control flow is dropped: an execution is ANY sequence of the function's statements, any order, any repetition, any
   choice of which foreign object is handed over.
   Theorems:
     * C03_sound — if the check imm_ok accepts a function (copies stay inside an alias class; every mutated class is only
       ever bound to objects the function allocated itself; no class is both yielded and mutated), then NO execution
       mutates an object of the caller or of unknown origin, and NO execution mutates an object after it was delivered;
     * C03_expected — every function listed in the committed expectation (545 of 584) is, as regenerated now, accepted;
     * C03_check_is_not_vacuous — mutating a pulled row, and re-using a delivered buffer, are violations the semantics
       exhibits.
   The remaining functions re-use a name for objects of different origin on different paths (flow-insensitivity) and are
   covered by the dynamic tie only: deep snapshots of every source container, header, row and cell before and after full
   and partial evaluation of every catalogue operator, and of every delivered row at delivery and at the end.
   Trusted: results of calls are disjoint from the function's own mutable objects (a callee does not hand back a buffer of
   its caller); the atom extraction. *)
From Verif Require Import Alias AliasFacts MutGen.
From Coq Require Import List String.
Import ListNotations.

Theorem C03_sound : forall comp prog, imm_ok comp prog = true ->
  forall w, Forall (fun ac => In (fst ac) prog) w ->
  foreign_mutated (arun comp w init_state) = false /\ yielded_mutated (arun comp w init_state) = false.
Proof. exact imm_ok_sound. Qed.

Theorem C03_expected : all_immutable expected_immutable mut_progs = true.
Proof. vm_compute. reflexivity. Qed.

(* the conjuncts are also tracked one by one, so that a function that was never fully accepted (a name re-used on different
   paths trips yields_ok) still may not START binding a mutated variable to a foreign object *)
Theorem C03_expected_conjuncts :
  all_hold copies_ok expected_copies_ok mut_progs = true /\
  all_hold muts_clean expected_muts_clean mut_progs = true /\
  all_hold yields_ok expected_yields_ok mut_progs = true.
Proof. vm_compute. repeat split; reflexivity. Qed.

Theorem C03_sources_never_mutated : forall comp prog, copies_ok comp prog = true -> muts_clean comp prog = true ->
  forall w, Forall (fun ac => In (fst ac) prog) w -> foreign_mutated (arun comp w init_state) = false.
Proof. exact foreign_sound. Qed.

Theorem C03_listed_functions_never_mutate_foreign_objects : forall name c a,
  In name expected_immutable -> lookup_prog name mut_progs = Some (c, a) ->
  forall w, Forall (fun ac => In (fst ac) a) w ->
  foreign_mutated (arun (comp_of c) w init_state) = false /\ yielded_mutated (arun (comp_of c) w init_state) = false.
Proof.
  intros name c a Hin Hl. apply imm_ok_sound.
  pose proof C03_expected as H. unfold all_immutable in H. rewrite forallb_forall in H. specialize (H name Hin).
  rewrite Hl in H. exact H.
Qed.

Theorem C03_check_is_not_vacuous :
  foreign_mutated (arun (fun _ => 0) [(ASrc 0, 0); (AMut 0, 0)] init_state) = true /\
  yielded_mutated (arun (fun _ => 0) [(AFresh 0, 0); (AYield 0, 0); (AMut 0, 0)] init_state) = true.
Proof. split; reflexivity. Qed.

Print Assumptions C03_sound.
Print Assumptions C03_expected.
Print Assumptions C03_expected_conjuncts.
Print Assumptions C03_sources_never_mutated.
Print Assumptions C03_listed_functions_never_mutate_foreign_objects.
