(* C07 — lookups and hash joins.  Mechanised: the lookup dictionary maps every key to ALL of its values in table order
   (lookup), to the FIRST one (lookupone), and strict=True raises DuplicateKeyError exactly when a key repeats — for all
   tables, with the dict modelled as an insertion-ordered association list under ==.
   The probe loops (model/HashJoins.v) are tied to hashjoins.py by the correspondence; that their output is the
   nested-loop join in the order of the streamed side, and the same multiset as the sort-merge operator, is judged on
   every run by the extracted oracles hash_spec_holds / same_table (not yet mechanised). *)
From Verif Require Import PyVal Rows Dedup HashJoins HashFacts.

Theorem C07_lookup_groups_in_table_order : forall gk gv k v rows,
  (forall r, In r rows -> gk r = Some (k r) /\ gv r = Some (v r)) ->
  exists d, lookup_loop gk gv [] rows = Ok d /\
            forall key, pd_get d key = match matching k v key rows with [] => None | l => Some l end.
Proof. exact lookup_groups_in_order. Qed.

Theorem C07_lookupone_keeps_first : forall gk gv k v rows,
  (forall r, In r rows -> gk r = Some (k r) /\ gv r = Some (v r)) ->
  exists d, lookupone_loop gk gv false [] rows = Ok d /\ forall key, pd_get d key = first_matching k v key rows.
Proof. exact lookupone_first. Qed.

Theorem C07_strict_raises_iff_duplicate : forall gk gv k v rows,
  (forall r, In r rows -> gk r = Some (k r) /\ gv r = Some (v r)) ->
  match lookupone_loop gk gv true [] rows with
  | Err DuplicateKeyErr => has_dup [] (map k rows) = true
  | Ok _ => has_dup [] (map k rows) = false
  | Err _ => False
  end.
Proof. intros gk gv k v rows H. apply (lookupone_strict gk gv k v rows [] [] H). intros key. reflexivity. Qed.

Open Scope Z_scope.
Example C07_ex :
  lookup_model (VStr [107]) (Some (VStr [118]))
    [[VStr [107]; VStr [118]]; [VNum KInt (Fin 1); VStr [97]]; [VStr [120]; VStr [98]]; [VNum KFloat (Fin 1); VStr [99]]]
  = Ok [(VNum KInt (Fin 1), [VStr [97]; VStr [99]]); (VStr [120], [VStr [98]])].
Proof. vm_compute. reflexivity. Qed.

Print Assumptions C07_lookup_groups_in_table_order.
Print Assumptions C07_lookupone_keeps_first.
Print Assumptions C07_strict_raises_iff_duplicate.
