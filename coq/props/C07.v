(* C07 — lookups and hash joins.  Mechanised: the lookup dictionary maps every key to ALL of its values in table order
   (lookup), to the FIRST one (lookupone), and strict=True raises DuplicateKeyError exactly when a key repeats — for all
   tables, with the dict modelled as an insertion-ordered association list under ==.
   hashjoin / hashleftjoin: the probe loop is the nested-loop join in the order of the streamed table, and hashjoin has
   the same multiset of rows as the sort-merge join.  hashantijoin: the as-written loop returns exactly the left rows whose key is == to no right
   key, in left order (HashAntiFacts.v).  hashlookupjoin: the probe loop emits exactly one row per left row, in left order, the left
   row unchanged followed by the value cells of the row the lookupone dictionary holds for its key (or `missing`).
   hashrightjoin: the probe loop emits, in right order, one block per right row: the row joined to all left rows of its
   key in left-table order, or the padded right-only row.  All are also tied by the correspondence and judged by the
   extracted oracles hash_spec_holds / same_table. *)
From Verif Require Import PyVal Rows ComparableGen AsIndicesGen ComparableFacts Sort Basics Dedup Joins Relational HashJoins HashFacts HashAntiFacts JoinRel.
From Coq Require Import Permutation.

Theorem C07_lookup_groups_in_table_order : forall gk gv k v rows,
  (forall r, In r rows -> gk r = Some (k r) /\ gv r = Some (v r)) ->
  exists d, lookup_loop gk gv [] rows = Ok d /\
            forall key, pd_get d key = match matching k v key rows with [] => None | l => Some l end.
Proof. exact lookup_groups_in_order. Qed.

Theorem C07_lookupone_keeps_first : forall gk gv k v rows,
  (forall r, In r rows -> gk r = Some (k r) /\ gv r = Some (v r)) ->
  exists d, lookupone_loop gk gv false [] rows = Ok d /\ forall key, pd_get d key = first_matching k v key rows.
Proof. exact lookupone_first. Qed.

Theorem C07_strict_raises_iff_duplicate : forall gk gv k v rows,
  (forall r, In r rows -> gk r = Some (k r) /\ gv r = Some (v r)) ->
  match lookupone_loop gk gv true [] rows with
  | Err DuplicateKeyErr => has_dup [] (map k rows) = true
  | Ok _ => has_dup [] (map k rows) = false
  | Err _ => False
  end.
Proof. intros gk gv k v rows H. apply (lookupone_strict gk gv k v rows [] [] H). intros key. reflexivity. Qed.

(* hashjoin / hashleftjoin: the probe loop over the lookup dictionary IS the nested-loop join, emitted in the order of
   the streamed (left) table; hypotheses: rows squared up (key cells present), key values hashable (no lists). *)
Theorem C07_hashjoin_is_nested_loop_in_left_order : forall n lkind rkind rvind missing L R,
  (forall r, In r R -> raw_getkey rkind r = Some (getkey rkind r) /\ whole_row n r = Some (VSeq false r)
                       /\ as_tuples (getkey rkind r) = getkey rkind r) ->
  (forall l, In l L -> raw_getkey lkind l = Some (getkey lkind l) /\ as_tuples (getkey lkind l) = getkey lkind l) ->
  forall leftouter,
  exists rl, lookup_loop (raw_getkey rkind) (whole_row n) [] R = Ok rl /\
             hashjoin_loop lkind rvind missing leftouter rl L
             = (nls_left lkind rkind rvind missing leftouter L R, None).
Proof. exact hashjoin_is_nested_loop. Qed.

(* hence hashjoin returns the same multiset of rows as the sort-merge join (C06), for every buffersize of the latter *)
Theorem C07_hashjoin_agrees_with_join : forall n lkind rkind rvind missing L R,
  (forall r, In r R -> raw_getkey rkind r = Some (getkey rkind r) /\ whole_row n r = Some (VSeq false r)
                       /\ as_tuples (getkey rkind r) = getkey rkind r) ->
  (forall l, In l L -> raw_getkey lkind l = Some (getkey lkind l) /\ as_tuples (getkey lkind l) = getkey lkind l) ->
  exists rl out, lookup_loop (raw_getkey rkind) (whole_row n) [] R = Ok rl /\
                 hashjoin_loop lkind rvind missing false rl L = (out, None) /\
                 Permutation out
                   (join_loop n lkind rkind rvind missing false false
                      (groupby (getkey lkind) (sort_data (row_leb false lkind) None L))
                      (groupby (getkey rkind) (sort_data (row_leb false rkind) None R))).
Proof.
  intros n lkind rkind rvind missing L R HR HL.
  destruct (hashjoin_is_nested_loop n lkind rkind rvind missing L R HR HL false) as (rl & E & H).
  exists rl, (nls_left lkind rkind rvind missing false L R). repeat split; auto.
  rewrite nls_left_inner.
  rewrite (join_is_relational n lkind rkind rvind missing false false None None L R) by discriminate.
  unfold nl_join. rewrite app_nil_r. reflexivity.
Qed.

(* hashantijoin: header = left header; data = exactly the left rows whose key is == to no key of the right table, in left order *)
Theorem C07_hashantijoin_is_the_exact_complement : forall (lkey rkey : val) (lhdr rhdr : row) (L R : list row) (outt : table),
  hashantijoin_model lkey rkey (lhdr :: L) (rhdr :: R) = (outt, None) ->
  exists lkind rkind rkeys,
    asindices lhdr lkey = Ok lkind /\ asindices rhdr rkey = Ok rkind /\
    all_some (map (raw_getkey rkind) R) = Some rkeys /\
    (forall lrow, In lrow L -> raw_getkey lkind lrow <> None) /\
    outt = lhdr :: filter (fun lrow => match raw_getkey lkind lrow with Some k => negb (py_in k rkeys) | None => false end) L.
Proof. exact hashantijoin_model_exact. Qed.

(* hashlookupjoin: one output row per left row, in left order: the left row unchanged, then the value cells of the one right row
   the lookupone dictionary holds for its key (the first with that key: C07_lookupone_keeps_first), or `missing` per value field *)
Theorem C07_hashlookupjoin_one_row_per_left_row : forall (lkind rvind : list Z) (missing : val) (rl : pdict val) (L out : list row),
  hashlookupjoin_loop lkind rvind missing rl L = (out, None) ->
  length out = length L /\
  Forall2 (fun lrow o => exists k, raw_getkey lkind lrow = Some k /\
             o = lrow ++ match pd_get rl k with
                         | Some (VSeq _ rrow) => rgetv rvind missing rrow
                         | _ => map (fun _ => missing) rvind
                         end) L out.
Proof.
  intros lkind rvind missing rl L out H. split;
    [exact (hashlookupjoin_loop_count lkind rvind missing rl L out H)|exact (hashlookupjoin_loop_exact lkind rvind missing rl L out H)].
Qed.

(* hashrightjoin: the output is the concatenation, in right order, of one block per right row: that row joined to ALL the left rows
   the lookup holds for its key, in left-table order, or the single padded right-only row when the key is absent *)
Theorem C07_hashrightjoin_blocks_in_right_order : forall (lhdr_len : nat) (lkind rkind rvind : list Z) (missing : val)
    (ll : pdict (list val)) (R out : list row),
  hashrightjoin_loop lhdr_len lkind rkind rvind missing ll R = (out, None) ->
  exists blocks, out = concat blocks /\
    Forall2 (fun rrow block => exists k, raw_getkey rkind rrow = Some k /\
               block = match pd_get ll k with
                       | Some lrows => map (fun lrow => lrow ++ rgetv rvind missing rrow) (rows_of_vals lrows)
                       | None => join_right_only lhdr_len lkind rkind rvind missing [rrow]
                       end) R blocks.
Proof. exact hashrightjoin_loop_exact. Qed.

Open Scope Z_scope.
Example C07_ex :
  lookup_model (VStr [107]) (Some (VStr [118]))
    [[VStr [107]; VStr [118]]; [VNum KInt (Fin 1); VStr [97]]; [VStr [120]; VStr [98]]; [VNum KFloat (Fin 1); VStr [99]]]
  = Ok [(VNum KInt (Fin 1), [VStr [97]; VStr [99]]); (VStr [120], [VStr [98]])].
Proof. vm_compute. reflexivity. Qed.

(* non-vacuity: hashantijoin on the operator model (1 == 1.0 matches; None and 'x' have no partner) *)
Example C07_ex_hashantijoin :
  hashantijoin_model (VStr [107]) (VStr [107])
    [[VStr [107]; VStr [118]]; [VNum KInt (Fin 1); VStr [97]]; [VNone; VStr [98]]; [VStr [120]; VStr [99]]; [VNum KInt (Fin 2); VStr [100]]]
    [[VStr [107]]; [VNum KFloat (Fin 1)]; [VNum KInt (Fin 2)]]
  = ([[VStr [107]; VStr [118]]; [VNone; VStr [98]]; [VStr [120]; VStr [99]]], None).
Proof. vm_compute. reflexivity. Qed.

Print Assumptions C07_lookup_groups_in_table_order.
Print Assumptions C07_lookupone_keeps_first.
Print Assumptions C07_strict_raises_iff_duplicate.
Print Assumptions C07_hashjoin_is_nested_loop_in_left_order.
Print Assumptions C07_hashjoin_agrees_with_join.
Print Assumptions C07_hashantijoin_is_the_exact_complement.
Print Assumptions C07_hashlookupjoin_one_row_per_left_row.
Print Assumptions C07_hashrightjoin_blocks_in_right_order.
