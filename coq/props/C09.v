(* C09 — grouping and aggregation conserve rows: each row in exactly one group.
   groupby (getkey idx) (sort_data ... rows) is what rowgroupby delivers to every grouping operator of
   model/Reductions.v (aggregate in all forms, rowreduce, rowgroupmap, fold, groupselect*, mergeduplicates). *)
From Verif Require Import PyVal Rows ComparableGen Sort Joins JoinRel Reductions ReduceFacts ExtremeFacts.
From Coq Require Import Permutation.

(* one group per distinct key, ascending, each = exactly the rows with that key in input order; any buffersize *)
Theorem C09_groups_partition_rows : forall idx (bs : option nat) rows,
  (forall b, bs = Some b -> (1 <= b)%nat) ->
  let gs := groupby (getkey idx) (sort_data (row_leb false idx) bs rows) in
  Permutation (concat (map snd gs)) rows
  /\ grp_sorted gs
  /\ (forall g, In g gs -> snd g = filter (fun r => ceq (getkey idx r) (fst g)) rows /\ snd g <> []).
Proof. exact rowgroupby_groups. Qed.

(* group counts add up to nrows *)
Theorem C09_group_counts_sum_nrows : forall idx rows,
  fold_right (fun g n => (length (snd g) + n)%nat) 0%nat (groupby (getkey idx) (sort_data (row_leb false idx) None rows))
  = length rows.
Proof. exact group_counts_sum_nrows. Qed.

(* group sums add up to the overall sum (any integer-valued function of a row, any buffersize) *)
Theorem C09_group_sums_add_up : forall (f : row -> Z) idx (bs : option nat) rows,
  (forall b, bs = Some b -> (1 <= b)%nat) ->
  fold_right (fun g acc => (zsum f (snd g) + acc)%Z) 0%Z (groupby (getkey idx) (sort_data (row_leb false idx) bs rows))
  = zsum f rows.
Proof. exact group_sums_add_up. Qed.

(* valuecounter / valuecounts: counts add up to the number of values *)
Theorem C09_valuecounts_sum : forall vs c, total (fold_left counter_add vs c) = (total c + Z.of_nat (length vs))%Z.
Proof. exact valuecounts_sum_nvalues. Qed.

(* groupselectfirst / groupselectlast return members of their group *)
Theorem C09_selected_is_member : forall g : list row, g <> [] -> In (hd [] g) g /\ In (last g []) g.
Proof. exact first_last_member. Qed.

(* every output row is the reducer applied to exactly one group, in group order (for every total reducer) *)
Theorem C09_reducer_applied_per_group : forall (A : Type) (f : A -> res row) (f' : A -> row) l,
  (forall x, In x l -> f x = Ok (f' x)) -> gen_map f l = (map f' l, None).
Proof. intros A f f' l. apply gen_map_total. Qed.

(* groupselectmin (rev = false) / groupselectmax (rev = true) = groupselectfirst(sort(table, value, reverse=rev), key):
   for every key the delivered row is the FIRST extreme of the rows with that key, in table order - it is one of them, no
   member is better in the value order, and every member that precedes it in the table is strictly worse.  Any buffersize. *)
Theorem C09_groupselect_first_extreme : forall (rev : bool) kidx vidx (bs : option nat) rows,
  (forall b, bs = Some b -> (1 <= b)%nat) ->
  let leb := row_leb rev vidx in
  let gs := groupby (getkey kidx) (sort_data (row_leb false kidx) bs (sort_data leb None rows)) in
  forall g, In g gs ->
    let members := filter (fun r => ceq (getkey kidx r) (fst g)) rows in
    let sel := hd [] (snd g) in
    In sel members
    /\ Forall (fun z => leb sel z = true) members
    /\ exists pre post, members = pre ++ sel :: post /\ Forall (fun z => leb z sel = false) pre.
Proof. exact groupselect_selected_row. Qed.

(* a stable sort commutes with every filter (total, transitive order): the fact behind the theorem above *)
Theorem C09_stable_sort_commutes_with_filter : forall (A : Type) (leb : A -> A -> bool),
  (forall x y, leb x y = true \/ leb y x = true) ->
  (forall x y z, leb x y = true -> leb y z = true -> leb x z = true) ->
  forall (p : A -> bool) l, filter p (pysort leb l) = pysort leb (filter p l).
Proof. exact @pysort_filter. Qed.

(* aggregate outputs are judged on every run by the extracted oracle aggregate_spec_holds. *)

Open Scope Z_scope.
Example C09_ex :
  simple_aggregate_model (VStr [107]) 0 None (VStr [110]) false (Some 1%nat)
    [[VStr [107]; VStr [118]]; [VStr [98]; VNum KInt (Fin 1)]; [VNone; VNum KInt (Fin 2)]; [VStr [98]; VNum KInt (Fin 3)]]
  = ([[VStr [107]; VStr [110]]; [VNone; VNum KInt (Fin 1)]; [VStr [98]; VNum KInt (Fin 2)]], None).
Proof. vm_compute. reflexivity. Qed.

Print Assumptions C09_groups_partition_rows.
Print Assumptions C09_group_counts_sum_nrows.
Print Assumptions C09_group_sums_add_up.
Print Assumptions C09_valuecounts_sum.
Print Assumptions C09_selected_is_member.
Print Assumptions C09_reducer_applied_per_group.
Print Assumptions C09_groupselect_first_extreme.
Print Assumptions C09_stable_sort_commutes_with_filter.
