(* C18 — temporary files live exactly as long as something can still read them.
   model/TempFiles.v: the references that keep the chunk files of an external sort alive (generator-local chunkfiles,
   the view's _filecache, the filecache parameter of file-cache iterators, and `self` held by every generator frame),
   with finalisation of unreachable wrappers after every operation; and the spill file of fromdicts(<generator>).
   Theorem, for EVERY configuration (rows, buffersize, cache, failing source) and EVERY history of creating iterators,
   advancing them, dropping them and dropping the view, in any order and any number:
     * no next() ever finds a chunk file missing (a file that can still be read is never deleted);
     * the files on disk are exactly those some live object can still read;
     * once the view and all iterators have been released the directory is empty.
   What each next() delivers is C01's theorem (SortView / DictsGenerator machines); the two models are tied to the code by
   the same kind of schedule runs. *)
From Verif Require Import PyVal TempFiles TempFacts.
Local Open Scope nat_scope.

Theorem C18_sort_chunk_files : forall c ops,
  let '(tr, sf) := tf_run c ops tf_init in
  Forall (fun e => fst e <> Some TMissing) tr /\
  (all_released sf = true -> disk sf = []) /\
  (forall g, In g (disk sf) <-> held sf g = true).
Proof. exact tempfiles_lifetime. Qed.

Theorem C18_fromdicts_spill_file : forall ops,
  let '(tr, sf) := df_run ops df_init in
  (df_file sf = true -> df_reachable sf = true) /\ (df_released sf = true -> df_file sf = false).
Proof. intros ops. apply dictsfile_lifetime. intros H. discriminate. Qed.

(* non-vacuity: 5 rows, buffersize 2, cache on: the first iterator spills 3 chunk files (one group), is abandoned after
   two rows; a second iterator is served from the file cache; the view is dropped while it runs; files remain until the
   second iterator is dropped too *)
Example C18_ex :
  let c := {| tf_n := 5; tf_bs := Some 2; tf_cache := true; tf_fail := None |} in
  map (fun e => snd e * chunks_per_group c)
      (fst (tf_run c [TNew; TNext 0; TNext 0; TDropIter 0; TNew; TNext 1; TDropView; TNext 1; TDropIter 1] tf_init))
  = [0; 0; 3; 3; 3; 3; 3; 3; 0].
Proof. vm_compute. reflexivity. Qed.

Print Assumptions C18_sort_chunk_files.
Print Assumptions C18_fromdicts_spill_file.
