(* C14 — reshape operators are mutually inverse and cell-exact.
   Mechanised: transpose is an involution on rectangular tables; unflatten(flatten(t), n) gives back the data rows of an
   n-field table.  recast(melt(t)) = sort(t, key), pivot cells, unpack/split frames, fromdicts(dicts(t)) and
   fromcolumns(columns(t)) are modelled as written (model/Reshape.v), tied by the correspondence, and their round-trip
   identities are judged on every run on the implementation's output (not mechanised). *)
From Verif Require Import PyVal Rows Basics Reshape ReshapeFacts.

Theorem C14_transpose_involutive : forall n hdr t, (1 <= n)%nat -> rect n (hdr :: t) ->
  exists tr, transpose_model (hdr :: t) = (tr, None) /\ transpose_model tr = (hdr :: t, None).
Proof. exact transpose_involutive. Qed.

Theorem C14_unflatten_flatten_id : forall period missing (rows : list row), (1 <= period)%nat ->
  Forall (fun r => length r = period) rows ->
  unflatten_loop period missing [] (concat rows) = rows.
Proof. exact unflatten_flatten_id. Qed.

(* melt emits the same number of rows for every input row when no cell is missing (one per variable) *)
Theorem C14_rows_times_variables : forall (A B : Type) (f : A -> list B) (l : list A) k,
  (forall x, In x l -> length (f x) = k) -> length (flat_map f l) = (length l * k)%nat.
Proof. intros A B. exact (@flat_map_const_length A B). Qed.

Open Scope Z_scope.
Example C14_ex_melt :
  melt_model (Some (VStr [107])) None (VStr (zs "variable")) (VStr (zs "value"))
    [[VStr [107]; VStr [97]; VStr [118]]; [VNone; VStr [120]; VNum KInt (Fin 1)]; [VNum KInt (Fin 2); VStr [121]]]
  = ([[VStr [107]; VStr (zs "variable"); VStr (zs "value")];
      [VNone; VStr [97]; VStr [120]]; [VNone; VStr [118]; VNum KInt (Fin 1)];
      [VNum KInt (Fin 2); VStr [97]; VStr [121]]], None).
Proof. vm_compute. reflexivity. Qed.

Print Assumptions C14_transpose_involutive.
Print Assumptions C14_unflatten_flatten_id.
Print Assumptions C14_rows_times_variables.
