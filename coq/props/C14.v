(* C14 — reshape operators are mutually inverse and cell-exact.
   Mechanised: transpose is an involution on rectangular tables; unflatten(flatten(t), n) gives back the data rows of an
   n-field table; recast after melt rebuilds every row cell for cell, one output row per input row in ascending key order,
   when keys are unique (the row-building code of recast_model, named recast_group / recast_cell, on the sorted + grouped
   melt); pivot's cell law (pivot_cells, the fold pivot_model runs per f1-group); fromdicts(dicts(t)) = t and
   fromcolumns(columns(t)) = t; the frame of unpack (all other cells unchanged, one cell per new field); split / splitdown with a
   literal separator: the parts joined by the separator give the string back, no part contains it, one more part than
   separators, and the row built per part has that part at the split field and the row's own cell everywhere else
   (SplitFacts.v).  capture and regex separators are judged on every run on the implementation's output (not mechanised). *)
From Verif Require Import PyVal Rows ComparableGen Sort Joins JoinRel Basics Reductions Reshape ReshapeFacts RecastFacts PivotFacts DictsFacts UnpackFacts SplitFacts MeltFacts.
From Coq Require Import Sorted.

Theorem C14_transpose_involutive : forall n hdr t, (1 <= n)%nat -> rect n (hdr :: t) ->
  exists tr, transpose_model (hdr :: t) = (tr, None) /\ transpose_model tr = (hdr :: t, None).
Proof. exact transpose_involutive. Qed.

Theorem C14_unflatten_flatten_id : forall period missing (rows : list row), (1 <= period)%nat ->
  Forall (fun r => length r = period) rows ->
  unflatten_loop period missing [] (concat rows) = rows.
Proof. exact unflatten_flatten_id. Qed.

(* recast(melt(t)): rows = nk key cells ++ one value per variable name; names pairwise different; keys pairwise different.
   The melted table is sorted by the key (any buffersize) and grouped; recast_group - the code that recast_model runs on every
   group - returns, for the group of each key, the key cells followed by the row's own value under every requested variable
   (js = the positions of the variables in the order recast lists them, e.g. sorted by name): nothing lost, nothing merged
   into a list, nothing replaced by `missing`.  Groups come in strictly ascending key order and every input row has one. *)
Theorem C14_recast_after_melt : forall (nk : nat) (names : list val) (missing : val),
  (1 <= nk)%nat -> names <> [] -> distinct_names names ->
  forall (bs : option nat) (rows : list row) (js : list nat),
  (forall b, bs = Some b -> (1 <= b)%nat) ->
  Forall (wide nk names) rows -> unique_keys nk rows -> Forall (fun j => (j < length names)%nat) js ->
  let kidx := zrange nk 0 in
  let gs := groupby (getkey kidx) (sort_data (row_leb false kidx) bs (flat_map (melt_of nk names) rows)) in
  grp_sorted gs
  /\ (forall g, In g gs -> exists r, In r rows /\ ceq (getkey kidx r) (fst g) = true /\
        recast_group kidx (Z.of_nat nk) (Z.of_nat nk + 1) missing (map (fun j => nth j names VNone) js) g
        = Ok (firstn nk r ++ map (fun j => nth j (skipn nk r) VNone) js))
  /\ (forall r, In r rows -> exists g, In g gs /\ ceq (getkey kidx r) (fst g) = true).
Proof. exact recast_melt. Qed.

(* the cell law on its own: for the melt of one row, the cell under variable name_j is val_j *)
Theorem C14_recast_cell_is_the_melted_value : forall (names : list val) (missing : val) (k vals : row) (js : list nat),
  distinct_names names -> length vals = length names -> Forall (fun j => (j < length names)%nat) js ->
  mapM (recast_cell (Z.of_nat (length k)) (Z.of_nat (length k) + 1) missing (melt_row names k vals))
       (map (fun j => nth j names VNone) js)
  = Ok (map (fun j => nth j vals VNone) js).
Proof. exact recast_cells_of_melted_row. Qed.

(* pivot: within one f1-group the cell in the column of an f2 value is the aggregate of exactly the f2-group carrying that
   value (contributes g j a: group g is written to column j with aggregate a), and `missing` in every column no group of the
   f1-group is written to; the output row has one cell per f2 value.  Needs the f2-groups to have pairwise different keys... *)
Theorem C14_pivot_cell_law : forall (i3 agg : Z) (missing : val) (f2vals : list val) (groups : list (val * list row)),
  distinct_keys groups ->
  (forall g, In g groups -> exists j a, contributes i3 agg f2vals g j a) ->
  exists c, pivot_cells i3 agg missing f2vals groups = Ok c /\ length c = length f2vals /\
    forall m, (m < length f2vals)%nat ->
      (forall g j a, In g groups -> contributes i3 agg f2vals g j a -> j = m -> nth m c VNone = a)
      /\ ((forall g j a, In g groups -> contributes i3 agg f2vals g j a -> j <> m) -> nth m c VNone = missing).
Proof. exact pivot_cells_spec. Qed.

(* ... which they have whenever the rows are sorted by an order whose equivalence is == on the grouping cell (the runs of a
   sorted stream are its classes); the groups lose no row and keep the order *)
Theorem C14_pivot_groups_of_a_sorted_stream : forall (i : Z) (le : row -> row -> bool),
  (forall a b c, le a b = true -> le b c = true -> le a c = true) ->
  (forall a b, le a b = true \/ le b a = true) ->
  (forall a b, py_eq (rawkey i a) (rawkey i b) = le a b && le b a) ->
  forall rows, StronglySorted (fun a b => le a b = true) rows ->
  distinct_keys (rawgroup i rows) /\ concat (map snd (rawgroup i rows)) = rows.
Proof. intros i le Ht Hto Hk rows Hs. split; [exact (rawgroup_distinct i le Ht Hto Hk rows Hs)|apply rawgroup_concat]. Qed.

(* fromdicts(dicts(t)) reproduces a rectangular table with pairwise different text field names (at least one data row: the
   field names travel in the records; any sample size >= 1, any `missing` on either side) *)
Theorem C14_fromdicts_dicts_id : forall (sample : nat) (m1 m2 : val) (hdr : row) (rows : list row),
  (1 <= sample)%nat -> rows <> [] ->
  Forall (fun f => hdr_text f = f) hdr -> distinct_names hdr ->
  Forall (fun r : row => length r = length hdr) rows ->
  fromdicts_model sample m2 (dicts_model m1 (hdr :: rows)) = hdr :: rows.
Proof. exact fromdicts_dicts_id. Qed.

(* fromcolumns(columns(t)) reproduces a rectangular table (at least one field) *)
Theorem C14_fromcolumns_columns_id : forall (m1 m2 : val) (hdr : row) (rows : list row),
  (1 <= length hdr)%nat -> Forall (fun f => hdr_text f = f) hdr ->
  Forall (fun r : row => length r = length hdr) rows ->
  let cols := columns_model m1 (hdr :: rows) in
  map fst cols = hdr /\ fromcolumns_model (map fst cols) m2 (map snd cols) = hdr :: rows.
Proof. exact fromcolumns_columns_id. Qed.

(* unpack expands one field and leaves every other cell of the row unchanged, in order (unpack_row is the function unpack_model
   maps over the rows): the output is the row (include_original) or the row without the unpacked cell, then the unpacked
   cells; a sequence value gives exactly one cell per new field - its items in order, `missing` where it has none *)
Theorem C14_unpack_frame : forall (inc : bool) (i : Z) (n : nat) (missing : val) (r out : row), 0 <= i ->
  unpack_row inc i n missing r = Ok out ->
  exists v cells, py_nth r i = Some v /\ unpack_cells n missing v = Ok cells /\
    out = (if inc then r else firstn (Z.to_nat i) r ++ skipn (S (Z.to_nat i)) r) ++ cells.
Proof. exact unpack_row_frame. Qed.

Theorem C14_unpack_sequence_cells : forall (n : nat) (missing : val) (b : bool) (l : list val) cells,
  unpack_cells n missing (VSeq b l) = Ok cells ->
  length cells = n /\ (forall j, (j < n)%nat -> nth j cells VNone = if (j <? length l)%nat then nth j l VNone else missing).
Proof. exact unpack_cells_seq. Qed.

(* the whole unpack operator: new fields appended to the header; row by row (same count, same order) the output is the source
   row with the unpacked cells appended, the unpacked cell dropped unless include_original *)
Theorem C14_unpack_model_exact : forall (field : val) (newfields : list val) (inc : bool) (missing : val) (hdr : row)
    (rows : list row) (outt : table),
  unpack_model field newfields inc missing (hdr :: rows) = (outt, None) ->
  exists i kept o, outt = (kept ++ newfields) :: o /\
    Forall2 (fun r out => unpack_row inc i (length newfields) missing r = Ok out) rows o /\
    (0 <= i -> Forall2 (fun r out => exists v cells, py_nth r i = Some v /\ unpack_cells (length newfields) missing v = Ok cells /\
                          out = (if inc then r else firstn (Z.to_nat i) r ++ skipn (S (Z.to_nat i)) r) ++ cells) rows o).
Proof. exact unpack_model_exact. Qed.

(* split / splitdown with a literal separator (split_on is the splitter of splitdown_model, split_cell its cell function):
   sep.join(parts) = s, no part contains sep, |parts| = 1 + occurrences of sep *)
Theorem C14_split_parts_rejoin : forall sep s, join_with sep (split_on sep [] s) = s.
Proof. exact split_on_join. Qed.

Theorem C14_split_parts_have_no_separator : forall sep s, Forall (fun p => ~ In sep p) (split_on sep [] s).
Proof. intros sep s. exact (split_on_no_sep sep [] s (fun H => H)). Qed.

Theorem C14_split_part_count : forall sep s,
  length (split_on sep [] s) = S (length (filter (fun c => Z.eqb c sep) s)).
Proof. intros sep s. exact (split_on_count sep [] s). Qed.

(* the row splitdown emits for one part: one cell per header position, the part at the split field i, the row's own cell
   at every other position; it exists whenever the row is at least as long as the header *)
Theorem C14_splitdown_row_frame : forall (r : row) (i : Z) (part : list Z) (n : nat) (out : row),
  mapM (fun j => if Z.eqb j i then Ok (VStr part) else match py_nth r j with Some v => Ok v | None => Err IndexErr end)
       (zrange n 0%Z) = Ok out ->
  length out = n /\
  forall k, (k < n)%nat -> nth_error out k = if Z.eqb (Z.of_nat k) i then Some (VStr part) else py_nth r (Z.of_nat k).
Proof. intros r i part n out. exact (split_row_frame r i (VStr part) n out). Qed.

Theorem C14_splitdown_row_exists : forall (r : row) (i : Z) (part : list Z) (n : nat), (n <= length r)%nat ->
  exists out, mapM (fun j => if Z.eqb j i then Ok (VStr part) else match py_nth r j with Some v => Ok v | None => Err IndexErr end)
                   (zrange n 0%Z) = Ok out.
Proof. intros r i part n. exact (split_row_ok r i (VStr part) n). Qed.

(* the whole operator: when splitdown_model runs to the end the header is passed through and every emitted data row comes from a
   source row r: one of the parts of r's split cell at the split field i, r's own cells at every other header position *)
Theorem C14_splitdown_frame : forall (field : val) (sep : Z) (hdr : row) (rows : list row) (outt : table),
  splitdown_model field sep (hdr :: rows) = (outt, None) ->
  exists i o, outt = hdr :: o /\
    Forall (fun out => exists r, In r rows /\
      exists s part, py_nth r i = Some (VStr s) /\ In part (split_on sep [] s) /\ length out = length hdr /\
        forall k, (k < length hdr)%nat ->
          nth_error out k = if Z.eqb (Z.of_nat k) i then Some (VStr part) else py_nth r (Z.of_nat k)) o.
Proof. exact splitdown_model_frame. Qed.

(* the exact shape of splitdown: the data rows are the concatenation, in source order, of one block per source row, and the block
   of r holds one row per part of r's split cell, in the order of the parts; hence the row count *)
Theorem C14_splitdown_exact : forall (field : val) (sep : Z) (hdr : row) (rows : list row) (outt : table),
  splitdown_model field sep (hdr :: rows) = (outt, None) ->
  exists i blocks, outt = hdr :: concat blocks /\
    Forall2 (fun r block => exists s, py_nth r i = Some (VStr s) /\
      Forall2 (fun part out => length out = length hdr /\
                 forall k, (k < length hdr)%nat ->
                   nth_error out k = if Z.eqb (Z.of_nat k) i then Some (VStr part) else py_nth r (Z.of_nat k))
              (split_on sep [] s) block) rows blocks.
Proof. exact splitdown_model_exact. Qed.

Theorem C14_splitdown_row_count : forall (field : val) (sep : Z) (hdr : row) (rows : list row) (outt : table),
  splitdown_model field sep (hdr :: rows) = (outt, None) ->
  exists i, length outt = S (list_sum (map (fun r => match py_nth r i with
                                                      | Some (VStr s) => S (length (filter (fun c => Z.eqb c sep) s))
                                                      | _ => O end) rows)).
Proof. exact splitdown_model_row_count. Qed.

(* melt emits exactly one row per (row, variable) cell that exists, in variable order: key cells, variable name, that cell
   (melt_block is the per-row expansion melt_model runs; has_cell r (vn, i) = the row has a position i) *)
Theorem C14_melt_one_row_per_cell : forall (k r : row) (pairs : list (val * Z)),
  flat_map (fun vn_i : val * Z => match py_nth r (snd vn_i) with Some x => [k ++ [fst vn_i; x]] | None => [] end) pairs
  = map (fun p => k ++ [fst p; match py_nth r (snd p) with Some x => x | None => VNone end])
        (filter (fun p => match py_nth r (snd p) with Some _ => true | None => false end) pairs).
Proof. exact melt_block_spec. Qed.

Theorem C14_melt_rectangular_row : forall (k r : row) (pairs : list (val * Z)),
  (forall p, In p pairs -> has_cell r p = true) ->
  melt_block k r pairs = map (fun p => k ++ [fst p; cell_or_none r (snd p)]) pairs /\
  length (melt_block k r pairs) = length pairs.
Proof. exact melt_block_full. Qed.

(* the whole operator: header = key fields then the two new names; data = one block per source row, in source order *)
Theorem C14_melt_model_exact : forall (key variables : option val) (vf valf : val) (hdr : row) (rows : list row) (outt : table),
  melt_model key variables vf valf (hdr :: rows) = (outt, None) ->
  exists ki pairs khdr blocks,
    rowgetter ki hdr = Some khdr /\ outt = (khdr ++ [vf; valf]) :: concat blocks /\
    Forall2 (fun r block => exists k, rowgetter ki r = Some k /\ block = melt_block k r pairs) rows blocks.
Proof. exact melt_model_exact. Qed.

(* melt emits the same number of rows for every input row when no cell is missing (one per variable) *)
Theorem C14_rows_times_variables : forall (A B : Type) (f : A -> list B) (l : list A) k,
  (forall x, In x l -> length (f x) = k) -> length (flat_map f l) = (length l * k)%nat.
Proof. intros A B. exact (@flat_map_const_length A B). Qed.

Open Scope Z_scope.
Example C14_ex_melt :
  melt_model (Some (VStr [107])) None (VStr (zs "variable")) (VStr (zs "value"))
    [[VStr [107]; VStr [97]; VStr [118]]; [VNone; VStr [120]; VNum KInt (Fin 1)]; [VNum KInt (Fin 2); VStr [121]]]
  = ([[VStr [107]; VStr (zs "variable"); VStr (zs "value")];
      [VNone; VStr [97]; VStr [120]]; [VNone; VStr [118]; VNum KInt (Fin 1)];
      [VNum KInt (Fin 2); VStr [97]; VStr [121]]], None).
Proof. vm_compute. reflexivity. Qed.

(* the whole round trip on the operator models: melt by key k, recast back; rows come back sorted by key, variables by name *)
Example C14_ex_recast_melt :
  let t := [[VStr [107]; VStr [98]; VStr [97]];
            [VNum KInt (Fin 2); VStr [120]; VNum KInt (Fin 1)];
            [VNone; VStr [121]; VNone];
            [VNum KInt (Fin 1); VNum KInt (Fin 5); VStr [122]]] in
  let m := fst (melt_model (Some (VStr [107])) None (VStr (zs "variable")) (VStr (zs "value")) t) in
  m = [VStr [107]; VStr (zs "variable"); VStr (zs "value")]
      :: flat_map (melt_of 1 [VStr [98]; VStr [97]]) (tl t)
  /\ recast_model None (VStr (zs "variable")) (VStr (zs "value")) 1000 VNone None m
      = ([[VStr [107]; VStr [97]; VStr [98]];
          [VNone; VNone; VStr [121]];
          [VNum KInt (Fin 1); VStr [122]; VNum KInt (Fin 5)];
          [VNum KInt (Fin 2); VNum KInt (Fin 1); VStr [120]]], None).
Proof. vm_compute. split; reflexivity. Qed.

(* pivot on the operator model: region x gender -> sum of units; a region without a gender gets `missing` *)
Example C14_ex_pivot :
  pivot_model (VStr (zs "r")) (VStr (zs "g")) (VStr (zs "u")) 2 (VStr (zs "-")) false None
    [[VStr (zs "r"); VStr (zs "g"); VStr (zs "u")];
     [VStr (zs "e"); VStr (zs "m"); VNum KInt (Fin 3)]; [VStr (zs "w"); VStr (zs "f"); VNum KInt (Fin 5)];
     [VStr (zs "e"); VStr (zs "f"); VNum KInt (Fin 4)]; [VStr (zs "e"); VStr (zs "m"); VNum KInt (Fin 10)]]
  = ([[VStr (zs "r"); VStr (zs "f"); VStr (zs "m")];
      [VStr (zs "e"); VNum KInt (Fin 4); VNum KInt (Fin 13)];
      [VStr (zs "w"); VNum KInt (Fin 5); VStr (zs "-")]], None).
Proof. vm_compute. reflexivity. Qed.

(* splitdown on the operator model: the other cells are repeated on every emitted row *)
Example C14_ex_splitdown :
  splitdown_model (VStr (zs "b")) 44
    [[VStr (zs "a"); VStr (zs "b"); VStr (zs "c")];
     [VNum KInt (Fin 1); VStr (zs "x,y,"); VNone]; [VNum KInt (Fin 2); VStr (zs "z"); VStr (zs "w")]]
  = ([[VStr (zs "a"); VStr (zs "b"); VStr (zs "c")];
      [VNum KInt (Fin 1); VStr (zs "x"); VNone]; [VNum KInt (Fin 1); VStr (zs "y"); VNone]; [VNum KInt (Fin 1); VStr []; VNone];
      [VNum KInt (Fin 2); VStr (zs "z"); VStr (zs "w")]], None).
Proof. vm_compute. reflexivity. Qed.

Print Assumptions C14_transpose_involutive.
Print Assumptions C14_pivot_cell_law.
Print Assumptions C14_pivot_groups_of_a_sorted_stream.
Print Assumptions C14_fromdicts_dicts_id.
Print Assumptions C14_fromcolumns_columns_id.
Print Assumptions C14_unpack_frame.
Print Assumptions C14_unpack_sequence_cells.
Print Assumptions C14_recast_after_melt.
Print Assumptions C14_recast_cell_is_the_melted_value.
Print Assumptions C14_unflatten_flatten_id.
Print Assumptions C14_rows_times_variables.
Print Assumptions C14_split_parts_rejoin.
Print Assumptions C14_split_parts_have_no_separator.
Print Assumptions C14_split_part_count.
Print Assumptions C14_splitdown_row_frame.
Print Assumptions C14_splitdown_row_exists.
Print Assumptions C14_splitdown_frame.
Print Assumptions C14_splitdown_exact.
Print Assumptions C14_splitdown_row_count.
Print Assumptions C14_melt_one_row_per_cell.
Print Assumptions C14_melt_rectangular_row.
Print Assumptions C14_melt_model_exact.
Print Assumptions C14_unpack_model_exact.
