(* C14 — reshape operators are mutually inverse and cell-exact.
   Mechanised: transpose is an involution on rectangular tables; unflatten(flatten(t), n) gives back the data rows of an
   n-field table; recast after melt rebuilds every row cell for cell, one output row per input row in ascending key order,
   when keys are unique (the row-building code of recast_model, named recast_group / recast_cell, on the sorted + grouped
   melt).  Pivot cells, unpack/split frames, fromdicts(dicts(t)) and fromcolumns(columns(t)) are modelled as written
   (model/Reshape.v), tied by the correspondence, and judged on every run on the implementation's output (not mechanised). *)
From Verif Require Import PyVal Rows ComparableGen Sort Joins JoinRel Basics Reshape ReshapeFacts RecastFacts.

Theorem C14_transpose_involutive : forall n hdr t, (1 <= n)%nat -> rect n (hdr :: t) ->
  exists tr, transpose_model (hdr :: t) = (tr, None) /\ transpose_model tr = (hdr :: t, None).
Proof. exact transpose_involutive. Qed.

Theorem C14_unflatten_flatten_id : forall period missing (rows : list row), (1 <= period)%nat ->
  Forall (fun r => length r = period) rows ->
  unflatten_loop period missing [] (concat rows) = rows.
Proof. exact unflatten_flatten_id. Qed.

(* recast(melt(t)): rows = nk key cells ++ one value per variable name; names pairwise different; keys pairwise different.
   The melted table is sorted by the key (any buffersize) and grouped; recast_group - the code that recast_model runs on every
   group - returns, for the group of each key, the key cells followed by the row's own value under every requested variable
   (js = the positions of the variables in the order recast lists them, e.g. sorted by name): nothing lost, nothing merged
   into a list, nothing replaced by `missing`.  Groups come in strictly ascending key order and every input row has one. *)
Theorem C14_recast_after_melt : forall (nk : nat) (names : list val) (missing : val),
  (1 <= nk)%nat -> names <> [] -> distinct_names names ->
  forall (bs : option nat) (rows : list row) (js : list nat),
  (forall b, bs = Some b -> (1 <= b)%nat) ->
  Forall (wide nk names) rows -> unique_keys nk rows -> Forall (fun j => (j < length names)%nat) js ->
  let kidx := zrange nk 0 in
  let gs := groupby (getkey kidx) (sort_data (row_leb false kidx) bs (flat_map (melt_of nk names) rows)) in
  grp_sorted gs
  /\ (forall g, In g gs -> exists r, In r rows /\ ceq (getkey kidx r) (fst g) = true /\
        recast_group kidx (Z.of_nat nk) (Z.of_nat nk + 1) missing (map (fun j => nth j names VNone) js) g
        = Ok (firstn nk r ++ map (fun j => nth j (skipn nk r) VNone) js))
  /\ (forall r, In r rows -> exists g, In g gs /\ ceq (getkey kidx r) (fst g) = true).
Proof. exact recast_melt. Qed.

(* the cell law on its own: for the melt of one row, the cell under variable name_j is val_j *)
Theorem C14_recast_cell_is_the_melted_value : forall (names : list val) (missing : val) (k vals : row) (js : list nat),
  distinct_names names -> length vals = length names -> Forall (fun j => (j < length names)%nat) js ->
  mapM (recast_cell (Z.of_nat (length k)) (Z.of_nat (length k) + 1) missing (melt_row names k vals))
       (map (fun j => nth j names VNone) js)
  = Ok (map (fun j => nth j vals VNone) js).
Proof. exact recast_cells_of_melted_row. Qed.

(* melt emits the same number of rows for every input row when no cell is missing (one per variable) *)
Theorem C14_rows_times_variables : forall (A B : Type) (f : A -> list B) (l : list A) k,
  (forall x, In x l -> length (f x) = k) -> length (flat_map f l) = (length l * k)%nat.
Proof. intros A B. exact (@flat_map_const_length A B). Qed.

Open Scope Z_scope.
Example C14_ex_melt :
  melt_model (Some (VStr [107])) None (VStr (zs "variable")) (VStr (zs "value"))
    [[VStr [107]; VStr [97]; VStr [118]]; [VNone; VStr [120]; VNum KInt (Fin 1)]; [VNum KInt (Fin 2); VStr [121]]]
  = ([[VStr [107]; VStr (zs "variable"); VStr (zs "value")];
      [VNone; VStr [97]; VStr [120]]; [VNone; VStr [118]; VNum KInt (Fin 1)];
      [VNum KInt (Fin 2); VStr [97]; VStr [121]]], None).
Proof. vm_compute. reflexivity. Qed.

(* the whole round trip on the operator models: melt by key k, recast back; rows come back sorted by key, variables by name *)
Example C14_ex_recast_melt :
  let t := [[VStr [107]; VStr [98]; VStr [97]];
            [VNum KInt (Fin 2); VStr [120]; VNum KInt (Fin 1)];
            [VNone; VStr [121]; VNone];
            [VNum KInt (Fin 1); VNum KInt (Fin 5); VStr [122]]] in
  let m := fst (melt_model (Some (VStr [107])) None (VStr (zs "variable")) (VStr (zs "value")) t) in
  m = [VStr [107]; VStr (zs "variable"); VStr (zs "value")]
      :: flat_map (melt_of 1 [VStr [98]; VStr [97]]) (tl t)
  /\ recast_model None (VStr (zs "variable")) (VStr (zs "value")) 1000 VNone None m
      = ([[VStr [107]; VStr [97]; VStr [98]];
          [VNone; VNone; VStr [121]];
          [VNum KInt (Fin 1); VStr [122]; VNum KInt (Fin 5)];
          [VNum KInt (Fin 2); VNum KInt (Fin 1); VStr [120]]], None).
Proof. vm_compute. split; reflexivity. Qed.

Print Assumptions C14_transpose_involutive.
Print Assumptions C14_recast_after_melt.
Print Assumptions C14_recast_cell_is_the_melted_value.
Print Assumptions C14_unflatten_flatten_id.
Print Assumptions C14_rows_times_variables.
