(* C13 — selections return exactly the satisfying rows; the complement is the exact rest. *)
From Verif Require Import PyVal Rows ComparableGen Selects SelectFacts.
From Coq Require Import Permutation.
Open Scope Z_scope.

(* the XOR loop of select is a filter in input order; select(p) and select(p, complement=True) partition the input
   (so do biselect, search/searchcomplement and the tables of facet, which are built from it) *)
Theorem C13_select_is_filter : forall (p : row -> res bool) (pb : row -> bool) complement rows,
  (forall r, In r rows -> p r = Ok (pb r)) ->
  filter_gen p complement rows = (filter (fun r => negb (Bool.eqb (pb r) complement)) rows, None).
Proof. exact filter_gen_total. Qed.

Theorem C13_select_and_complement_partition : forall (p : row -> res bool) (pb : row -> bool) rows,
  (forall r, In r rows -> p r = Ok (pb r)) ->
  exists sel rest, filter_gen p false rows = (sel, None) /\ filter_gen p true rows = (rest, None)
                   /\ sel = filter pb rows /\ rest = filter (fun r => negb (pb r)) rows
                   /\ Permutation (sel ++ rest) rows.
Proof. exact select_complement_partition. Qed.

(* comparison selectors, for every cell value and every reference value (None and other types included) *)
Theorem C13_selectlt_selectge_complementary : forall c v,
  exists b, eval_vpred (PLt c) v = Ok b /\ eval_vpred (PGe c) v = Ok (negb b).
Proof. exact selectlt_selectge_complementary. Qed.
Theorem C13_selectle_selectgt_complementary : forall c v,
  exists b, eval_vpred (PLe c) v = Ok b /\ eval_vpred (PGt c) v = Ok (negb b).
Proof. exact selectle_selectgt_complementary. Qed.
Theorem C13_selectors_follow_the_C04_order : forall c v,
  eval_vpred (PLt c) v = Ok (clt v c) /\ eval_vpred (PGt c) v = Ok (clt c v)
  /\ eval_vpred (PLe c) v = Ok (clt v c || ceq v c) /\ eval_vpred (PGe c) v = Ok (clt c v || ceq c v).
Proof. exact selectors_follow_the_order. Qed.
Theorem C13_range_selectors : forall a b v,
  eval_vpred (PRangeClosed a b) v = Ok (clt a v && clt v b)
  /\ eval_vpred (PRangeOpen a b) v = Ok (negb (clt v a) && negb (clt b v))
  /\ eval_vpred (PRangeOpenLeft a b) v = Ok (negb (clt v a) && clt v b)
  /\ eval_vpred (PRangeOpenRight a b) v = Ok (clt a v && negb (clt b v)).
Proof. exact range_selectors_spec. Qed.

(* rowslice / head / tail select by position exactly as itertools.islice *)
Theorem C13_rowslice_is_islice : forall start stop step rows out, islice_model start stop step rows = Ok out ->
  let st := match start with Some s => s | None => 0 end in
  let sp := match step with Some s => s | None => 1 end in
  0 <= st /\ 1 <= sp /\
  forall j, nth_error out j =
            nth_error (match stop with Some s => firstn (Z.to_nat (s - st)) (skipn (Z.to_nat st) rows)
                                  | None => skipn (Z.to_nat st) rows end) (j * Z.to_nat sp).
Proof. exact islice_spec. Qed.
Theorem C13_head_is_firstn : forall n rows, 0 <= n -> islice_model None (Some n) None rows = Ok (firstn (Z.to_nat n) rows).
Proof. exact head_is_firstn. Qed.
Theorem C13_tail_is_lastn : forall n rows, 0 <= n -> tail_loop n [] rows = skipn (length rows - Z.to_nat n) rows.
Proof. exact tail_is_lastn. Qed.

Print Assumptions C13_select_is_filter.
Print Assumptions C13_select_and_complement_partition.
Print Assumptions C13_selectlt_selectge_complementary.
Print Assumptions C13_selectle_selectgt_complementary.
Print Assumptions C13_selectors_follow_the_C04_order.
Print Assumptions C13_range_selectors.
Print Assumptions C13_rowslice_is_islice.
Print Assumptions C13_head_is_firstn.
Print Assumptions C13_tail_is_lastn.
