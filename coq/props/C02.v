(* C02 — pipelines are lazy: nothing is read until rows are requested, and then only O(k).
   gen/StreamGen.v is REGENERATED from the petl sources on every run: the effect skeleton (model/GenIR.v) of every
   generator function and view constructor of the transformation, utility and extractor modules, obtained by a taint
   analysis of where the source iterator is pulled, looped over, handed to an eager consumer, and where rows are
   yielded (translator/streaming.py).  spec/GenSem.v gives skeletons a trace semantics in which every data-dependent
   choice is free and an exception (or the consumer stopping) may cut the run anywhere.
   Theorems:
     * C02_streaming_bound — for EVERY skeleton in streaming normal form, every run against a source of ANY length, and
       every k: before the k-th row is delivered at most (k - 1) + slack rows have been requested from the source, slack
       being a constant read off the text (one per next() outside loops, one per loop over the source);
     * C02_constructors_pull_nothing / C02_header_only — constructors whose skeleton is pull-free request nothing; the
       others in the class request at most `slack` (header) rows;
     * C02_eager_is_not_lazy — the semantics does tell eager from lazy: a skeleton that hands the iterator to an eager
       consumer pulls the whole source before the first row;
     * C02_classes — every function listed in the committed expectation (translator/streaming_expected.json) is, as
       regenerated now, still in its class: some forty row-by-row transformations in streaming normal form (wf_map), some twenty-five more in
       the filter form (no eager consumer, no nested pulls; the bound is then per source row, not per output row),
       over two hundred constructors that request nothing and 13 that consult header rows only (natural joins, record* set operations,
       *all convenience functions);
     * C02_pipeline — bounds add along a pipeline.
   Not mechanised (the abstraction is trusted and validated dynamically): that the skeleton over-approximates what CPython
   does with the generator.  Every operator of the catalogue, the extractors and random compositions are run on
   row-counting sources; the counts at construction and after each of the first k outputs are compared with the bound
   and between a 100-row and a 10 000-row source. *)
From Verif Require Import PyVal GenIR GenSem GenFacts StreamGen.
From Coq Require Import String.
Local Open Scope nat_scope.
Local Open Scope list_scope.

Theorem C02_streaming_bound : forall s n t st n' u v,
  exec s n t st n' -> wf_map s = true -> t = u ++ EY :: v -> pulls u <= yields u + slack s.
Proof. exact first_k_rows. Qed.

Theorem C02_constructors_pull_nothing : forall s n t st n',
  exec s n t st n' -> ctor_ok s = true -> pulls t = 0 /\ n' = n.
Proof. exact ctor_pulls_nothing. Qed.

Theorem C02_header_only : forall s n t st n', exec s n t st n' -> header_only s = true -> pulls t <= yields t + slack s.
Proof.
  intros s n t st n' E H. unfold header_only in H. apply Bool.andb_true_iff in H. destruct H as [H _].
  apply (streaming_bound s n t st n' E H). apply prefix_refl.
Qed.

Theorem C02_eager_is_not_lazy : forall n, exists t, exec (Seq Eager Yield) n t SN 0 /\
  exists u v, t = u ++ EY :: v /\ pulls u = S n /\ yields u = 0.
Proof. exact eager_is_not_lazy. Qed.

Theorem C02_pipeline : forall cs k, pipeline_demand cs k = k + list_sum cs.
Proof. exact pipeline_bound. Qed.

(* the regenerated skeletons are still in their classes *)
Theorem C02_classes :
  all_in_class wf_map expected_map gen_skeletons = true /\
  all_in_class wf_filter expected_filter gen_skeletons = true /\
  all_in_class ctor_ok expected_ctor_pure ctor_skeletons = true /\
  all_in_class header_only expected_ctor_header_only ctor_skeletons = true.
Proof. vm_compute. repeat split; reflexivity. Qed.

(* hence: every listed row-by-row transformation obeys the bound, on every source, for every k *)
Theorem C02_listed_transformations_are_lazy : forall name s, In name expected_map -> lookup_skel name gen_skeletons = Some s ->
  forall n t st n' u v, exec s n t st n' -> t = u ++ EY :: v -> pulls u <= yields u + slack s.
Proof.
  intros name s Hin Hl n t st n' u v E Ht. apply (first_k_rows s n t st n' u v E); [|exact Ht].
  destruct C02_classes as [H _]. unfold all_in_class in H. rewrite forallb_forall in H. specialize (H name Hin).
  rewrite Hl in H. exact H.
Qed.

(* non-vacuity: itercut's skeleton, its complete run on a source holding a header and one row *)
Example C02_ex : exists s, lookup_skel "petl.transform.basics.itercut" gen_skeletons = Some s /\ wf_map s = true /\ slack s = 2 /\
  exec s 2 [EP; EY; EP; EY; EX] SN 0.
Proof.
  eexists. split; [vm_compute; reflexivity|]. split; [reflexivity|]. split; [reflexivity|].
  apply (x_seq_n _ _ 2 [EP] 1 [EY; EP; EY; EX]).
  - apply x_try_ok; [discriminate|apply x_pull].
  - apply (x_seq_n _ _ 1 [EY] 1 [EP; EY; EX]); [apply x_yield|].
    apply (x_for_iter _ 0 [EY] SN 0 [EX] SN 0); [|left; reflexivity|apply x_for_end].
    apply x_try_ok; [discriminate|apply x_yield].
Qed.

Print Assumptions C02_streaming_bound.
Print Assumptions C02_constructors_pull_nothing.
Print Assumptions C02_header_only.
Print Assumptions C02_eager_is_not_lazy.
Print Assumptions C02_pipeline.
Print Assumptions C02_classes.
Print Assumptions C02_listed_transformations_are_lazy.
