(* C04 — mixed-type ordering is one consistent total preorder: None < numbers < rest.
   Statements only; each is closed by `exact` of a lemma in proofs/.  The operators clt/ceq/cle/cgt/cge,
   typestr and missing_key_default are the REGENERATED definitions of gen/ComparableGen.v. *)
From Verif Require Import PyVal Order ComparableGen ComparableFacts.

Theorem C04_irreflexive : forall a, clt a a = false.
Proof. exact clt_irrefl. Qed.
Theorem C04_asymmetric : forall a b, clt a b = true -> clt b a = false.
Proof. exact clt_asym. Qed.
Theorem C04_transitive : forall a b c, clt a b = true -> clt b c = true -> clt a c = true.
Proof. exact clt_trans. Qed.
Theorem C04_eq_reflexive : forall a, ceq a a = true.
Proof. exact ceq_refl. Qed.
Theorem C04_eq_symmetric : forall a b, ceq a b = ceq b a.
Proof. exact ceq_sym. Qed.
Theorem C04_eq_transitive : forall a b c, ceq a b = true -> ceq b c = true -> ceq a c = true.
Proof. exact ceq_trans. Qed.
Theorem C04_eq_congruence : forall a a' b, ceq a a' = true ->
  clt a b = clt a' b /\ clt b a = clt b a' /\ ceq a b = ceq a' b.
Proof. exact ceq_congr. Qed.
Theorem C04_total_trichotomy : forall a b,
  (clt a b = true /\ ceq a b = false /\ clt b a = false) \/
  (clt a b = false /\ ceq a b = true /\ clt b a = false) \/
  (clt a b = false /\ ceq a b = false /\ clt b a = true).
Proof. exact trichotomy. Qed.
Theorem C04_eq_agrees_with_python_eq : forall a b, ceq a b = py_eq (as_tuples a) (as_tuples b).
Proof. exact ceq_agrees_py_eq. Qed.
Theorem C04_derived_operators_consistent : forall a b,
  cle a b = negb (clt b a) /\ cgt a b = clt b a /\ cge a b = negb (clt a b).
Proof. exact derived_ops. Qed.
Theorem C04_none_lowest : forall a, a <> VNone -> clt VNone a = true /\ clt a VNone = false.
Proof. exact none_lowest. Qed.
Theorem C04_numbers_below_rest : forall a b, is_numeric a = true -> is_numeric b = false -> b <> VNone ->
  clt a b = true /\ clt b a = false.
Proof. exact numbers_below_rest. Qed.
Theorem C04_bytes_below_text : forall x y, clt (VBytes x) (VStr y) = true /\ clt (VStr y) (VBytes x) = false.
Proof. exact bytes_below_text. Qed.
Theorem C04_same_type_native : forall a b r, native_scalar_lt a b = Some r -> clt a b = r.
Proof. exact same_type_native. Qed.
Theorem C04_unrelated_by_typename : forall a b,
  a <> VNone -> b <> VNone -> is_numeric a = false -> is_numeric b = false ->
  vrank a <> vrank b -> clt a b = zl_lt (typestr a) (typestr b).
Proof. exact unrelated_by_typename. Qed.
Theorem C04_sequences_elementwise : forall i1 x xs i2 y ys,
  clt (VSeq i1 (x :: xs)) (VSeq i2 (y :: ys)) = (if ceq x y then clt (VSeq i1 xs) (VSeq i2 ys) else clt x y)
  /\ ceq (VSeq i1 (x :: xs)) (VSeq i2 (y :: ys)) = (ceq x y && ceq (VSeq i1 xs) (VSeq i2 ys)).
Proof. exact seq_elementwise. Qed.
Theorem C04_sequence_prefix : forall i1 i2 y ys,
  clt (VSeq i1 []) (VSeq i2 (y :: ys)) = true /\ clt (VSeq i1 (y :: ys)) (VSeq i2 []) = false
  /\ clt (VSeq i1 []) (VSeq i2 []) = false /\ ceq (VSeq i1 []) (VSeq i2 []) = true.
Proof. exact seq_prefix. Qed.
Theorem C04_ladder_is_reference_order : forall a b, clt a b = vlt a b /\ ceq a b = veq a b.
Proof. intros a b; split; [exact (clt_is_vlt a b) | exact (ceq_is_veq a b)]. Qed.
Theorem C04_missing_cell_is_none : missing_key_default = VNone.
Proof. exact missing_default_is_none. Qed.

(* non-vacuity: hypotheses are met by concrete, non-trivial values *)
Example C04_ex_unrelated :
  let a := VDate 730120 in let b := VSeq false [VNum KInt (Fin 1)] in
  a <> VNone /\ b <> VNone /\ is_numeric a = false /\ is_numeric b = false /\ vrank a <> vrank b /\ clt a b = true.
Proof. cbv zeta. repeat split; try discriminate; reflexivity. Qed.
Example C04_ex_chain :
  clt VNone (VNum KBool (Fin 0)) = true /\ clt (VNum KFloat PInf) (VBytes []) = true
  /\ clt (VBytes [97]) (VStr []) = true /\ ceq (VNum KInt (Fin 1)) (VNum KFloat (Fin (2#2))) = true
  /\ ceq (VSeq true [VNum KBool (Fin 1)]) (VSeq false [VNum KDecimal (Fin 1)]) = true.
Proof. repeat split; reflexivity. Qed.

Print Assumptions C04_irreflexive.
Print Assumptions C04_asymmetric.
Print Assumptions C04_transitive.
Print Assumptions C04_eq_reflexive.
Print Assumptions C04_eq_symmetric.
Print Assumptions C04_eq_transitive.
Print Assumptions C04_eq_congruence.
Print Assumptions C04_total_trichotomy.
Print Assumptions C04_eq_agrees_with_python_eq.
Print Assumptions C04_derived_operators_consistent.
Print Assumptions C04_none_lowest.
Print Assumptions C04_numbers_below_rest.
Print Assumptions C04_bytes_below_text.
Print Assumptions C04_same_type_native.
Print Assumptions C04_unrelated_by_typename.
Print Assumptions C04_sequences_elementwise.
Print Assumptions C04_sequence_prefix.
Print Assumptions C04_ladder_is_reference_order.
Print Assumptions C04_missing_cell_is_none.
