(* C05 — sort: stable ordered permutation, the same under every buffersize.
   mergesort = sort of the concatenation (data path of itermergesort); pass/cache invariance: SortView machine, C11/C01. *)
From Verif Require Import PyVal Rows ComparableGen AsIndicesGen Sort SortFacts MergesortFacts RecastFacts MergesortModel.
From Coq Require Import Permutation Sorted.
Open Scope Z_scope.

(* every buffersize >= 1 — chunked through temporary files and k-way merged, or in memory — gives the same rows
   as the in-memory sort; holds for the heap merge (forward) and the max-shortlist merge (reverse) alike *)
Theorem C05_buffersize_irrelevant : forall b reverse key t, (1 <= b)%nat ->
  sort_model (Some b) reverse key t = sort_model None reverse key t.
Proof. exact sort_model_chunked. Qed.

Theorem C05_permutation : forall reverse idx rows,
  Permutation (sort_data (row_leb reverse idx) None rows) rows.
Proof. exact sort_data_perm. Qed.

Theorem C05_ordered : forall (reverse : bool) idx rows,
  StronglySorted (fun r1 r2 => (if reverse then cge (getkey idx r1) (getkey idx r2)
                                else cle (getkey idx r1) (getkey idx r2)) = true)
                 (sort_data (row_leb reverse idx) None rows).
Proof. exact sort_data_sorted. Qed.

(* rows of equal key keep their input order (also with reverse=True) *)
Theorem C05_stable : forall reverse idx rows kv,
  filter (fun r => ceq (getkey idx r) kv) (sort_data (row_leb reverse idx) None rows)
  = filter (fun r => ceq (getkey idx r) kv) rows.
Proof. exact sort_data_stable. Qed.

Theorem C05_sorted_input_unchanged : forall reverse idx rows,
  StronglySorted (fun r1 r2 => row_leb reverse idx r1 r2 = true) rows ->
  sort_data (row_leb reverse idx) None rows = rows.
Proof. exact sort_data_idem. Qed.

Theorem C05_header_first : forall bs reverse key hdr rows out e,
  sort_model bs reverse key (hdr :: rows) = (out, e) -> exists rest, out = hdr :: rest.
Proof. exact sort_model_header. Qed.

(* mergesort(tables..., key, reverse, buffersize): each table sorted by the key (any buffersize per table), exhausted inputs
   dropped from the shortlist, and the shortlist loop of _shortlistmergesorted as written (min / max scanned left to right,
   the winner advanced or removed) deliver the stable sort of the concatenation - the rows of sort(cat(tables), key, reverse);
   in particular a permutation, ordered, ties in table-then-row order.  For any number of tables of any lengths. *)
Theorem C05_mergesort_is_sort_of_cat : forall (reverse : bool) idx (bss : list (option nat)) (tabs : list (list row)),
  Forall (fun bs => forall b, bs = Some b -> (1 <= b)%nat) bss -> length bss = length tabs ->
  let leb := row_leb reverse idx in
  let sorted := map (fun p => sort_data leb (fst p) (snd p)) (combine bss tabs) in
  let runs := filter nonempty sorted in
  shortlist_merge (fun x best => if reverse then Some (cgt (getkey idx x) (getkey idx best))
                                 else Some (clt (getkey idx x) (getkey idx best)))
                  (S (total_len runs)) runs []
  = (sort_data leb None (concat tabs), None).
Proof. exact keyed_mergesort_is_sort_of_cat. Qed.

(* ... and for the operator model as a whole: tables sharing a header of pairwise different text fields, rectangular rows,
   a key the header resolves: mergesort(t1, ..., tn, key, reverse, buffersize) = sort(cat(t1, ..., tn), key, reverse) - the
   header union, the row standardisation, the per-table sorts and the shortlist merge together *)
Theorem C05_mergesort_model_is_sort_of_cat : forall (k : val) (reverse : bool) (missing : val) (bs : option nat) (hdr : row)
    (tabs : list (list row)) (idx : list Z),
  (forall b, bs = Some b -> (1 <= b)%nat) ->
  Forall (fun f => hdr_text f = f) hdr -> distinct_names hdr ->
  asindices hdr k = Ok idx -> idx <> [] ->
  tabs <> [] -> Forall (Forall (fun r : row => length r = length hdr)) tabs ->
  mergesort_model (Some k) reverse false missing None bs (map (cons hdr) tabs)
  = sort_model None reverse (Some k) (hdr :: concat tabs).
Proof. exact mergesort_model_is_sort_of_cat. Qed.

(* presorted=True: the same loop over inputs that are sorted already *)
Theorem C05_mergesort_presorted : forall (A : Type) (leb : A -> A -> bool),
  (forall x y, leb x y = true \/ leb y x = true) ->
  (forall x y z, leb x y = true -> leb y z = true -> leb x z = true) ->
  forall cs : list (list A), Forall (StronglySorted (lebP leb)) cs ->
  let runs := filter nonempty cs in
  shortlist_merge (better leb) (S (total_len runs)) runs [] = (pysort leb (concat cs), None).
Proof. exact @mergesort_presorted. Qed.

(* non-vacuity at the level of the whole operator: three tables, one of them header-only, ties across tables *)
Example C05_ex_mergesort :
  let h := [VStr [107]; VStr [118]] in
  mergesort_model (Some (VStr [107])) false false VNone None None
    [[h; [VNum KInt (Fin 2); VStr [97]]; [VNum KInt (Fin 1); VStr [98]]];
     [h];
     [h; [VNum KInt (Fin 1); VStr [99]]; [VNone; VStr [100]]; [VNum KInt (Fin 2); VStr [101]]]]
  = ([h; [VNone; VStr [100]]; [VNum KInt (Fin 1); VStr [98]]; [VNum KInt (Fin 1); VStr [99]];
      [VNum KInt (Fin 2); VStr [97]]; [VNum KInt (Fin 2); VStr [101]]], None).
Proof. vm_compute. reflexivity. Qed.

(* non-vacuity: a table with duplicate keys, None and mixed types; buffersize 2 forces three chunks *)
Example C05_ex :
  let t := [[VStr [107]; VStr [118]];
            [VStr [97]; VNum KInt (Fin 1)]; [VNone; VNum KInt (Fin 2)]; [VNum KInt (Fin 1); VNum KInt (Fin 3)];
            [VStr [97]; VNum KInt (Fin 4)]; [VNone; VNum KInt (Fin 5)]] in
  sort_model (Some 2%nat) false (Some (VStr [107])) t
  = ([[VStr [107]; VStr [118]];
      [VNone; VNum KInt (Fin 2)]; [VNone; VNum KInt (Fin 5)]; [VNum KInt (Fin 1); VNum KInt (Fin 3)];
      [VStr [97]; VNum KInt (Fin 1)]; [VStr [97]; VNum KInt (Fin 4)]], None).
Proof. vm_compute. reflexivity. Qed.

Print Assumptions C05_buffersize_irrelevant.
Print Assumptions C05_permutation.
Print Assumptions C05_ordered.
Print Assumptions C05_stable.
Print Assumptions C05_sorted_input_unchanged.
Print Assumptions C05_header_first.
Print Assumptions C05_mergesort_is_sort_of_cat.
Print Assumptions C05_mergesort_presorted.
Print Assumptions C05_mergesort_model_is_sort_of_cat.
