(* C05 — sort: stable ordered permutation, the same under every buffersize.
   (mergesort = sort of cat, pass/cache invariance: see the SortView machine, C11/C01 files.) *)
From Verif Require Import PyVal Rows ComparableGen AsIndicesGen Sort SortFacts.
From Coq Require Import Permutation Sorted.
Open Scope Z_scope.

(* every buffersize >= 1 — chunked through temporary files and k-way merged, or in memory — gives the same rows
   as the in-memory sort; holds for the heap merge (forward) and the max-shortlist merge (reverse) alike *)
Theorem C05_buffersize_irrelevant : forall b reverse key t, (1 <= b)%nat ->
  sort_model (Some b) reverse key t = sort_model None reverse key t.
Proof. exact sort_model_chunked. Qed.

Theorem C05_permutation : forall reverse idx rows,
  Permutation (sort_data (row_leb reverse idx) None rows) rows.
Proof. exact sort_data_perm. Qed.

Theorem C05_ordered : forall (reverse : bool) idx rows,
  StronglySorted (fun r1 r2 => (if reverse then cge (getkey idx r1) (getkey idx r2)
                                else cle (getkey idx r1) (getkey idx r2)) = true)
                 (sort_data (row_leb reverse idx) None rows).
Proof. exact sort_data_sorted. Qed.

(* rows of equal key keep their input order (also with reverse=True) *)
Theorem C05_stable : forall reverse idx rows kv,
  filter (fun r => ceq (getkey idx r) kv) (sort_data (row_leb reverse idx) None rows)
  = filter (fun r => ceq (getkey idx r) kv) rows.
Proof. exact sort_data_stable. Qed.

Theorem C05_sorted_input_unchanged : forall reverse idx rows,
  StronglySorted (fun r1 r2 => row_leb reverse idx r1 r2 = true) rows ->
  sort_data (row_leb reverse idx) None rows = rows.
Proof. exact sort_data_idem. Qed.

Theorem C05_header_first : forall bs reverse key hdr rows out e,
  sort_model bs reverse key (hdr :: rows) = (out, e) -> exists rest, out = hdr :: rest.
Proof. exact sort_model_header. Qed.

(* non-vacuity: a table with duplicate keys, None and mixed types; buffersize 2 forces three chunks *)
Example C05_ex :
  let t := [[VStr [107]; VStr [118]];
            [VStr [97]; VNum KInt (Fin 1)]; [VNone; VNum KInt (Fin 2)]; [VNum KInt (Fin 1); VNum KInt (Fin 3)];
            [VStr [97]; VNum KInt (Fin 4)]; [VNone; VNum KInt (Fin 5)]] in
  sort_model (Some 2%nat) false (Some (VStr [107])) t
  = ([[VStr [107]; VStr [118]];
      [VNone; VNum KInt (Fin 2)]; [VNone; VNum KInt (Fin 5)]; [VNum KInt (Fin 1); VNum KInt (Fin 3)];
      [VStr [97]; VNum KInt (Fin 1)]; [VStr [97]; VNum KInt (Fin 4)]], None).
Proof. vm_compute. reflexivity. Qed.

Print Assumptions C05_buffersize_irrelevant.
Print Assumptions C05_permutation.
Print Assumptions C05_ordered.
Print Assumptions C05_stable.
Print Assumptions C05_sorted_input_unchanged.
Print Assumptions C05_header_first.
