(* C10 — duplicates / unique / distinct partition the key-sorted rows by runs of equal keys.
   `runs eq rows` are the maximal blocks of adjacent rows with == keys of the stream the loops read (the key-sorted
   table); hypotheses: every row has the key cells (rectangular tables).                                           *)
From Verif Require Import PyVal Rows Sort Dedup DedupFacts MultFacts.
From Coq Require Import Permutation.

(* duplicates = exactly the rows of the runs of length > 1, unique = exactly the rows of the runs of length 1 *)
Theorem C10_duplicates_are_long_runs : forall gk k rows, (forall r, In r rows -> gk r = Some (k r)) ->
  iterduplicates_data gk rows = (concat (filter big (runs (eq_pc k) rows)), None).
Proof. exact duplicates_runs. Qed.

Theorem C10_unique_are_single_runs : forall gk k rows, (forall r, In r rows -> gk r = Some (k r)) ->
  iterunique_data gk rows = (concat (filter single (runs (eq_pc k) rows)), None).
Proof. exact unique_runs. Qed.

(* together they partition the rows: nothing lost, nothing in both *)
Theorem C10_duplicates_unique_partition : forall gk k rows, (forall r, In r rows -> gk r = Some (k r)) ->
  exists d u, iterduplicates_data gk rows = (d, None) /\ iterunique_data gk rows = (u, None)
              /\ Permutation (d ++ u) rows.
Proof. exact dup_unique_partition_model. Qed.

(* distinct keeps exactly the first row of every run *)
Theorem C10_distinct_first_of_each_run : forall gk k rows, (forall r, In r rows -> gk r = Some (k r)) ->
  forall d, distinct_loop gk None rows = (map (hd d) (runs (eq_pc k) rows), None).
Proof. exact distinct_runs. Qed.

(* the runs tile the stream, so run lengths (distinct's count column) add up to nrows *)
Theorem C10_runs_tile_rows : forall (eq : row -> row -> bool) rows, concat (runs eq rows) = rows.
Proof. intros; apply runs_concat. Qed.
Theorem C10_run_lengths_sum_nrows : forall (eq : row -> row -> bool) rows,
  fold_right (fun r n => (length r + n)%nat) 0%nat (runs eq rows) = length rows.
Proof. intros; apply run_lengths_sum. Qed.

(* From runs to multiplicities.  The loops read S = sort(table, key); in a stream sorted by a total preorder the maximal
   runs of equivalent keys ARE the equivalence classes (MultFacts.runs_are_classes), so, with key_multiplicity x = the
   number of rows of the TABLE whose key is equivalent to x's:
     duplicates = the rows whose key occurs at least twice, unique = the rows whose key occurs exactly once,
     and the length of a run (distinct's count column) is the multiplicity of its key.
   Hypotheses: every row has the key cells, and raw == agrees with the Comparable equivalence on the keys of this table
   (true when no key cell is a list; the harness checks the conclusion on the implementation for every generated table). *)
Theorem C10_duplicates_are_rows_with_repeated_key : forall idx rows gk k,
  (forall r, In r (sort_data (row_leb false idx) None rows) -> gk r = Some (k r)) ->
  (forall a b, In a rows -> In b rows -> py_eq (k a) (k b) = keq idx a b) ->
  exists d, iterduplicates_data gk (sort_data (row_leb false idx) None rows) = (d, None) /\
            forall x, In x d <-> In x rows /\ (2 <= key_multiplicity idx rows x)%nat.
Proof. exact duplicates_by_multiplicity. Qed.

Theorem C10_unique_are_rows_with_single_key : forall idx rows gk k,
  (forall r, In r (sort_data (row_leb false idx) None rows) -> gk r = Some (k r)) ->
  (forall a b, In a rows -> In b rows -> py_eq (k a) (k b) = keq idx a b) ->
  exists u, iterunique_data gk (sort_data (row_leb false idx) None rows) = (u, None) /\
            forall x, In x u <-> In x rows /\ key_multiplicity idx rows x = 1%nat.
Proof. exact unique_by_multiplicity. Qed.

Theorem C10_run_length_is_key_multiplicity : forall idx rows r,
  In r (runs (keq idx) (sort_data (row_leb false idx) None rows)) -> forall x, In x r ->
  length r = key_multiplicity idx rows x.
Proof. exact distinct_run_counts. Qed.

Open Scope Z_scope.
Example C10_ex :
  let rows := [[VStr [97]; VNum KInt (Fin 1)]; [VStr [97]; VNum KInt (Fin 2)]; [VStr [98]; VNum KInt (Fin 3)]] in
  iterduplicates_data (raw_getkey [0]) rows = ([[VStr [97]; VNum KInt (Fin 1)]; [VStr [97]; VNum KInt (Fin 2)]], None)
  /\ iterunique_data (raw_getkey [0]) rows = ([[VStr [98]; VNum KInt (Fin 3)]], None)
  /\ (forall r, In r rows -> raw_getkey [0] r = Some (hd VNone r)).
Proof.
  cbv zeta. repeat split.
  intros r [H|[H|[H|[]]]]; subst; reflexivity.
Qed.

Print Assumptions C10_duplicates_are_long_runs.
Print Assumptions C10_unique_are_single_runs.
Print Assumptions C10_duplicates_unique_partition.
Print Assumptions C10_distinct_first_of_each_run.
Print Assumptions C10_runs_tile_rows.
Print Assumptions C10_run_lengths_sum_nrows.
Print Assumptions C10_duplicates_are_rows_with_repeated_key.
Print Assumptions C10_unique_are_rows_with_single_key.
Print Assumptions C10_run_length_is_key_multiplicity.
