(* C12 — row- and field-level transforms touch only what they are asked to.
   Cell-level characterisations, independent of the recursion of the models (model/Basics.v, model/Transforms.v). *)
From Verif Require Import PyVal Rows AsIndicesGen Basics Selects Transforms TransformFacts AnnexFacts.
Open Scope Z_scope.

(* exactly one output row per input row, in input order (every map_rows-based transform: cut, cutout, movefield,
   addfield(s), sortheader, convert, fieldmap ...) *)
Theorem C12_one_row_per_row : forall f rows out, map_rows f rows = (out, None) -> length out = length rows.
Proof. exact map_rows_length. Qed.
Theorem C12_rows_in_input_order : forall f rows out, map_rows f rows = (out, None) ->
  forall i r, nth_error rows i = Some r -> exists o, f r = Ok o /\ nth_error out i = Some o.
Proof. exact map_rows_nth. Qed.

(* cut / cutout / movefield / sortheader: output cell j is input cell indices[j]; a short row is padded with `missing`,
   never dropped, never an IndexError *)
Theorem C12_cut_cell : forall indices missing r out, cut_row indices missing r = Ok out ->
  length out = length indices /\
  forall j i, nth_error indices j = Some i -> 0 <= i ->
    nth_error out j = Some (match nth_error r (Z.to_nat i) with Some v => v | None => missing end).
Proof. exact cut_cell. Qed.

(* addfield / addfields / addcolumn (list.insert with negative and out-of-range indices): removing the inserted cell
   gives back the row *)
Theorem C12_insert_frame : forall (l : row) i x,
  (insert_pos l i <= length l)%nat /\
  nth_error (py_insert l i x) (insert_pos l i) = Some x /\
  remove_at (insert_pos l i) (py_insert l i x) = l /\
  length (py_insert l i x) = Datatypes.S (length l).
Proof. intros. apply insert_frame. Qed.

(* convert and its convenience forms: cells without a converter are passed through, row length is kept *)
Theorem C12_convert_frame : forall pol ev cf whole cells i out,
  transform_cells pol ev cf i cells whole = Ok out ->
  length out = length cells /\
  forall j v, nth_error cells j = Some v -> conv_at cf (i + Z.of_nat j) = None -> nth_error out j = Some v.
Proof. exact convert_frame. Qed.

(* fillright / fillleft: only missing cells change *)
Theorem C12_fillright_frame : forall missing r prev,
  length (fillright_row missing prev r) = length r /\
  forall j v, nth_error r j = Some v -> py_eq v missing = false -> nth_error (fillright_row missing prev r) j = Some v.
Proof. exact fillright_frame. Qed.

(* field selection (REGENERATED asindices): an index has priority over a name, names are consumed left to right *)
Example C12_asindices_priority :
  asindices [VStr [107]; VStr [97]; VStr [107]] (VSeq false [VStr [107]; VStr [107]; VNum KInt (Fin 1)]) = Ok [0; 2; 1]
  /\ asindices [VStr [49]; VStr [48]] (VNum KInt (Fin 1)) = Ok [1]
  /\ asindices [VStr [107]] (VStr [122]) = Err FieldSelectionErr.
Proof. repeat split; vm_compute; reflexivity. Qed.

(* annex: headers side by side; every output row has exactly one cell per output field (each table contributes exactly the
   width of its own header: short rows padded, long rows trimmed, `missing` once a table is exhausted); as many rows as
   the longest table has *)
Theorem C12_annex_rectangular : forall missing (tables : list table) outt,
  annex_model missing tables = (outt, None) ->
  exists hdrs, hdrs = map (fun t => match t with h :: _ => h | [] => [] end) tables /\
    hd [] outt = concat hdrs /\
    Forall (fun r => length r = length (concat hdrs)) outt /\
    length outt = S (fold_right (fun rs n => Nat.max (length rs) n) O (map (fun t => tl t) tables)).
Proof. exact annex_model_rectangular. Qed.

Theorem C12_annex_cells_width : forall missing w rs, length (annex_cells missing (w, rs)) = w.
Proof. exact annex_cells_length. Qed.

(* annex, cell-exact: output row j is, table by table, that table's j-th data row squared up to the table's own header width
   (annex_cells (w, rows from j on): the row padded with `missing` and trimmed to w, or w times `missing` once the table is
   exhausted) *)
Theorem C12_annex_cell_exact : forall missing (tables : list table) outt (j : nat),
  annex_model missing tables = (outt, None) ->
  (j < fold_right (fun rs n => Nat.max (length rs) n) O (map (fun t => tl t) tables))%nat ->
  nth_error outt (S j)
  = Some (concat (map (fun wr : nat * list row => let '(w, rs) := wr in
                         match rs with [] => repeat missing w | r :: _ => pad_to w missing (firstn w r) end)
                      (combine (map (@length val) (map (fun t : table => match t with h :: _ => h | [] => [] end) tables))
                               (map (skipn j) (map (fun t => tl t) tables))))).
Proof. exact annex_model_cell_exact. Qed.

(* non-vacuity: annex on the operator model: a long row in the SECOND table is trimmed to that table's own width, a short row
   padded, an exhausted table filled with `missing` *)
Example C12_ex_annex :
  annex_model (VStr [77])
    [[[VStr [97]; VStr [98]]; [VNum KInt (Fin 1)]; [VNum KInt (Fin 2); VNum KInt (Fin 3)]];
     [[VStr [99]]; [VNum KInt (Fin 4); VNum KInt (Fin 5); VNum KInt (Fin 6)]; [VNone]; [VNum KInt (Fin 7)]]]
  = ([[VStr [97]; VStr [98]; VStr [99]];
      [VNum KInt (Fin 1); VStr [77]; VNum KInt (Fin 4)];
      [VNum KInt (Fin 2); VNum KInt (Fin 3); VNone];
      [VStr [77]; VStr [77]; VNum KInt (Fin 7)]], None).
Proof. vm_compute. reflexivity. Qed.

Print Assumptions C12_one_row_per_row.
Print Assumptions C12_rows_in_input_order.
Print Assumptions C12_cut_cell.
Print Assumptions C12_insert_frame.
Print Assumptions C12_convert_frame.
Print Assumptions C12_fillright_frame.
Print Assumptions C12_annex_rectangular.
Print Assumptions C12_annex_cells_width.
Print Assumptions C12_annex_cell_exact.
