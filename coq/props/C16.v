(* C16 — pass-through views are transparent; a consumed tee writes what to* writes.
   model/Tees.v transcribes the generator bodies of teecsv/teetsv, teepickle, teetext, teehtml, progress/log_progress,
   clock and wrap as effect scripts (write / report / yield, in program order) and the bodies of tocsv, topickle, totext
   and tohtml as the bytes they write; cache() is the CacheView machine of model/Machines.v.  Theorems, for ALL source
   tables (ragged, header-only, without any row, any length), all write_header / prologue / epilogue / caption arguments, all batch sizes
   and all cache limits:
     * the rows obtained from the view are exactly the rows of the wrapped table, in order (…_transparent);
     * after k calls of next() the caller holds the first k rows and the sink a prefix of the full output
       (C16_partial); iterated to the end, the sink holds the complete output (C16_drained), which is byte-for-byte the
       output of the to* function (…_writes);
     * cache(n): every iterator of every schedule of any number of interleaved iterators yields a prefix of the wrapped
       table (C16_cache_transparent).
   Per-row serialisation (csv.writer.writerow — for csv the model writer of Csv.v —, pickle.dump, template.format,
   _write_row) is shared by tee* and to* and enters as the chunk carried by each source item. *)
From Verif Require Import PyVal Tees TeeFacts Machines MachineFacts.
Open Scope Z_scope.

Theorem C16_teecsv_transparent : forall (A : Type) wh (src : list (A * list Z)),
  yields (tee_plain wh src) = map fst src.
Proof. intros A. exact (@tee_plain_transparent A). Qed.

Theorem C16_teecsv_writes_tocsv : forall (A : Type) wh (src : list (A * list Z)),
  writes (tee_plain wh src) = to_csv wh src.
Proof. intros A. exact (@tee_plain_writes_csv A). Qed.

Theorem C16_teepickle_writes_topickle : forall (A : Type) wh (src : list (A * list Z)),
  writes (tee_plain wh src) = to_pickle wh src.
Proof. intros A. exact (@tee_plain_writes_pickle A). Qed.

Theorem C16_teetext_transparent : forall (A : Type) p e (src : list (A * list Z)),
  yields (tee_text p e src) = map fst src.
Proof. intros A. exact (@tee_text_transparent A). Qed.

Theorem C16_teetext_writes_totext : forall (A : Type) p e (src : list (A * list Z)),
  writes (tee_text p e src) = to_text p e src.
Proof. intros A. exact (@tee_text_writes A). Qed.

Theorem C16_teehtml_transparent : forall (A : Type) b e (src : list (A * list Z)),
  yields (tee_html b e src) = map fst src.
Proof. intros A. exact (@tee_html_transparent A). Qed.

Theorem C16_teehtml_writes_tohtml : forall (A : Type) b e (src : list (A * list Z)),
  writes (tee_html b e src) = to_html b e src.
Proof. intros A. exact (@tee_html_writes A). Qed.

Theorem C16_progress_transparent : forall (A : Type) batchsize (rows : list A),
  yields (progress_script batchsize rows) = rows /\ writes (progress_script batchsize rows) = [].
Proof.
  intros A bs rows. unfold progress_script. destruct rows as [|r t]; [split; reflexivity|].
  split; [exact (progress_transparent bs (r :: t) 0) | exact (progress_writes_nothing bs (r :: t) 0)].
Qed.

Theorem C16_clock_wrap_transparent : forall (A : Type) (rows : list A), yields (passthrough_script rows) = rows.
Proof. intros A. exact (@passthrough_transparent A). Qed.

(* consumption: k calls of next(), then the iterator is dropped *)
Theorem C16_partial : forall (A : Type) k (s : list (action A)),
  let '(ys, w, m, fin) := consume k s in
  ys = firstn k (yields s) /\ (exists rest, w ++ rest = writes s) /\ (exists rest, m ++ rest = msgs s)
  /\ (fin = true -> (length (yields s) < k)%nat /\ w = writes s /\ m = msgs s).
Proof. intros A. exact (@consume_prefix A). Qed.

Theorem C16_drained : forall (A : Type) k (s : list (action A)), (length (yields s) < k)%nat ->
  consume k s = (yields s, writes s, msgs s, true).
Proof. intros A. exact (@consume_all A). Qed.

(* cache(table, n): all limits n, all schedules *)
Theorem C16_cache_transparent : forall n inner ops,
  let '(_, _, t) := mrun (cv_machine n) ops (cv_init inner) [] [] in
  forall k, prefix_with_stops (map ORow inner ++ [OStop]) (proj k t).
Proof. exact cacheview_independent. Qed.

(* non-vacuity: a ragged table through teecsv with write_header=False, abandoned after two rows and drained *)
Example C16_ex :
  let src := [(1, [104; 10]); (2, [97; 44; 98; 10]); (3, [10]); (4, [99; 10])] in
  consume 2 (tee_plain false src) = ([1; 2], [97; 44; 98; 10], [], false) /\
  consume 9 (tee_plain false src) = ([1; 2; 3; 4], to_csv false src, [], true) /\
  consume 9 (progress_script 2 [10; 11; 12; 13; 14]) = ([10; 11; 12; 13; 14], [], [2; 4; 4], true).
Proof. vm_compute. auto. Qed.

Print Assumptions C16_teecsv_transparent.
Print Assumptions C16_teecsv_writes_tocsv.
Print Assumptions C16_teepickle_writes_topickle.
Print Assumptions C16_teetext_transparent.
Print Assumptions C16_teetext_writes_totext.
Print Assumptions C16_teehtml_transparent.
Print Assumptions C16_teehtml_writes_tohtml.
Print Assumptions C16_progress_transparent.
Print Assumptions C16_clock_wrap_transparent.
Print Assumptions C16_partial.
Print Assumptions C16_drained.
Print Assumptions C16_cache_transparent.
