(* CmpFacts.v — generic facts about comparison functions that form a total preorder,
   their lexicographic lifting, and the instances for the scalar carriers of PyVal. *)
From Verif Require Import PyVal Order.
From Coq Require Import Lia.
Open Scope Z_scope.

Section Props.
  Context {A : Type} (c : A -> A -> comparison).
  Definition c_antisym (a : A) := forall b, c b a = CompOpp (c a b).
  Definition c_trans (a : A) := forall b d, c a b = Lt -> c b d = Lt -> c a d = Lt.
  Definition c_eql (a : A) := forall b d, c a b = Eq -> c a d = c b d.
  Definition c_eqr (a : A) := forall b d, c b d = Eq -> c a b = c a d.
  Definition c_good (a : A) := c_antisym a /\ c_trans a /\ c_eql a /\ c_eqr a.
End Props.

Lemma CompOpp_Eq c : CompOpp c = c -> c = Eq.
Proof. destruct c; simpl; congruence. Qed.

Lemma c_refl {A} (c : A -> A -> comparison) a : c_antisym c a -> c a a = Eq.
Proof. intros H. apply CompOpp_Eq. symmetry. apply H. Qed.

(* ---- lexicographic lifting ------------------------------------------------------------ *)
Section LexFacts.
  Context {A : Type} (c : A -> A -> comparison).

  Lemma lex_antisym l1 : Forall (c_antisym c) l1 -> c_antisym (lex c) l1.
  Proof.
    induction 1 as [|x xs Hx _ IH]; intros [|y ys]; simpl; auto.
    rewrite (Hx y). destruct (c x y); simpl; auto.
  Qed.

  Lemma lex_eql l1 : Forall (c_eql c) l1 -> c_eql (lex c) l1.
  Proof.
    induction 1 as [|x xs Hx _ IH]; intros [|y ys] [|z zs]; simpl; try discriminate; auto.
    intros H. destruct (c x y) eqn:E; try discriminate.
    rewrite (Hx y z E). destruct (c y z); auto.
  Qed.

  Lemma lex_eqr l1 : Forall (c_eqr c) l1 -> c_eqr (lex c) l1.
  Proof.
    induction 1 as [|x xs Hx _ IH]; intros [|y ys] [|z zs]; simpl; try discriminate; auto.
    intros H. destruct (c y z) eqn:E; try discriminate.
    rewrite (Hx y z E). destruct (c x z); auto.
  Qed.

  Lemma lex_trans l1 : Forall (c_trans c) l1 -> Forall (c_eql c) l1 -> Forall (c_eqr c) l1 ->
                       c_trans (lex c) l1.
  Proof.
    intros H; induction H as [|x xs Hx _ IH]; intros Hl Hr [|y ys] [|z zs]; simpl; try discriminate; auto.
    inversion Hl as [|? ? Hlx Hlxs]; subst. inversion Hr as [|? ? Hrx Hrxs]; subst.
    intros H1 H2.
    destruct (c x y) eqn:Exy; try discriminate.
    - rewrite (Hlx y z Exy). destruct (c y z) eqn:Eyz; try discriminate; auto;
        try (eapply IH; eauto).
    - destruct (c y z) eqn:Eyz; try discriminate.
      + rewrite <- (Hrx y z Eyz), Exy. reflexivity.
      + rewrite (Hx y z Exy Eyz). reflexivity.
  Qed.

  Lemma lex_good l1 : Forall (c_good c) l1 -> c_good (lex c) l1.
  Proof.
    intros H.
    assert (Ha : Forall (c_antisym c) l1) by (eapply Forall_impl; [|exact H]; intros a Hg; apply Hg).
    assert (Ht : Forall (c_trans c) l1) by (eapply Forall_impl; [|exact H]; intros a Hg; apply Hg).
    assert (Hl : Forall (c_eql c) l1) by (eapply Forall_impl; [|exact H]; intros a Hg; apply Hg).
    assert (Hr : Forall (c_eqr c) l1) by (eapply Forall_impl; [|exact H]; intros a Hg; apply Hg).
    repeat split; [apply lex_antisym | apply lex_trans | apply lex_eql | apply lex_eqr]; auto.
  Qed.
End LexFacts.

(* ---- Z ------------------------------------------------------------------------------- *)
Lemma Zcmp_good a : c_good Z.compare a.
Proof.
  repeat split.
  - intros b. apply Z.compare_antisym.
  - intros b d H1 H2. rewrite Z.compare_lt_iff in *. lia.
  - intros b d H. apply Z.compare_eq in H. subst. reflexivity.
  - intros b d H. apply Z.compare_eq in H. subst. reflexivity.
Qed.

Lemma zl_cmp_is_lex a b : zl_cmp a b = lex Z.compare a b.
Proof. revert b; induction a as [|x xs IH]; intros [|y ys]; simpl; auto. Qed.

Lemma zl_cmp_good a : c_good zl_cmp a.
Proof.
  assert (G : c_good (lex Z.compare) a).
  { apply lex_good. apply Forall_forall. intros x _. apply Zcmp_good. }
  destruct G as (Ga & Gt & Gl & Gr).
  repeat split; red; intros; rewrite ?zl_cmp_is_lex in *; eauto.
Qed.

(* ---- Q and extended rationals ------------------------------------------------------- *)
Lemma Qcmp_good a : c_good Qcompare a.
Proof.
  repeat split.
  - intros b. symmetry. apply Qcompare_antisym.
  - intros b d H1 H2. rewrite <- Qlt_alt in *. eapply Qlt_trans; eauto.
  - intros b d H. rewrite <- Qeq_alt in H. rewrite H. reflexivity.
  - intros b d H. rewrite <- Qeq_alt in H. rewrite H. reflexivity.
Qed.

Lemma xq_cmp_good a : c_good xq_cmp a.
Proof.
  repeat split.
  - intros b. destruct a, b; simpl; auto. symmetry. apply Qcompare_antisym.
  - intros b d. destruct a, b, d; simpl; try discriminate; auto.
    apply (proj1 (proj2 (Qcmp_good q))).
  - intros b d. destruct a, b, d; simpl; try discriminate; auto.
    apply (proj1 (proj2 (proj2 (Qcmp_good q)))).
  - intros b d. destruct a, b, d; simpl; try discriminate; auto.
    apply (proj2 (proj2 (proj2 (Qcmp_good q)))).
Qed.

(* ---- vcmp ---------------------------------------------------------------------------- *)
Lemma vcmp_seq b1 l1 b2 l2 : vcmp (VSeq b1 l1) (VSeq b2 l2) = lex vcmp l1 l2.
Proof.
  revert l2; induction l1 as [|x xs IH]; intros [|y ys]; simpl; auto.
Qed.

Ltac cross := simpl; try discriminate; try reflexivity; try congruence.

Lemma vcmp_good a : c_good vcmp a.
Proof.
  induction a as [ | k x | x | x | x | x | x | i l IH ] using val_ind'.
  - repeat split; red; intros; destruct b; try destruct d; cross.
  - destruct (xq_cmp_good x) as (Ga & Gt & Gl & Gr).
    repeat split; red; intros; destruct b; try destruct d; cross; simpl in *; eauto.
  - destruct (zl_cmp_good x) as (Ga & Gt & Gl & Gr).
    repeat split; red; intros; destruct b; try destruct d; cross; simpl in *; eauto.
  - destruct (zl_cmp_good x) as (Ga & Gt & Gl & Gr).
    repeat split; red; intros; destruct b; try destruct d; cross; simpl in *; eauto.
  - destruct (Zcmp_good x) as (Ga & Gt & Gl & Gr).
    repeat split; red; intros; destruct b; try destruct d; cross; simpl in *; eauto.
  - destruct (Zcmp_good x) as (Ga & Gt & Gl & Gr).
    repeat split; red; intros; destruct b; try destruct d; cross; simpl in *; eauto.
  - destruct (Zcmp_good x) as (Ga & Gt & Gl & Gr).
    repeat split; red; intros; destruct b; try destruct d; cross; simpl in *; eauto.
  - destruct (lex_good vcmp l IH) as (Ga & Gt & Gl & Gr).
    repeat split; red.
    + intros b; destruct b; try (simpl; reflexivity). rewrite !vcmp_seq. apply Ga.
    + intros b d; destruct b; try (simpl; discriminate); destruct d; try (simpl; congruence);
        rewrite ?vcmp_seq; try (simpl; discriminate). apply Gt.
    + intros b d; destruct b; try (simpl; discriminate); destruct d; rewrite ?vcmp_seq;
        try (simpl; congruence). apply Gl.
    + intros b d; destruct b; destruct d; rewrite ?vcmp_seq; try (simpl; congruence);
        try (simpl; discriminate). apply Gr.
Qed.

(* ---- consequences, in the vocabulary used by the rest of the development ------------- *)
Lemma vcmp_antisym a b : vcmp b a = CompOpp (vcmp a b).
Proof. apply vcmp_good. Qed.
Lemma vcmp_refl a : vcmp a a = Eq.
Proof. apply c_refl. apply vcmp_good. Qed.
Lemma vcmp_lt_trans a b d : vcmp a b = Lt -> vcmp b d = Lt -> vcmp a d = Lt.
Proof. apply vcmp_good. Qed.
Lemma vcmp_eq_l a b d : vcmp a b = Eq -> vcmp a d = vcmp b d.
Proof. apply vcmp_good. Qed.
Lemma vcmp_eq_r a b d : vcmp b d = Eq -> vcmp a b = vcmp a d.
Proof. apply vcmp_good. Qed.
Lemma vcmp_eq_sym a b : vcmp a b = Eq -> vcmp b a = Eq.
Proof. intros H. rewrite vcmp_antisym, H. reflexivity. Qed.
Lemma vcmp_eq_trans a b d : vcmp a b = Eq -> vcmp b d = Eq -> vcmp a d = Eq.
Proof. intros H1 H2. rewrite (vcmp_eq_l a b d H1). exact H2. Qed.
Lemma vcmp_gt_lt a b : vcmp a b = Gt <-> vcmp b a = Lt.
Proof. rewrite (vcmp_antisym a b). destruct (vcmp a b); simpl; split; congruence. Qed.

(* "not greater" is transitive: the non-strict order *)
Lemma vle_trans a b d : vle a b = true -> vle b d = true -> vle a d = true.
Proof.
  unfold vle. intros H1 H2.
  destruct (vcmp a b) eqn:E1; try discriminate; destruct (vcmp b d) eqn:E2; try discriminate.
  - rewrite (vcmp_eq_l a b d E1), E2. reflexivity.
  - rewrite (vcmp_eq_l a b d E1), E2. reflexivity.
  - rewrite <- (vcmp_eq_r a b d E2), E1. reflexivity.
  - rewrite (vcmp_lt_trans a b d E1 E2). reflexivity.
Qed.

Lemma vle_total a b : vle a b = true \/ vle b a = true.
Proof. unfold vle. rewrite (vcmp_antisym a b). destruct (vcmp a b); simpl; auto. Qed.
