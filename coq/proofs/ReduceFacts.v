(* ReduceFacts.v — rowgroupby over the key-sorted table forms one group per distinct key, in ascending key order,
   each containing exactly the rows with that key in INPUT order; conservation corollaries. *)
From Verif Require Import PyVal Rows Order CmpFacts ComparableGen ComparableFacts OrderTools AsIndicesGen Sort SortFacts
     Basics Dedup Joins Relational JoinFacts JoinRel Reductions.
From Coq Require Import Lia Permutation Sorted.

Section Groups.
  Variable kf : row -> val.

  Lemma group_is_filter gs : grp_ok kf gs -> grp_sorted gs ->
    forall g, In g gs -> filter (fun r => ceq (kf r) (fst g)) (rows_of gs) = snd g.
  Proof.
    induction gs as [|g0 rest IH]; intros Hok Hs g Hg; [destruct Hg|].
    inversion Hok as [|? ? [Hne Hc] Hok']; subst. assert (Hs' : grp_sorted rest) by (inversion Hs; auto).
    rewrite rows_of_cons, filter_app. destruct Hg as [Hg|Hg].
    - subst g. rewrite (filter_all _ (snd g0)) by (intros r Hr; apply Hc; exact Hr).
      rewrite (filter_none _ (rows_of rest)); [apply app_nil_r|].
      intros r Hr. apply clt_not_ceq'. apply (keys_above kf g0 rest r Hok' Hs Hr).
    - rewrite (filter_none _ (snd g0)).
      + apply (IH Hok' Hs' g Hg).
      + intros r Hr. apply clt_not_ceq. rewrite (ceq_clt_l (kf r) (fst g0) (fst g) (Hc r Hr)).
        inversion Hs as [|? ? _ Hall]; subst. rewrite Forall_forall in Hall. apply Hall. exact Hg.
  Qed.
End Groups.

(* THE grouping theorem: sort by key (any buffersize), then groupby *)
Theorem rowgroupby_groups idx (bs : option nat) rows :
  (forall b, bs = Some b -> (1 <= b)%nat) ->
  let gs := groupby (getkey idx) (sort_data (row_leb false idx) bs rows) in
  (* nothing lost, nothing duplicated *)
  Permutation (concat (map snd gs)) rows
  (* ascending, pairwise distinct keys *)
  /\ grp_sorted gs
  (* each group holds exactly the rows with its key, in input order, and is not empty *)
  /\ (forall g, In g gs -> snd g = filter (fun r => ceq (getkey idx r) (fst g)) rows /\ snd g <> []).
Proof.
  intros Hb.
  assert (E : sort_data (row_leb false idx) bs rows = sort_data (row_leb false idx) None rows).
  { destruct bs as [b|]; auto. apply sort_data_chunked; [apply row_leb_total | apply row_leb_trans | apply Hb; reflexivity]. }
  cbv zeta. rewrite E.
  destruct (groupby_ok (getkey idx) _ (sort_data_key_sorted idx rows)) as [Hok Hs].
  split; [|split]; auto.
  - rewrite groupby_concat. apply sort_data_perm.
  - intros g Hg. split.
    + rewrite <- (group_is_filter (getkey idx) _ Hok Hs g Hg). unfold rows_of. rewrite groupby_concat.
      apply sort_data_stable.
    + unfold grp_ok in Hok. rewrite Forall_forall in Hok. apply (Hok g Hg).
Qed.

(* group sizes add up to nrows *)
Lemma concat_length {A} (l : list (list A)) : length (concat l) = fold_right (fun g n => (length g + n)%nat) 0%nat l.
Proof. induction l as [|a t IH]; simpl; auto. rewrite app_length, IH. reflexivity. Qed.

Theorem group_counts_sum_nrows idx rows :
  fold_right (fun g n => (length (snd g) + n)%nat) 0%nat (groupby (getkey idx) (sort_data (row_leb false idx) None rows))
  = length rows.
Proof.
  rewrite <- (Permutation_length (sort_data_perm false idx rows)).
  rewrite <- (groupby_concat (getkey idx) (sort_data (row_leb false idx) None rows)) at 2.
  rewrite concat_length. induction (groupby (getkey idx) (sort_data (row_leb false idx) None rows)) as [|g t IH]; simpl; auto.
Qed.

(* the first / last row selected from a group is a member of that group *)
Lemma first_last_member (g : list row) : g <> [] -> In (hd [] g) g /\ In (last g []) g.
Proof.
  intros H. destruct g as [|x t]; [contradiction|]. split; [left; reflexivity|].
  clear H. revert x. induction t as [|y t IH]; intros x; simpl; auto. right. apply (IH y).
Qed.

(* valuecounter: the counts add up to the number of values *)
Open Scope Z_scope.
Definition total (c : list (val * Z)) : Z := fold_right (fun kv n => snd kv + n) 0 c.

Lemma counter_add_total c v : total (counter_add c v) = total c + 1.
Proof.
  induction c as [|[k n] t IH]; simpl; [lia|].
  destruct (py_eq k v); simpl; unfold total in *; simpl in *; lia.
Qed.

Theorem valuecounts_sum_nvalues vs : forall c, total (fold_left counter_add vs c) = total c + Z.of_nat (length vs).
Proof.
  induction vs as [|v t IH]; intros c; simpl; [lia|].
  rewrite IH, counter_add_total. lia.
Qed.

(* a total aggregation function is applied once to every group, in group order *)
Lemma gen_map_total {A} (f : A -> res row) (f' : A -> row) l :
  (forall x, In x l -> f x = Ok (f' x)) -> gen_map f l = (map f' l, None).
Proof.
  induction l as [|x t IH]; intros H; simpl; auto.
  rewrite (H x (or_introl eq_refl)), IH; auto. intros y Hy. apply H. right. exact Hy.
Qed.
