(* MachineFacts.v — iterators of the caching views are mutually independent: under EVERY schedule of
   __iter__ / next / close operations each iterator yields a prefix of the solo pass (followed by StopIteration). *)
From Verif Require Import PyVal Rows Enc ComparableGen AsIndicesGen Sort SortFacts Basics Machines.
From Coq Require Import Lia.
Open Scope Z_scope.

(* ================================ SortView ================================================= *)
Section SortView.
  Variable c : sv_cfg.
  Notation SM := (sort_model (sv_bs c) (sv_reverse c) (sv_key c)).

  Definition Sol (src : table) : list out := outs_of_gen (SM src).

  (* the header a fresh iterator yields first, if any *)
  Definition first_hdr (src : table) : option row :=
    match src, sv_key c with
    | [], None => None
    | [], Some _ => Some []
    | h :: _, _ => Some h
    end.

  Lemma sort_data_nil {A} (leb : A -> A -> bool) bs : sort_data leb bs [] = [].
  Proof. destruct bs as [b|]; auto. unfold sort_data. destruct b; reflexivity. Qed.

  Lemma Sol_none src : first_hdr src = None -> Sol src = [OStop].
  Proof.
    unfold first_hdr, Sol. destruct src as [|h t]; [|discriminate].
    destruct (sv_key c) eqn:E; [discriminate|]. intros _. reflexivity.
  Qed.

  Lemma Sol_some src h : first_hdr src = Some h ->
    exists rows e, SM (sort_input src h) = (h :: rows, e) /\ Sol src = outs_of_gen (h :: rows, e).
  Proof.
    unfold first_hdr, Sol, sort_input. destruct src as [|h0 t].
    - destruct (sv_key c) as [k|] eqn:E; [|discriminate]. intros H; inversion H; subst h.
      cbn [sort_model key_indices]. destruct (asindices [] k) as [[|x idx]|e]; eauto.
      rewrite sort_data_nil. eauto.
    - intros H; inversion H; subst h0.
      destruct (SM (h :: t)) as [o e] eqn:S.
      destruct (sort_model_header _ _ _ _ _ _ _ S) as (rest & Ho). subst o. eauto.
  Qed.

  Definition sv_inv (src : table) (s : sv_state) : Prop :=
    sv_src s = src /\
    match sv_cached s with
    | None => True
    | Some (h, rows) => Sol src = ORow h :: map ORow rows ++ [OStop]
    end.

  (* what an iterator still has to deliver *)
  Definition rem_of (src : table) (i : sv_iter) : list out :=
    match i with
    | SvFresh => Sol src
    | SvHeaderDone _ => tl (Sol src)
    | SvRows rest => map ORow rest ++ [OStop]
    | SvFromCache h rows => ORow h :: map ORow rows ++ [OStop]
    | SvDone => []
    end.

  Definition sv_wf (src : table) (i : sv_iter) : Prop :=
    match i with
    | SvFresh => True
    | SvHeaderDone h => first_hdr src = Some h
    | SvRows rest => True
    | SvFromCache h rows => Sol src = ORow h :: map ORow rows ++ [OStop]
    | SvDone => True
    end.

  Lemma sv_iter_ok src s : sv_inv src s ->
    let '(s', i) := vm_iter (sv_machine c) s in s' = s /\ sv_wf src i /\ rem_of src i = Sol src.
  Proof.
    intros [Hsrc Hc]. simpl. destruct (sv_cached s) as [[h rows]|] eqn:E.
    - destruct (sv_cache c); simpl; repeat split; auto.
    - simpl. auto.
  Qed.

  (* one next(): the shared state stays consistent, and the iterator delivers exactly the head of what it owed
     (an exhausted iterator keeps raising StopIteration) *)
  Lemma sv_next_ok src s i : sv_inv src s -> sv_wf src i ->
    let '(s', i', o) := vm_next (sv_machine c) s i in
    sv_inv src s' /\ sv_wf src i' /\
    ((rem_of src i = o :: rem_of src i') \/ (rem_of src i = [] /\ o = OStop /\ rem_of src i' = [])).
  Proof.
    intros [Hsrc Hc] Hwf. destruct i as [ | hdr | rest | h rows | ]; cbn [vm_next sv_machine].
    - (* SvFresh *)
      rewrite Hsrc. destruct src as [|hdr rows] eqn:Esrc.
      + destruct (sv_key c) as [k|] eqn:Ek.
        * assert (F : first_hdr [] = Some []) by (unfold first_hdr; rewrite Ek; reflexivity).
          destruct (Sol_some [] [] F) as (r & e & S1 & S2).
          repeat split; cbn; auto. left. rewrite S2. unfold outs_of_gen. reflexivity.
        * assert (F : first_hdr [] = None) by (unfold first_hdr; rewrite Ek; reflexivity).
          repeat split; cbn; auto. left. rewrite (Sol_none [] F). reflexivity.
      + assert (F : first_hdr (hdr :: rows) = Some hdr) by reflexivity.
        destruct (Sol_some _ _ F) as (r & e & S1 & S2).
        repeat split; cbn; auto. left. rewrite S2. unfold outs_of_gen. reflexivity.
    - (* SvHeaderDone: the whole sort happens inside this next() *)
      cbn [sv_wf] in Hwf. destruct (Sol_some src hdr Hwf) as (rows & e & S1 & S2).
      rewrite Hsrc. rewrite S1.
      cbn [rem_of]. rewrite S2. unfold outs_of_gen. cbn [fst snd map app tl].
      destruct e as [e|].
      + repeat split; cbn; auto.
        destruct rows; cbn.
        * (* the generator raised before yielding any data row *)
          left. reflexivity.
        * (* sort_model never raises after having produced data rows *)
          exfalso. clear -S1. unfold sort_model in S1.
          destruct (sort_input src hdr) as [|h0 t0]; [destruct (sv_key c); try discriminate;
            destruct (asindices [] v) as [[|? ?]|?]; discriminate|].
          destruct (key_indices h0 (sv_key c)) as [[|? ?]|?]; discriminate.
      + assert (Hinv : forall rows', rows' = rows ->
                  sv_inv src {| sv_src := src; sv_pulls := sv_pulls s + zlen (tl src);
                                sv_cached := if sv_cache c then Some (hdr, rows') else sv_cached s |}).
        { intros rows' ->. split; cbn; auto. destruct (sv_cache c); cbn; auto. }
        destruct rows as [|r rest]; cbn; (split; [apply Hinv; reflexivity|]); split; cbn; auto.
    - (* SvRows *)
      destruct rest as [|r rest]; repeat split; cbn; auto.
    - (* SvFromCache: bound to its own copy of the cache *)
      repeat split; cbn; auto.
    - repeat split; cbn; auto.
  Qed.
End SortView.

(* ================================ lifting one step to every schedule ================================= *)
Definition proj (k : nat) (t : trace) : list out := map snd (filter (fun p => Nat.eqb (fst p) k) t).

(* a (possibly complete) prefix of the solo pass, possibly followed by repeated StopIteration *)
Definition prefix_with_stops (sol E : list out) : Prop :=
  (exists r, E ++ r = sol) \/ (exists n, E = sol ++ repeat OStop n).

Section Lift.
  Context {S I : Type} (m : vmachine S I).
  Variables (Inv : S -> Prop) (wf : S -> I -> Prop) (rem : I -> list out) (sol : list out).
  (* wf may mention the shared state, but must be stable under the steps of other iterators *)
  Hypothesis Hiter : forall s, Inv s ->
    let '(s', i) := vm_iter m s in Inv s' /\ wf s' i /\ rem i = sol /\ (forall j, wf s j -> wf s' j).
  Hypothesis Hnext : forall s i, Inv s -> wf s i ->
    let '(s', i', o) := vm_next m s i in
    Inv s' /\ wf s' i' /\ ((rem i = o :: rem i') \/ (rem i = [] /\ o = OStop /\ rem i' = []))
    /\ (forall j, wf s j -> wf s' j).

  Definition good (E r : list out) : Prop := (E ++ r = sol) \/ (r = [] /\ exists n, E = sol ++ repeat OStop n).

  Definition its_ok (s : S) (its : list (option I)) (t : trace) : Prop :=
    forall k, match nth_error its k with
              | Some (Some i) => wf s i /\ good (proj k t) (rem i)
              | Some None => prefix_with_stops sol (proj k t)
              | None => proj k t = []
              end.

  Lemma good_prefix E r : good E r -> prefix_with_stops sol E.
  Proof. intros [H|[_ H]]; [left; eauto | right; exact H]. Qed.

  Lemma proj_snoc k t j o : proj k (t ++ [(j, o)]) = if Nat.eqb j k then proj k t ++ [o] else proj k t.
  Proof.
    unfold proj. rewrite filter_app, map_app. simpl. destruct (Nat.eqb j k); simpl; auto. apply app_nil_r.
  Qed.

  Lemma nth_error_set_nth_opt {A} (l : list (option A)) k x j :
    nth_error (set_nth_opt k x l) j = if Nat.eqb j k then (match nth_error l k with Some _ => Some x | None => None end)
                                      else nth_error l j.
  Proof.
    revert k j. induction l as [|a t IH]; intros k j.
    - destruct k, j; simpl; auto; destruct (Nat.eqb j k); auto.
    - destruct k.
      + destruct j; reflexivity.
      + destruct j; [reflexivity|]. cbn [set_nth_opt nth_error]. rewrite IH. reflexivity.
  Qed.

  Lemma its_ok_mono s s' its t : (forall j, wf s j -> wf s' j) -> its_ok s its t -> its_ok s' its t.
  Proof.
    intros Hm Hok k. specialize (Hok k). destruct (nth_error its k) as [[i|]|]; auto.
    destruct Hok as [Hw Hg]. split; auto.
  Qed.

  Theorem run_independent : forall ops s its acc,
    Inv s -> its_ok s its (rev acc) ->
    let '(s', its', t) := mrun m ops s its acc in Inv s' /\ its_ok s' its' t.
  Proof.
    induction ops as [|op rest IH]; intros s its acc HI Hok; cbn [mrun].
    - split; auto.
    - destruct op as [|k|k].
      + (* __iter__ *)
        pose proof (Hiter s HI) as H. destruct (vm_iter m s) as [s' i]. destruct H as (HI' & Hw & Hr & Hm).
        apply IH; auto. apply (its_ok_mono s s' _ _ Hm) in Hok. intros k. specialize (Hok k).
        destruct (Nat.lt_ge_cases k (length its)) as [Hlt|Hge].
        * rewrite nth_error_app1 by exact Hlt. exact Hok.
        * rewrite nth_error_app2 by exact Hge.
          assert (Hnone : nth_error its k = None) by (apply nth_error_None; exact Hge).
          rewrite Hnone in Hok.
          destruct (k - length its)%nat as [|d] eqn:Ed; simpl.
          -- split; auto. left. rewrite Hok, Hr. reflexivity.
          -- destruct d; exact Hok.
      + (* next *)
        destruct (nth_error its k) as [[i|]|] eqn:Ek.
        * pose proof (Hok k) as Hk. rewrite Ek in Hk. destruct Hk as [Hw Hg].
          pose proof (Hnext s i HI Hw) as H. destruct (vm_next m s i) as [[s' i'] o].
          destruct H as (HI' & Hw' & Hstep & Hm).
          apply IH; auto. apply (its_ok_mono s s' _ _ Hm) in Hok.
          cbn [rev]. intros j. rewrite nth_error_set_nth_opt, proj_snoc.
          rewrite (Nat.eqb_sym k j).
          destruct (Nat.eqb j k) eqn:Ejk.
          -- apply Nat.eqb_eq in Ejk. subst j. rewrite Ek. split; auto.
             destruct Hstep as [Hs|(Hr0 & Ho & Hr')].
             ++ destruct Hg as [Hg|[Hg _]].
                ** left. rewrite <- app_assoc. cbn [app]. rewrite <- Hs. exact Hg.
                ** rewrite Hg in Hs. discriminate.
             ++ right. split; auto. subst o. destruct Hg as [Hg|[_ (n & Hg)]].
                ** rewrite Hr0, app_nil_r in Hg. exists 1%nat. rewrite Hg. reflexivity.
                ** exists (Datatypes.S n). rewrite Hg, <- app_assoc. f_equal.
                   change (repeat OStop n ++ [OStop]) with (repeat OStop n ++ repeat OStop 1).
                   rewrite <- repeat_app. f_equal. lia.
          -- exact (Hok j).
        * apply IH; auto.
        * apply IH; auto.
      + (* close *)
        apply IH; auto. intros j. rewrite nth_error_set_nth_opt.
        destruct (Nat.eqb j k) eqn:Ejk.
        * apply Nat.eqb_eq in Ejk. subst j. pose proof (Hok k) as Hk.
          destruct (nth_error its k) as [[i|]|]; auto. destruct Hk as [_ Hg]. eapply good_prefix; eauto.
        * exact (Hok j).
  Qed.

  (* every iterator, under every schedule, yields a prefix of the solo pass *)
  Corollary schedule_independent ops s :
    Inv s -> let '(_, _, t) := mrun m ops s [] [] in forall k, prefix_with_stops sol (proj k t).
  Proof.
    intros HI. pose proof (run_independent ops s [] [] HI) as H.
    destruct (mrun m ops s [] []) as [[s' its'] t]. destruct H as [_ Hok].
    - intros k. destruct k; reflexivity.
    - intros k. specialize (Hok k). destruct (nth_error its' k) as [[i|]|].
      + destruct Hok as [_ Hg]. eapply good_prefix; eauto.
      + exact Hok.
      + rewrite Hok. left. exists sol. reflexivity.
  Qed.
End Lift.

(* SortView: every schedule; the solo pass is the sorted table *)
Theorem sortview_independent c src ops :
  let '(_, _, t) := mrun (sv_machine c) ops (sv_init src) [] [] in
  forall k, prefix_with_stops (Sol c src) (proj k t).
Proof.
  apply (schedule_independent (sv_machine c) (sv_inv c src) (fun _ => sv_wf c src) (rem_of c src) (Sol c src)).
  - intros s HI. pose proof (sv_iter_ok c src s HI) as H. destruct (vm_iter (sv_machine c) s) as [s' i].
    destruct H as (E & Hw & Hr). subst s'. auto.
  - intros s i HI Hw. pose proof (sv_next_ok c src s i HI Hw) as H.
    destruct (vm_next (sv_machine c) s i) as [[s' i'] o]. destruct H as (A & B & C). auto.
  - split; reflexivity.
Qed.

(* ================================ CacheView (cache()) ================================================ *)
Section CacheView.
  Variable n : option nat.
  Variable inner : table.

  Definition cv_sol : list out := map ORow inner ++ [OStop].

  Definition cv_inv (s : cv_state) : Prop :=
    cv_inner s = inner /\
    cv_cache s = firstn (length (cv_cache s)) inner /\
    (length (cv_cache s) <= length inner)%nat /\
    (cv_complete s = true -> cv_cache s = inner).

  Definition cv_rem (i : cv_iter) : list out :=
    match i with
    | CvServing pos => skipn pos cv_sol
    | CvRemainder j => skipn j cv_sol
    | CvDone => []
    end.

  Definition cv_wf (s : cv_state) (i : cv_iter) : Prop :=
    match i with
    | CvServing pos => (pos <= length (cv_cache s))%nat
    | CvRemainder j => (j <= length inner)%nat /\ ((j <= length (cv_cache s))%nat \/ cv_room n s = false)
    | CvDone => True
    end.

  Lemma skipn_sol_some j row : nth_error inner j = Some row -> skipn j cv_sol = ORow row :: skipn (Datatypes.S j) cv_sol.
  Proof.
    unfold cv_sol. revert j. induction inner as [|a t IH]; intros j H.
    - destruct j; discriminate.
    - destruct j; simpl in *.
      + inversion H; subst. reflexivity.
      + apply IH. exact H.
  Qed.

  Lemma skipn_sol_end j : nth_error inner j = None -> (j <= length inner)%nat -> skipn j cv_sol = [OStop].
  Proof.
    intros H Hle. apply nth_error_None in H. assert (j = length inner) by lia. subst j.
    unfold cv_sol. rewrite skipn_app, map_length, Nat.sub_diag. rewrite skipn_all2 by (rewrite map_length; lia).
    reflexivity.
  Qed.

  Lemma firstn_nth_error {A} (l : list A) k pos : (pos < k)%nat -> nth_error (firstn k l) pos = nth_error l pos.
  Proof.
    revert k pos. induction l as [|a t IH]; intros k pos H.
    - rewrite firstn_nil. reflexivity.
    - destruct k; [lia|]. destruct pos; simpl; auto. apply IH. lia.
  Qed.

  Lemma firstn_snoc {A} (l : list A) k x : nth_error l k = Some x -> firstn k l ++ [x] = firstn (Datatypes.S k) l.
  Proof.
    revert k. induction l as [|a t IH]; intros k H.
    - destruct k; discriminate.
    - destruct k; simpl in *.
      + inversion H; reflexivity.
      + f_equal. apply IH. exact H.
  Qed.

  Lemma cv_room_stays_false s s' :
    (length (cv_cache s) <= length (cv_cache s'))%nat -> cv_room n s = false -> cv_room n s' = false.
  Proof.
    unfold cv_room. destruct n as [[|k]|]; try discriminate. intros Hle H.
    apply Nat.ltb_ge in H. apply Nat.ltb_ge. lia.
  Qed.

  Lemma cv_wf_mono s s' x :
    (length (cv_cache s) <= length (cv_cache s'))%nat -> cv_wf s x -> cv_wf s' x.
  Proof.
    intros Hle. destruct x as [pos|j|]; cbn [cv_wf]; auto.
    - lia.
    - intros [Hj [H|H]]; split; auto. left; lia. right. eapply cv_room_stays_false; eauto.
  Qed.

  (* the remainder loop at inner index j *)
  Lemma cv_remainder_ok s j (first : bool) : cv_inv s -> cv_wf s (CvRemainder j) ->
    let skip := if first then Z.of_nat (Nat.min j (length (cv_inner s))) else 0 in
    let '(s', i', o) :=
      match nth_error (cv_inner s) j with
      | Some row =>
          let append := cv_room n s && (j =? length (cv_cache s))%nat in
          ({| cv_inner := cv_inner s; cv_cache := if append then cv_cache s ++ [row] else cv_cache s;
              cv_complete := cv_complete s; cv_pulls := cv_pulls s + skip + 1 |}, CvRemainder (Datatypes.S j), ORow row)
      | None =>
          ({| cv_inner := cv_inner s; cv_cache := cv_cache s;
              cv_complete := if cv_room n s then true else cv_complete s; cv_pulls := cv_pulls s + skip |}, CvDone, OStop)
      end in
    cv_inv s' /\ cv_wf s' i' /\ skipn j cv_sol = o :: cv_rem i' /\ (forall x, cv_wf s x -> cv_wf s' x).
  Proof.
    intros (Hin & Hpre & Hlen & Hcomp) (Hj & Hwf). cbv zeta. rewrite Hin.
    destruct (nth_error inner j) as [row|] eqn:Ej.
    - assert (Hjlt : (j < length inner)%nat) by (apply nth_error_Some; congruence).
      destruct (cv_room n s && (j =? length (cv_cache s))%nat) eqn:Eapp.
      + apply andb_true_iff in Eapp. destruct Eapp as [Hroom Heq]. apply Nat.eqb_eq in Heq.
        assert (Hnew : cv_cache s ++ [row] = firstn (Datatypes.S j) inner).
        { rewrite Hpre, <- Heq. apply firstn_snoc. exact Ej. }
        split; [|split; [|split]].
        * unfold cv_inv. cbn [cv_inner cv_cache cv_complete]. repeat split; auto.
          -- rewrite app_length. cbn [length]. rewrite Hnew. f_equal. lia.
          -- rewrite app_length. cbn [length]. lia.
          -- intros Hc. specialize (Hcomp Hc). rewrite Hcomp in Heq. lia.
        * cbn [cv_wf cv_cache]. split; [lia|]. left. rewrite app_length. cbn [length]. lia.
        * cbn [cv_rem]. apply skipn_sol_some. exact Ej.
        * intros x. apply cv_wf_mono. cbn [cv_cache]. rewrite app_length. lia.
      + split; [|split; [|split]].
        * unfold cv_inv. cbn [cv_inner cv_cache cv_complete]. repeat split; auto.
        * cbn [cv_wf cv_cache]. split; [lia|].
          apply andb_false_iff in Eapp. destruct Hwf as [Hle|Hroom].
          -- destruct Eapp as [Hr|Hne]; [right; exact Hr|]. apply Nat.eqb_neq in Hne. left. lia.
          -- right. exact Hroom.
        * cbn [cv_rem]. apply skipn_sol_some. exact Ej.
        * intros x. apply cv_wf_mono. cbn [cv_cache]. lia.
    - assert (Hjeq : j = length inner) by (apply nth_error_None in Ej; lia).
      split; [|split; [|split]].
      + unfold cv_inv. cbn [cv_inner cv_cache cv_complete]. repeat split; auto.
        destruct (cv_room n s) eqn:Hroom; auto. intros _.
        destruct Hwf as [Hle|Hf]; [|congruence].
        rewrite Hpre. assert (Hl : length (cv_cache s) = length inner) by lia. rewrite Hl. apply firstn_all.
      + exact I.
      + cbn [cv_rem]. apply skipn_sol_end; auto.
      + intros x. apply cv_wf_mono. cbn [cv_cache]. lia.
  Qed.

  Lemma cv_iter_ok s : cv_inv s ->
    let '(s', i) := vm_iter (cv_machine n) s in cv_inv s' /\ cv_wf s' i /\ cv_rem i = cv_sol /\ (forall j, cv_wf s j -> cv_wf s' j).
  Proof. intros H. cbn. repeat split; auto; try apply H. lia. Qed.

  Lemma cv_next_ok s i : cv_inv s -> cv_wf s i ->
    let '(s', i', o) := vm_next (cv_machine n) s i in
    cv_inv s' /\ cv_wf s' i' /\ ((cv_rem i = o :: cv_rem i') \/ (cv_rem i = [] /\ o = OStop /\ cv_rem i' = []))
    /\ (forall j, cv_wf s j -> cv_wf s' j).
  Proof.
    intros HI Hw. destruct i as [pos|j|]; cbn [vm_next cv_machine].
    - assert (HI0 := HI). destruct HI as (Hin & Hpre & Hlen & Hcomp). cbn [cv_wf] in Hw.
      destruct (nth_error (cv_cache s) pos) as [row|] eqn:Ep.
      + assert (Hlt : (pos < length (cv_cache s))%nat) by (apply nth_error_Some; congruence).
        assert (Hrow : nth_error inner pos = Some row).
        { rewrite Hpre in Ep. rewrite firstn_nth_error in Ep by exact Hlt. exact Ep. }
        repeat split; auto; cbn [cv_wf cv_rem]; try lia. left. apply skipn_sol_some. exact Hrow.
      + assert (Hpos : pos = length (cv_cache s)) by (apply nth_error_None in Ep; lia).
        destruct (cv_complete s) eqn:Ec.
        * repeat split; auto; cbn [cv_wf cv_rem]; auto. left.
          specialize (Hcomp eq_refl). apply skipn_sol_end.
          -- rewrite Hpos, Hcomp. apply nth_error_None. lia.
          -- lia.
        * assert (W : cv_wf s (CvRemainder (length (cv_cache s)))) by (cbn [cv_wf]; split; [lia | left; lia]).
          pose proof (cv_remainder_ok s (length (cv_cache s)) true HI0 W) as H.
          cbv zeta in H. subst pos. rewrite ?Ec in H.
          destruct (nth_error (cv_inner s) (length (cv_cache s))) as [row|] eqn:E;
            destruct H as (A & B & C & D); (split; [exact A|split; [exact B|split; [left; cbn [cv_rem]; exact C|exact D]]]).
    - pose proof (cv_remainder_ok s j false HI Hw) as H. cbv zeta in H.
      destruct (nth_error (cv_inner s) j) as [row|]; destruct H as (A & B & C & D);
        (split; [exact A|split; [exact B|split; [left; exact C|exact D]]]).
    - split; [exact HI|]. repeat split; auto.
  Qed.
End CacheView.

(* cache(): every schedule of any number of iterators; the solo pass is the inner table itself *)
Theorem cacheview_independent n inner ops :
  let '(_, _, t) := mrun (cv_machine n) ops (cv_init inner) [] [] in
  forall k, prefix_with_stops (cv_sol inner) (proj k t).
Proof.
  apply (schedule_independent (cv_machine n) (cv_inv inner) (cv_wf n inner) (cv_rem inner) (cv_sol inner)).
  - intros s HI. exact (cv_iter_ok n inner s HI).
  - intros s i HI Hw. exact (cv_next_ok n inner s i HI Hw).
  - unfold cv_inv, cv_init. cbn. repeat split; auto. lia. discriminate.
Qed.

(* ================================ SortView: the cache clause (C11) =================================== *)
Section SortViewCache.
  Variable c : sv_cfg.
  Hypothesis Hbs : forall b, sv_bs c = Some b -> (1 <= b)%nat.     (* the property's domain: buffersize >= 1 *)
  Notation SM := (sort_model (sv_bs c) (sv_reverse c) (sv_key c)).

  Lemma drain_rows s rest : forall fuel, (length rest < fuel)%nat ->
    drain (sv_machine c) fuel s (SvRows rest) = (s, map ORow rest ++ [OStop]).
  Proof.
    induction rest as [|r t IH]; intros fuel Hf; destruct fuel as [|f]; try (simpl in Hf; lia).
    - reflexivity.
    - cbn [drain vm_next sv_machine]. rewrite IH by (simpl in Hf; lia). reflexivity.
  Qed.

  Lemma drain_S f s i :
    drain (sv_machine c) (Datatypes.S f) s i =
    let '(s', i', o) := vm_next (sv_machine c) s i in
    match o with
    | ORow _ => let '(s'', os) := drain (sv_machine c) f s' i' in (s'', o :: os)
    | _ => (s', [o])
    end.
  Proof. reflexivity. Qed.

  Lemma step_fresh hdr rows p cached0 :
    vm_next (sv_machine c) {| sv_src := hdr :: rows; sv_pulls := p; sv_cached := cached0 |} SvFresh
    = ({| sv_src := hdr :: rows; sv_pulls := p + 1; sv_cached := None |}, SvHeaderDone hdr, ORow hdr).
  Proof. reflexivity. Qed.

  Lemma step_sort hdr rows p srows e :
    SM (hdr :: rows) = (hdr :: srows, e) ->
    vm_next (sv_machine c) {| sv_src := hdr :: rows; sv_pulls := p; sv_cached := None |} (SvHeaderDone hdr)
    = match e with
      | Some err => ({| sv_src := hdr :: rows; sv_pulls := p; sv_cached := None |}, SvDone, ORaise err)
      | None =>
          let s' := {| sv_src := hdr :: rows; sv_pulls := p + zlen rows;
                       sv_cached := if sv_cache c then Some (hdr, srows) else None |} in
          match srows with
          | [] => (s', SvDone, OStop)
          | r :: rest => (s', SvRows rest, ORow r)
          end
      end.
  Proof.
    intros S. cbn [vm_next sv_machine sv_src sort_input]. rewrite S. destruct e; reflexivity.
  Qed.

  Lemma sorted_rows_length hdr rows srows :
    SM (hdr :: rows) = (hdr :: srows, None) -> srows <> [] -> length srows = length rows.
  Proof.
    intros S Hne. unfold sort_model in S. destruct (key_indices hdr (sv_key c)) as [[|i idx]|?]; try discriminate.
    inversion S as [E]. destruct (sv_bs c) as [b|] eqn:Eb.
    - rewrite (sort_data_chunked _ (row_leb_total _ _) (row_leb_trans _ _)) by (apply Hbs; reflexivity).
      apply pysort_length.
    - apply pysort_length.
  Qed.

  (* a pass that has to sort: it yields the sorted current contents, pulls every source row once, and leaves the
     result in the cache iff cache=True and the sort succeeded *)
  Lemma pass_sorting hdr rows p cached0 fuel :
    (cached0 = None \/ sv_cache c = false) -> (length rows + 2 < fuel)%nat ->
    exists s', pass (sv_machine c) fuel {| sv_src := hdr :: rows; sv_pulls := p; sv_cached := cached0 |}
               = (s', Sol c (hdr :: rows)) /\
               sv_src s' = hdr :: rows /\
               match SM (hdr :: rows) with
               | (_ :: srows, None) => sv_pulls s' = p + 1 + zlen rows /\
                                       sv_cached s' = (if sv_cache c then Some (hdr, srows) else None)
               | _ => sv_cached s' = None
               end.
  Proof.
    intros Hc Hf. unfold pass.
    assert (Hit : vm_iter (sv_machine c) {| sv_src := hdr :: rows; sv_pulls := p; sv_cached := cached0 |}
                  = ({| sv_src := hdr :: rows; sv_pulls := p; sv_cached := cached0 |}, SvFresh)).
    { cbn. destruct cached0 as [[h r]|]; auto. destruct Hc as [Hc|Hc]; [discriminate|]. rewrite Hc. reflexivity. }
    rewrite Hit. destruct fuel as [|[|fuel]]; try lia.
    rewrite drain_S, step_fresh. cbv iota beta. rewrite drain_S.
    unfold Sol.
    destruct (SM (hdr :: rows)) as [o e] eqn:S.
    destruct (sort_model_header _ _ _ _ _ _ _ S) as (srows & Ho). subst o.
    rewrite (step_sort hdr rows (p + 1) srows e S).
    destruct e as [e|].
    - assert (srows = []).
      { clear -S. unfold sort_model in S. destruct (key_indices hdr (sv_key c)) as [[|? ?]|?]; inversion S; reflexivity. }
      subst srows. cbv zeta iota beta. eexists. split; [reflexivity|]. cbn. auto.
    - destruct srows as [|r rest].
      + cbv zeta iota beta. eexists. split; [reflexivity|]. cbn. split; auto.
      + assert (Hlen : length (r :: rest) = length rows) by (eapply sorted_rows_length; eauto; discriminate).
        cbv zeta iota beta. rewrite drain_rows by (cbn [length] in *; lia).
        eexists. split; [reflexivity|]. cbn. split; auto.
  Qed.

  (* a pass served from the cache: same rows, no source row pulled, state unchanged *)
  Lemma pass_cached s h srows fuel :
    sv_cache c = true -> sv_cached s = Some (h, srows) -> (length srows + 1 < fuel)%nat ->
    pass (sv_machine c) fuel s = (s, ORow h :: map ORow srows ++ [OStop]).
  Proof.
    intros Hc Hs Hf. unfold pass. cbn [vm_iter sv_machine]. rewrite Hs, Hc.
    destruct fuel as [|fuel]; try lia. cbn [drain vm_next sv_machine].
    rewrite drain_rows by lia. reflexivity.
  Qed.
End SortViewCache.

Section SortViewHistories.
  Variable c : sv_cfg.
  Hypothesis Hbs : forall b, sv_bs c = Some b -> (1 <= b)%nat.
  Notation SM := (sort_model (sv_bs c) (sv_reverse c) (sv_key c)).

  (* the source contents seen by each pass of a history *)
  Fixpoint srcs_at_pass (ops : list hop) (src : table) : list table :=
    match ops with
    | [] => []
    | HEdit t :: r => srcs_at_pass r t
    | HPass :: r => src :: srcs_at_pass r src
    end.

  Definition has_header (t : table) : Prop := t <> [].
  Fixpoint edits_ok (fuel : nat) (ops : list hop) : Prop :=
    match ops with
    | [] => True
    | HEdit t :: r => has_header t /\ (length t + 1 < fuel)%nat /\ edits_ok fuel r
    | HPass :: r => edits_ok fuel r
    end.

  (* cache=False: every pass re-reads the source and reflects its CURRENT contents *)
  Theorem nocache_pass_reflects_source fuel : sv_cache c = false -> forall ops s,
    has_header (sv_src s) -> (length (sv_src s) + 1 < fuel)%nat -> edits_ok fuel ops ->
    map fst (sv_history c fuel ops s) = map (Sol c) (srcs_at_pass ops (sv_src s)).
  Proof.
    intros Hc. induction ops as [|[t|] r IH]; intros s Hh Hf He; cbn [sv_history srcs_at_pass map]; auto.
    - destruct He as (Ht & Hft & He). apply (IH (sv_edit t s)); auto.
    - destruct s as [src p cached]. cbn [sv_src] in *. destruct src as [|hdr rows]; [contradiction Hh; reflexivity|].
      destruct (pass_sorting c Hbs hdr rows p cached fuel (or_intror Hc)) as (s' & E & Hsrc & _).
      { cbn [length] in Hf. lia. }
      rewrite E. cbn [map fst]. f_equal. rewrite <- Hsrc. apply IH; auto; rewrite Hsrc; auto.
  Qed.

  Fixpoint count_passes (ops : list hop) : nat :=
    match ops with [] => O | HEdit _ :: r => count_passes r | HPass :: r => Datatypes.S (count_passes r) end.

  (* cache=True: once a pass has completed the sort, every later pass is served from the cache — same rows,
     not one source row pulled — whatever happens to the source in between *)
  Theorem cache_pass_no_pulls fuel h srows : sv_cache c = true -> forall ops s,
    sv_cached s = Some (h, srows) -> (length srows + 1 < fuel)%nat ->
    sv_history c fuel ops s = repeat (ORow h :: map ORow srows ++ [OStop], 0) (count_passes ops).
  Proof.
    intros Hc. induction ops as [|[t|] r IH]; intros s Hs Hf; cbn [sv_history count_passes repeat].
    - reflexivity.
    - apply IH; [exact Hs | exact Hf].
    - rewrite (pass_cached c s h srows fuel Hc Hs Hf). rewrite Z.sub_diag. f_equal. apply IH; [exact Hs | exact Hf].
  Qed.

  (* ... and a successful first pass does fill the cache with exactly what it yielded *)
  Theorem first_pass_fills_cache fuel hdr rows srows : sv_cache c = true ->
    SM (hdr :: rows) = (hdr :: srows, None) -> (length rows + 2 < fuel)%nat ->
    exists s', pass (sv_machine c) fuel (sv_init (hdr :: rows)) = (s', ORow hdr :: map ORow srows ++ [OStop])
               /\ sv_cached s' = Some (hdr, srows) /\ sv_pulls s' = 1 + zlen rows.
  Proof.
    intros Hc S Hf. unfold sv_init.
    destruct (pass_sorting c Hbs hdr rows 0 None fuel (or_introl eq_refl) Hf) as (s' & E & Hsrc & H).
    rewrite S in H. destruct H as [Hp Hcached]. rewrite Hc in Hcached.
    exists s'. split; [|split; auto].
    rewrite E. unfold Sol. rewrite S. reflexivity.
  Qed.
End SortViewHistories.

(* ================================ fromdicts(<generator>) ============================================== *)
Section DictsGenerator.
  Variables (hdr : row) (rows : list row).
  Definition dg_sol : list out := ORow hdr :: map ORow rows ++ [OStop].
  Definition dg_inv (s : dg_state) : Prop := dg_header s = hdr /\ dg_rows s = rows /\ (dg_cached s <= length rows)%nat.
  Definition dg_rem (i : dg_iter) : list out :=
    match i with DgFresh => dg_sol | DgAt pos => skipn pos (map ORow rows ++ [OStop]) | DgDone => [] end.
  Definition dg_wf (s : dg_state) (i : dg_iter) : Prop :=
    match i with DgAt pos => (pos <= dg_cached s)%nat | _ => True end.

  Lemma skipn_rows_some pos r : nth_error rows pos = Some r ->
    skipn pos (map ORow rows ++ [OStop]) = ORow r :: skipn (Datatypes.S pos) (map ORow rows ++ [OStop]).
  Proof. apply (skipn_sol_some rows). Qed.

  Lemma dg_next_ok s i : dg_inv s -> dg_wf s i ->
    let '(s', i', o) := vm_next dg_machine s i in
    dg_inv s' /\ dg_wf s' i' /\ ((dg_rem i = o :: dg_rem i') \/ (dg_rem i = [] /\ o = OStop /\ dg_rem i' = []))
    /\ (forall j, dg_wf s j -> dg_wf s' j).
  Proof.
    intros (Hh & Hr & Hc) Hw. destruct i as [|pos|]; cbn [vm_next dg_machine].
    - repeat split; auto; cbn; try lia. left. rewrite Hh. reflexivity.
    - cbn [dg_wf] in Hw. destruct (pos <? dg_cached s)%nat eqn:E.
      + apply Nat.ltb_lt in E. rewrite Hr.
        destruct (nth_error rows pos) as [r|] eqn:En.
        * repeat split; auto; cbn [dg_wf dg_rem]; try lia. left. apply skipn_rows_some. exact En.
        * apply nth_error_None in En. lia.
      + apply Nat.ltb_ge in E. assert (pos = dg_cached s) by lia. subst pos. rewrite Hr.
        destruct (nth_error rows (dg_cached s)) as [r|] eqn:En.
        * assert (dg_cached s < length rows)%nat by (apply nth_error_Some; congruence).
          split; [|split; [|split]].
          -- unfold dg_inv. cbn. repeat split; auto.
          -- cbn. lia.
          -- left. cbn [dg_rem]. apply skipn_rows_some. exact En.
          -- intros j. destruct j; cbn; auto.
        * split; [|split; [|split]]; auto.
          -- unfold dg_inv. repeat split; auto.
          -- exact I.
          -- left. cbn [dg_rem]. apply (skipn_sol_end rows); auto.
    - split; [|split; [|split]]; auto. unfold dg_inv. repeat split; auto.
  Qed.
End DictsGenerator.

Theorem dictsgenerator_independent hdr rows ops :
  let '(_, _, t) := mrun dg_machine ops (dg_init hdr rows) [] [] in
  forall k, prefix_with_stops (dg_sol hdr rows) (proj k t).
Proof.
  apply (schedule_independent dg_machine (dg_inv hdr rows) dg_wf (dg_rem hdr rows) (dg_sol hdr rows)).
  - intros s HI. cbn. repeat split; auto; apply HI.
  - intros s i HI Hw. exact (dg_next_ok hdr rows s i HI Hw).
  - unfold dg_inv, dg_init. cbn. repeat split; auto. lia.
Qed.

(* ================================ stateless views ================================================== *)
(* a view whose __iter__ writes no shared state: every iterator is a private cursor into the same result *)
Theorem stateless_independent (result : list out) ops :
  (exists rows t, result = map ORow rows ++ [t] /\ match t with ORow _ => False | _ => True end) ->
  let '(_, _, t) := mrun (stateless_machine result) ops tt [] [] in
  forall k, prefix_with_stops result (proj k t).
Proof.
  intros (rows & term & Hres & Hterm).
  apply (schedule_independent (stateless_machine result) (fun _ => True)
           (fun _ i => exists pre, result = pre ++ i /\ (i = [] \/ exists rs, i = map ORow rs ++ [term]))
           (fun i => i) result); auto.
  - intros s _. cbn. repeat split; auto. exists []. split; auto. right. exists rows. exact Hres.
  - intros s i _ (pre & Hpre & Hshape). cbn. destruct i as [|o rest].
    + repeat split; auto. exists pre. auto.
    + destruct Hshape as [Hn|(rs & Hrs)]; [discriminate|].
      destruct rs as [|r rs']; cbn in Hrs; inversion Hrs; subst.
      * destruct term as [r0| |e]; try contradiction; repeat split; auto.
        -- exists (pre ++ [OStop]). rewrite <- app_assoc. cbn. auto.
        -- exists (pre ++ [ORaise e]). rewrite <- app_assoc. cbn. auto.
      * repeat split; auto. exists (pre ++ [ORow r]). rewrite <- app_assoc. cbn. split; auto. right. eauto.
Qed.
