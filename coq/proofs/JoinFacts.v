(* JoinFacts.v — facts about the group-wise merge of iterjoin / iterantijoin / iterlookupjoin. *)
From Verif Require Import PyVal Rows ComparableGen AsIndicesGen Sort Basics Joins Relational.
From Coq Require Import Lia Permutation.
Open Scope Z_scope.

Section Exhausted.
  Variables (n : nat) (lkind rkind rvind : list Z) (missing : val).

  (* one side has no rows: outer variants return the other side's rows, padded; inner variants nothing.
     (This is where rows with a None key used to be lost.) *)
  Lemma join_loop_right_empty lo ro lgs :
    join_loop n lkind rkind rvind missing lo ro lgs [] =
    if lo then flat_map (fun g => join_left_only rvind missing (snd g)) lgs else [].
  Proof. destruct lgs as [|[k g] t]; destruct lo, ro; reflexivity. Qed.

  Lemma join_loop_left_empty lo ro rgs :
    join_loop n lkind rkind rvind missing lo ro [] rgs =
    if ro then flat_map (fun g => join_right_only n lkind rkind rvind missing (snd g)) rgs else [].
  Proof. destruct rgs; destruct lo, ro; reflexivity. Qed.

  Lemma lookupjoin_loop_right_empty lgs :
    lookupjoin_loop rvind missing lgs [] = flat_map (fun g => join_left_only rvind missing (snd g)) lgs.
  Proof. destruct lgs as [|[k g] t]; reflexivity. Qed.
End Exhausted.

Lemma antijoin_loop_right_empty lgs : antijoin_loop lgs [] = flat_map (fun g => snd g) lgs.
Proof. destruct lgs as [|[k g] t]; reflexivity. Qed.

(* groupby tiles its input: nothing lost, nothing duplicated, order kept *)
Lemma groupby_concat keyf rows : concat (map snd (groupby keyf rows)) = rows.
Proof.
  induction rows as [|r t IH]; simpl; auto.
  destruct (groupby keyf t) as [|[k g] rest] eqn:E; simpl in *.
  - subst. reflexivity.
  - destruct (ceq (keyf r) k); simpl; rewrite <- IH; reflexivity.
Qed.

Lemma left_only_all rvind missing (gs : list grp) :
  flat_map (fun g => join_left_only rvind missing (snd g)) gs
  = join_left_only rvind missing (concat (map snd gs)).
Proof.
  induction gs as [|[k g] t IH]; simpl; auto.
  unfold join_left_only in *. rewrite map_app, IH. reflexivity.
Qed.

(* leftjoin / outerjoin against a table without data rows: every left row, padded, in key order *)
Theorem leftjoin_header_only_right n lkind rkind rvind missing ro keyf rows :
  join_loop n lkind rkind rvind missing true ro (groupby keyf rows) [] = join_left_only rvind missing rows.
Proof. rewrite join_loop_right_empty, left_only_all, groupby_concat. reflexivity. Qed.

Theorem antijoin_header_only_right keyf rows : antijoin_loop (groupby keyf rows) [] = rows.
Proof.
  rewrite antijoin_loop_right_empty.
  rewrite <- (groupby_concat keyf rows) at 2. induction (groupby keyf rows) as [|[k g] t IH]; simpl; auto.
  rewrite IH. reflexivity.
Qed.

(* crossjoin is the cartesian product in source order *)
Lemma product_length (srcs : list (list row)) :
  length (product srcs) = fold_right (fun s n => (length s * n)%nat) 1%nat srcs.
Proof.
  induction srcs as [|s rest IH]; auto.
  cbn [product fold_right]. rewrite <- IH. clear IH.
  induction s as [|r s IHs]; auto.
  change (flat_map (fun r0 : list val => map (fun tail : list val => r0 ++ tail) (product rest)) (r :: s))
    with (map (fun tail : list val => r ++ tail) (product rest)
          ++ flat_map (fun r0 : list val => map (fun tail : list val => r0 ++ tail) (product rest)) s).
  rewrite app_length, map_length. cbn [length Nat.mul]. f_equal. exact IHs.
Qed.
