(* UnpackFacts.v — unpack expands one field and leaves all the other cells of the row unchanged, in order: the output row is
   the row itself (include_original) or the row without the unpacked cell, followed by the unpacked cells; for a sequence
   value exactly one cell per new field (the items, then `missing`). *)
From Verif Require Import PyVal Rows Sort Basics Reshape.
From Coq Require Import Lia.
Open Scope Z_scope.

Lemma keep_drops_one : forall (r : row) (s i : Z), s <= i ->
  map snd (filter (fun p : Z * val => negb (fst p =? i)) (combine (zrange (length r) s) r))
  = firstn (Z.to_nat (i - s)) r ++ skipn (S (Z.to_nat (i - s))) r.
Proof.
  induction r as [|x t IH]; intros s i Hs; [destruct (Z.to_nat (i - s)); reflexivity|].
  cbn [length zrange combine filter fst].
  destruct (s =? i) eqn:E.
  - apply Z.eqb_eq in E. subst i. cbn [negb]. rewrite Z.sub_diag. cbn [Z.to_nat firstn skipn app].
    (* nothing else is dropped: every later index is larger *)
    clear IH. assert (G : forall (l : row) s', s < s' ->
      map snd (filter (fun p : Z * val => negb (fst p =? s)) (combine (zrange (length l) s') l)) = l).
    { induction l as [|y u IHl]; intros s' H; [reflexivity|]. cbn [length zrange combine filter fst].
      replace (s' =? s) with false by (symmetry; apply Z.eqb_neq; lia). cbn [negb map snd]. f_equal. apply IHl. lia. }
    apply G. lia.
  - apply Z.eqb_neq in E. cbn [negb map snd]. rewrite (IH (s + 1) i) by lia.
    replace (Z.to_nat (i - s)) with (S (Z.to_nat (i - (s + 1)))) by lia. reflexivity.
Qed.

Theorem unpack_keep_spec (inc : bool) (i : Z) (r : row) : 0 <= i ->
  unpack_keep inc i r = if inc then r else firstn (Z.to_nat i) r ++ skipn (S (Z.to_nat i)) r.
Proof.
  intros Hi. unfold unpack_keep. destruct inc; [reflexivity|]. rewrite (keep_drops_one r 0 i Hi). rewrite Z.sub_0_r. reflexivity.
Qed.

Lemma unpack_cells_seq (n : nat) (missing : val) (b : bool) (l : list val) cells :
  unpack_cells n missing (VSeq b l) = Ok cells ->
  length cells = n /\ (forall j, (j < n)%nat -> nth j cells VNone = if (j <? length l)%nat then nth j l VNone else missing).
Proof.
  cbn [unpack_cells]. intros H. inversion H; subst; clear H.
  destruct (0 <? n)%nat eqn:E0; [|apply Nat.ltb_ge in E0; split; [cbn; lia|intros; lia]].
  destruct (n <=? length l)%nat eqn:E1.
  - apply Nat.leb_le in E1. split; [rewrite firstn_length; lia|]. intros j Hj.
    replace (j <? length l)%nat with true by (symmetry; apply Nat.ltb_lt; lia).
    rewrite <- (firstn_skipn n l) at 2. rewrite app_nth1 by (rewrite firstn_length; lia). reflexivity.
  - apply Nat.leb_gt in E1. split; [rewrite app_length, repeat_length; lia|]. intros j Hj.
    destruct (j <? length l)%nat eqn:Ej.
    + apply Nat.ltb_lt in Ej. rewrite app_nth1 by lia. reflexivity.
    + apply Nat.ltb_ge in Ej. rewrite app_nth2 by lia.
      rewrite (nth_indep _ VNone missing) by (rewrite repeat_length; lia). apply nth_repeat.
Qed.

(* the frame: whatever unpack appends, the kept cells come first and are the row's own *)
Theorem unpack_row_frame (inc : bool) (i : Z) (n : nat) (missing : val) (r out : row) : 0 <= i ->
  unpack_row inc i n missing r = Ok out ->
  exists v cells, py_nth r i = Some v /\ unpack_cells n missing v = Ok cells /\
    out = (if inc then r else firstn (Z.to_nat i) r ++ skipn (S (Z.to_nat i)) r) ++ cells.
Proof.
  intros Hi. unfold unpack_row. destruct (py_nth r i) as [v|] eqn:Ev; [|discriminate].
  destruct (unpack_cells n missing v) as [cells|e] eqn:Ec; [|discriminate].
  intros H. inversion H; subst. exists v, cells. rewrite (unpack_keep_spec inc i r Hi). auto.
Qed.

(* map_rows f stops at the first error; when it runs to the end every output row is f of the source row at the same position *)
Lemma map_rows_Forall2 (f : row -> res row) (rows o : list row) :
  map_rows f rows = (o, None) -> Forall2 (fun r out => f r = Ok out) rows o.
Proof.
  revert o; induction rows as [|r t IH]; intros o; cbn [map_rows]; [intros H; inversion H; constructor|].
  destruct (f r) as [y|e] eqn:Ey; [|discriminate]. destruct (map_rows f t) as [out e] eqn:Et.
  intros H; inversion H; subst. constructor; [exact Ey|apply IH; reflexivity].
Qed.

(* the whole operator: the new fields are appended to the header, and row by row (same count, same order) the output is the
   source row with the unpacked cells appended (and the unpacked cell dropped unless include_original) *)
Theorem unpack_model_exact (field : val) (newfields : list val) (inc : bool) (missing : val) (hdr : row) (rows : list row)
    (outt : table) :
  unpack_model field newfields inc missing (hdr :: rows) = (outt, None) ->
  exists i kept o, outt = (kept ++ newfields) :: o /\
    Forall2 (fun r out => unpack_row inc i (length newfields) missing r = Ok out) rows o /\
    (0 <= i -> Forall2 (fun r out => exists v cells, py_nth r i = Some v /\ unpack_cells (length newfields) missing v = Ok cells /\
                          out = (if inc then r else firstn (Z.to_nat i) r ++ skipn (S (Z.to_nat i)) r) ++ cells) rows o).
Proof.
  unfold unpack_model.
  match goal with |- match ?fi with _ => _ end = _ -> _ => destruct fi as [i|]; [|discriminate] end.
  destruct (map_rows (unpack_row inc i (length newfields) missing) rows) as [o e] eqn:Em.
  intros H; inversion H; subst; clear H. apply map_rows_Forall2 in Em.
  eexists i, _, o. split; [reflexivity|]. split; [exact Em|]. intros Hi.
  induction Em as [|r out rs os Hr _ IH]; constructor; [|exact IH].
  exact (unpack_row_frame inc i (length newfields) missing r out Hi Hr).
Qed.
