(* AliasFacts.v — soundness of the alias-class check: no execution, along any path, mutates an object of the caller or an
   object already delivered. *)
From Verif Require Import Alias.
From Coq Require Import List Arith Bool Lia.
Import ListNotations.

Lemma nth_error_snoc {A} (l : list A) x n : nth_error (l ++ [x]) n =
  if Nat.ltb n (length l) then nth_error l n else if Nat.eqb n (length l) then Some x else None.
Proof.
  destruct (Nat.ltb_spec n (length l)) as [H|H].
  - apply nth_error_app1. exact H.
  - rewrite nth_error_app2 by exact H. destruct (Nat.eqb_spec n (length l)) as [E|E].
    + subst. rewrite Nat.sub_diag. reflexivity.
    + destruct (n - length l) as [|k] eqn:D; [lia|]. cbn. destruct k; reflexivity.
Qed.

Lemma set_yielded_length h l : length (set_yielded h l) = length h.
Proof. revert l. induction h as [|o t IH]; intros [|l]; cbn; auto. Qed.

Lemma nth_error_set_yielded h l n : nth_error (set_yielded h l) n =
  match nth_error h n with
  | Some o => Some (if Nat.eqb n l then {| o_owner := o_owner o; o_tag := o_tag o; o_yielded := true |} else o)
  | None => None
  end.
Proof.
  revert l n. induction h as [|o t IH]; intros l n.
  - destruct l, n; reflexivity.
  - destruct l as [|l], n as [|n]; cbn; auto.
    all: try (destruct (nth_error t n); reflexivity).
    all: try (rewrite IH; reflexivity).
Qed.

Section Sound.
  Variable comp : var -> nat.
  Variable prog : list atom.
  Hypothesis Hcp : copies_ok comp prog = true.
  Hypothesis Hmc : muts_clean comp prog = true.

  (* part 1: objects of the caller (needs: copies inside classes, mutated classes clean) *)
  Record Inv (s : state) : Prop := {
    i_wf : forall x l, store s x = Some l -> l < length (heap s);
    i_tag : forall x l o, store s x = Some l -> nth_error (heap s) l = Some o -> o_owner o = Own -> o_tag o = comp x;
    i_clean : forall x l o, store s x = Some l -> nth_error (heap s) l = Some o -> clean comp prog (comp x) = true ->
                            o_owner o = Own;
    i_flag : foreign_mutated s = false
  }.

  Lemma inv_init : Inv init_state.
  Proof. constructor; cbn; try discriminate; auto. Qed.

  Lemma clean_no_foreign x : clean comp prog (comp x) = true -> forall a, In a prog -> defines_foreign a <> Some x.
  Proof.
    intros Hc a Hin E. unfold clean in Hc. rewrite forallb_forall in Hc. specialize (Hc a Hin). rewrite E in Hc.
    rewrite Nat.eqb_refl in Hc. discriminate.
  Qed.

  Lemma not_clean_of_def a x : In a prog -> defines_foreign a = Some x -> clean comp prog (comp x) = false.
  Proof.
    intros Hin Hd. destruct (clean comp prog (comp x)) eqn:E; [|reflexivity].
    exfalso. exact (clean_no_foreign x E a Hin Hd).
  Qed.

  Lemma bind_foreign_inv w x c s : w <> Own -> (clean comp prog (comp x) = false) -> Inv s -> Inv (bind_foreign w x c s).
  Proof.
    intros Hw Hnc [WF TG CL FL]. unfold bind_foreign.
    destruct (nth_error (heap s) c) as [o|] eqn:Ec; [destruct (owner_eqb (o_owner o) w) eqn:Eo|].
    - assert (Hown : o_owner o <> Own) by (destruct (o_owner o), w; cbn in Eo; congruence).
      constructor; cbn [store heap foreign_mutated yielded_mutated]; auto.
      + intros y l H. unfold upd in H. destruct (Nat.eqb y x); [inversion H; subst; apply nth_error_Some; congruence|eauto].
      + intros y l o' H Hn Ho. unfold upd in H. destruct (Nat.eqb_spec y x) as [->|Hne].
        * inversion H; subst. rewrite Ec in Hn. inversion Hn; subst. contradiction.
        * eauto.
      + intros y l o' H Hn Hc. unfold upd in H. destruct (Nat.eqb_spec y x) as [->|Hne].
        * rewrite Hc in Hnc. discriminate.
        * eauto.
    - constructor; cbn [store heap foreign_mutated yielded_mutated]; auto.
      + intros y l H. rewrite app_length. cbn. unfold upd in H. destruct (Nat.eqb y x); [inversion H; lia|].
        specialize (WF y l H). lia.
      + intros y l o' H Hn Ho. unfold upd in H. rewrite nth_error_snoc in Hn. destruct (Nat.eqb_spec y x) as [->|Hne].
        * inversion H; subst. rewrite Nat.ltb_irrefl, Nat.eqb_refl in Hn. inversion Hn; subst. cbn in Ho. contradiction.
        * pose proof (WF y l H) as Hl. apply Nat.ltb_lt in Hl. rewrite Hl in Hn. eauto.
      + intros y l o' H Hn Hc. unfold upd in H. rewrite nth_error_snoc in Hn. destruct (Nat.eqb_spec y x) as [->|Hne].
        * rewrite Hc in Hnc. discriminate.
        * pose proof (WF y l H) as Hl. apply Nat.ltb_lt in Hl. rewrite Hl in Hn. eauto.
    - constructor; cbn [store heap foreign_mutated yielded_mutated]; auto.
      + intros y l H. rewrite app_length. cbn. unfold upd in H. destruct (Nat.eqb y x); [inversion H; lia|].
        specialize (WF y l H). lia.
      + intros y l o' H Hn Ho. unfold upd in H. rewrite nth_error_snoc in Hn. destruct (Nat.eqb_spec y x) as [->|Hne].
        * inversion H; subst. rewrite Nat.ltb_irrefl, Nat.eqb_refl in Hn. inversion Hn; subst. cbn in Ho. contradiction.
        * pose proof (WF y l H) as Hl. apply Nat.ltb_lt in Hl. rewrite Hl in Hn. eauto.
      + intros y l o' H Hn Hc. unfold upd in H. rewrite nth_error_snoc in Hn. destruct (Nat.eqb_spec y x) as [->|Hne].
        * rewrite Hc in Hnc. discriminate.
        * pose proof (WF y l H) as Hl. apply Nat.ltb_lt in Hl. rewrite Hl in Hn. eauto.
  Qed.

  Lemma step_inv s a c : In a prog -> Inv s -> Inv (astep comp s a c).
  Proof.
    intros Hin HI. pose proof HI as [WF TG CL FL].
    destruct a as [x|x|x|x y|x|x]; cbn [astep].
    - constructor; cbn [store heap foreign_mutated yielded_mutated]; auto.
      + intros z l H. rewrite app_length. cbn. unfold upd in H. destruct (Nat.eqb z x); [inversion H; lia|].
        specialize (WF z l H). lia.
      + intros z l o H Hn Ho. unfold upd in H. rewrite nth_error_snoc in Hn. destruct (Nat.eqb_spec z x) as [->|Hne].
        * inversion H; subst. rewrite Nat.ltb_irrefl, Nat.eqb_refl in Hn. inversion Hn; subst. reflexivity.
        * pose proof (WF z l H) as Hl. apply Nat.ltb_lt in Hl. rewrite Hl in Hn. eauto.
      + intros z l o H Hn Hc. unfold upd in H. rewrite nth_error_snoc in Hn. destruct (Nat.eqb_spec z x) as [->|Hne].
        * inversion H; subst. rewrite Nat.ltb_irrefl, Nat.eqb_refl in Hn. inversion Hn; subst. reflexivity.
        * pose proof (WF z l H) as Hl. apply Nat.ltb_lt in Hl. rewrite Hl in Hn. eauto.
    - apply bind_foreign_inv; auto; [discriminate|]. apply (not_clean_of_def (ASrc x)); auto.
    - apply bind_foreign_inv; auto; [discriminate|]. apply (not_clean_of_def (AExt x)); auto.
    - assert (Hc : comp x = comp y).
      { pose proof Hcp as H. unfold copies_ok in H. rewrite forallb_forall in H. specialize (H _ Hin). apply Nat.eqb_eq in H. exact H. }
      constructor; cbn [store heap foreign_mutated yielded_mutated]; auto.
      + intros z l H. unfold upd in H. destruct (Nat.eqb z x); eauto.
      + intros z l o H Hn Ho. unfold upd in H. destruct (Nat.eqb_spec z x) as [->|Hne]; [rewrite Hc|]; eauto.
      + intros z l o H Hn Hcl. unfold upd in H. destruct (Nat.eqb_spec z x) as [->|Hne]; [rewrite Hc in Hcl|]; eauto.
    - destruct (store s x) as [l|] eqn:Ex; [|exact HI]. destruct (nth_error (heap s) l) as [o|] eqn:El; [|exact HI].
      assert (Hcl : clean comp prog (comp x) = true).
      { pose proof Hmc as H. unfold muts_clean in H. rewrite forallb_forall in H. exact (H _ Hin). }
      pose proof (CL x l o Ex El Hcl) as Hown.
      constructor; cbn [store heap foreign_mutated yielded_mutated]; auto.
      rewrite FL, Hown. reflexivity.
    - destruct (store s x) as [l|] eqn:Ex; [|exact HI].
      constructor; cbn [store heap foreign_mutated yielded_mutated]; auto.
      + intros z l' H. rewrite set_yielded_length. eauto.
      + intros z l' o H Hn Ho. rewrite nth_error_set_yielded in Hn. destruct (nth_error (heap s) l') as [o'|] eqn:E'; [|discriminate].
        inversion Hn; subst. destruct (Nat.eqb l' l); cbn in *; eauto.
      + intros z l' o H Hn Hc. rewrite nth_error_set_yielded in Hn. destruct (nth_error (heap s) l') as [o'|] eqn:E'; [|discriminate].
        inversion Hn; subst. destruct (Nat.eqb l' l); cbn in *; eauto.
  Qed.

  Lemma run_inv : forall w s, Forall (fun ac => In (fst ac) prog) w -> Inv s -> Inv (arun comp w s).
  Proof.
    induction w as [|[a c] t IH]; intros s Hw HI; cbn [arun]; [exact HI|].
    inversion Hw; subst. apply IH; auto. apply step_inv; auto.
  Qed.

  (* no path mutates an object of the caller or of unknown origin *)
  Theorem foreign_sound : forall w, Forall (fun ac => In (fst ac) prog) w -> foreign_mutated (arun comp w init_state) = false.
  Proof. intros w Hw. exact (i_flag _ (run_inv w init_state Hw inv_init)). Qed.

  (* part 2: delivered objects (needs in addition: no class both yielded and mutated) *)
  Hypothesis Hyo : yields_ok comp prog = true.

  Record YInv (s : state) : Prop := {
    y_yield : forall l o, nth_error (heap s) l = Some o -> o_yielded o = true -> o_owner o = Own ->
                          exists z, In (AYield z) prog /\ comp z = o_tag o;
    y_flag : yielded_mutated s = false
  }.

  Lemma ystep s a c : In a prog -> Inv s -> YInv s -> YInv (astep comp s a c).
  Proof.
    intros Hin [WF TG CL FL] [YL YF].
    destruct a as [x|x|x|x y|x|x]; cbn [astep].
    - constructor; cbn [heap yielded_mutated]; auto.
      intros l o Hn Hy Ho. rewrite nth_error_snoc in Hn. destruct (Nat.ltb l (length (heap s))); [eauto|].
      destruct (Nat.eqb l (length (heap s))); [|discriminate]. inversion Hn; subst. discriminate.
    - unfold bind_foreign. destruct (nth_error (heap s) c) as [o|]; [destruct (owner_eqb (o_owner o) Src)|];
        constructor; cbn [heap yielded_mutated]; auto; intros l o' Hn Hy Ho; rewrite nth_error_snoc in Hn;
        (destruct (Nat.ltb l (length (heap s))); [eauto|]);
        (destruct (Nat.eqb l (length (heap s))); [|discriminate]); inversion Hn; subst; discriminate.
    - unfold bind_foreign. destruct (nth_error (heap s) c) as [o|]; [destruct (owner_eqb (o_owner o) Ext)|];
        constructor; cbn [heap yielded_mutated]; auto; intros l o' Hn Hy Ho; rewrite nth_error_snoc in Hn;
        (destruct (Nat.ltb l (length (heap s))); [eauto|]);
        (destruct (Nat.eqb l (length (heap s))); [|discriminate]); inversion Hn; subst; discriminate.
    - constructor; cbn [heap yielded_mutated]; auto.
    - destruct (store s x) as [l|] eqn:Ex; [|constructor; auto].
      destruct (nth_error (heap s) l) as [o|] eqn:El; [|constructor; auto].
      assert (Hcl : clean comp prog (comp x) = true).
      { pose proof Hmc as H. unfold muts_clean in H. rewrite forallb_forall in H. exact (H _ Hin). }
      pose proof (CL x l o Ex El Hcl) as Hown.
      constructor; cbn [heap yielded_mutated]; auto.
      rewrite YF. cbn. destruct (o_yielded o) eqn:Ey; [|reflexivity]. exfalso.
      destruct (YL l o El Ey Hown) as (z & Hz & Hcz). rewrite (TG x l o Ex El Hown) in Hcz.
      pose proof Hyo as H. unfold yields_ok in H. rewrite forallb_forall in H. specialize (H _ Hz). cbn in H.
      apply negb_true_iff in H. unfold mutated_class in H.
      assert (E : existsb (fun a => match a with AMut x0 => Nat.eqb (comp x0) (comp z) | _ => false end) prog = true).
      { apply existsb_exists. exists (AMut x). split; auto. apply Nat.eqb_eq. symmetry. exact Hcz. }
      rewrite E in H. discriminate.
    - destruct (store s x) as [l|] eqn:Ex; [|constructor; auto].
      constructor; cbn [heap yielded_mutated]; auto.
      intros l' o Hn Hy Ho. rewrite nth_error_set_yielded in Hn. destruct (nth_error (heap s) l') as [o'|] eqn:E'; [|discriminate].
      inversion Hn; subst. destruct (Nat.eqb_spec l' l) as [->|Hne]; cbn in *.
      + exists x. split; auto. symmetry. eapply TG; eauto.
      + eauto.
  Qed.

  Theorem delivered_sound : forall w, Forall (fun ac => In (fst ac) prog) w -> yielded_mutated (arun comp w init_state) = false.
  Proof.
    intros w Hw.
    assert (G : forall w s, Forall (fun ac => In (fst ac) prog) w -> Inv s -> YInv s -> YInv (arun comp w s)).
    { induction w0 as [|[a c] t IH]; intros s Hw0 HI HY; cbn [arun]; [exact HY|].
      inversion Hw0; subst. apply IH; auto; [apply step_inv | apply ystep]; auto. }
    assert (Y0 : YInv init_state).
    { constructor; cbn; auto. intros l o H. destruct l; discriminate. }
    exact (y_flag _ (G w init_state Hw inv_init Y0)).
  Qed.
End Sound.

Theorem imm_ok_sound comp prog : imm_ok comp prog = true ->
  forall w, Forall (fun ac => In (fst ac) prog) w ->
  foreign_mutated (arun comp w init_state) = false /\ yielded_mutated (arun comp w init_state) = false.
Proof.
  intros H w Hw. unfold imm_ok in H. apply andb_true_iff in H. destruct H as [H H3].
  apply andb_true_iff in H. destruct H as [H1 H2].
  split; [apply (foreign_sound comp prog H1 H2 w Hw) | apply (delivered_sound comp prog H1 H2 H3 w Hw)].
Qed.

(* the check does tell: mutating a pulled row, and re-using a delivered buffer, are both reachable violations *)
Example mutating_a_source_row : foreign_mutated (arun (fun _ => 0) [(ASrc 0, 0); (AMut 0, 0)] init_state) = true.
Proof. reflexivity. Qed.
Example reusing_a_delivered_buffer :
  yielded_mutated (arun (fun _ => 0) [(AFresh 0, 0); (AYield 0, 0); (AMut 0, 0)] init_state) = true.
Proof. reflexivity. Qed.
