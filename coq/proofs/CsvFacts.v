(* CsvFacts.v — the csv round trip: parsing what the writer produced returns the cell texts, for ALL cell texts
   (delimiters, quotes, CR, LF, NUL ... included) and every dialect with distinct delimiter / quote character that are
   not CR or LF. *)
From Verif Require Import PyVal Rows Csv.
From Coq Require Import Lia.
Open Scope Z_scope.

Lemma ne_app_cons (x y : list Z) a : x ++ a :: y <> [].
Proof. destruct x; discriminate. Qed.

Section Dialect.
  Variable d : dialect.
  Hypothesis Hdq : d_delim d <> d_quote d.
  Hypothesis Hd_cr : d_delim d <> CR.
  Hypothesis Hd_lf : d_delim d <> LF.
  Hypothesis Hq_cr : d_quote d <> CR.
  Hypothesis Hq_lf : d_quote d <> LF.
  Hypothesis Hd_pos : 0 <= d_delim d.
  Hypothesis Hq_pos : 0 <= d_quote d.
  Hypothesis Hquoting : d_quoting d <> QNone.        (* fields may be quoted *)

  Definition charok (c : Z) : Prop := 0 <= c.
  Definition plain (c : Z) : Prop := c <> d_delim d /\ c <> d_quote d /\ c <> CR /\ c <> LF /\ 0 <= c.

  Lemma qnone_false : (match d_quoting d with QNone => true | _ => false end) = false.
  Proof. destruct (d_quoting d); auto. congruence. Qed.

  Ltac zeq := repeat match goal with
                     | |- context [?a =? ?b] =>
                         first [ rewrite (Z.eqb_refl a)
                               | rewrite (proj2 (Z.eqb_neq a b)) by (unfold CR, LF, EOL in *; lia) ]
                     end.

  (* ---- single steps --------------------------------------------------------------------------------------------- *)
  Lemma step_plain_start r c : plain c -> (r_state r = StartRecord \/ r_state r = StartField) ->
    step d r c = Some (add_char r c InField).
  Proof.
    intros (A & B & C & D & E) [H|H]; unfold step, is_nl; rewrite H, qnone_false; cbn [negb andb]; zeq; reflexivity.
  Qed.

  Lemma step_plain_infield r c : plain c -> r_state r = InField -> step d r c = Some (add_char r c InField).
  Proof. intros (A & B & C & D & E) H; unfold step, is_nl; rewrite H; zeq; reflexivity. Qed.

  Lemma step_quote_start r : (r_state r = StartRecord \/ r_state r = StartField) ->
    step d r (d_quote d) = Some (set_state r InQuoted).
  Proof.
    intros [H|H]; unfold step, is_nl; rewrite H, qnone_false; cbn [negb andb]; zeq; reflexivity.
  Qed.

  Lemma step_inquoted_other r c : r_state r = InQuoted -> c <> d_quote d -> 0 <= c ->
    step d r c = Some (add_char r c InQuoted).
  Proof. intros H A B. unfold step. rewrite H, qnone_false. zeq. reflexivity. Qed.

  Lemma step_inquoted_quote r : r_state r = InQuoted -> step d r (d_quote d) = Some (set_state r QuoteInQuoted).
  Proof. intros H. unfold step. rewrite H, qnone_false. zeq. reflexivity. Qed.

  Lemma step_inquoted_eol r : r_state r = InQuoted -> step d r EOL = Some r.
  Proof. intros H. unfold step. rewrite H. reflexivity. Qed.

  Lemma step_qiq_quote r : r_state r = QuoteInQuoted -> step d r (d_quote d) = Some (add_char r (d_quote d) InQuoted).
  Proof. intros H. unfold step. rewrite H, qnone_false. zeq. reflexivity. Qed.

  (* the delimiter ends a field *)
  Lemma step_delim r : (r_state r = StartRecord \/ r_state r = StartField \/ r_state r = InField \/ r_state r = QuoteInQuoted) ->
    step d r (d_delim d) = Some (save_field r StartField).
  Proof.
    intros [H|[H|[H|H]]]; unfold step, is_nl; rewrite H, ?qnone_false; cbn [negb andb]; zeq; reflexivity.
  Qed.

  (* CR ends the last field of a record *)
  Lemma step_cr_field r : (r_state r = StartField \/ r_state r = InField \/ r_state r = QuoteInQuoted) ->
    step d r CR = Some (save_field r EatCRNL).
  Proof.
    intros [H|[H|H]]; unfold step, is_nl; rewrite H, ?qnone_false; cbn [negb andb]; zeq; try reflexivity.
  Qed.

  Lemma step_cr_startrecord r : r_state r = StartRecord -> step d r CR = Some (set_state r EatCRNL).
  Proof. intros H. unfold step, is_nl. rewrite H. zeq. reflexivity. Qed.

  Lemma step_lf_eat r : r_state r = EatCRNL -> step d r LF = Some r.
  Proof. intros H. unfold step, is_nl. rewrite H. zeq. reflexivity. Qed.

  Lemma step_eol_eat r : r_state r = EatCRNL -> step d r EOL = Some (set_state r StartRecord).
  Proof. intros H. unfold step, is_nl. rewrite H. zeq. reflexivity. Qed.

  (* ---- line ends ---------------------------------------------------------------------------------------------------- *)
  Lemma line_ends_no c rest : c <> CR -> c <> LF -> rest <> [] -> line_ends c rest = false.
  Proof.
    intros A B C. unfold line_ends. zeq. destruct rest; [contradiction|]. reflexivity.
  Qed.

  (* one character that is neither CR nor LF, not at the end of the text *)
  Lemma read_one r c rest acc r1 : step d r c = Some r1 -> c <> CR -> c <> LF -> rest <> [] ->
    read_all d r (c :: rest) acc = read_all d r1 rest acc.
  Proof.
    intros H A B C. cbn [read_all]. rewrite H, (line_ends_no c rest A B C). reflexivity.
  Qed.

  (* inside a quoted field, any character other than the quote character is data, even across physical lines *)
  Lemma read_inquoted_char r c rest acc : r_state r = InQuoted -> c <> d_quote d -> 0 <= c -> rest <> [] ->
    read_all d r (c :: rest) acc = read_all d (add_char r c InQuoted) rest acc.
  Proof.
    intros H A B C. cbn [read_all]. rewrite (step_inquoted_other r c H A B).
    destruct (line_ends c rest); [|reflexivity].
    rewrite (step_inquoted_eol (add_char r c InQuoted) eq_refl). reflexivity.
  Qed.

  (* ---- fields ---------------------------------------------------------------------------------------------------------- *)
  Definition with_field (r : reader) (st : rstate) (rev_text : list Z) : reader :=
    {| r_state := st; r_field := rev_text ++ r_field r; r_fields := r_fields r |}.

  (* an unquoted field: only plain characters *)
  Lemma read_raw s : forall r rest acc, Forall plain s -> s <> [] -> rest <> [] ->
    (r_state r = StartRecord \/ r_state r = StartField \/ r_state r = InField) ->
    read_all d r (s ++ rest) acc = read_all d (with_field r InField (rev s)) rest acc.
  Proof.
    induction s as [|c t IH]; intros r rest acc Hs Hne Hrest Hst; [contradiction|].
    inversion Hs as [|? ? Hc Ht]; subst.
    assert (Hstep : step d r c = Some (add_char r c InField)).
    { destruct Hst as [H|[H|H]]; [apply step_plain_start | apply step_plain_start | apply step_plain_infield]; auto. }
    destruct Hc as (A & B & C & D & E).
    cbn [app]. rewrite (read_one r c (t ++ rest) acc _ Hstep C D) by (destruct t; [exact Hrest | discriminate]).
    destruct t as [|c2 t2].
    - cbn [app rev]. unfold with_field, add_char. cbn. reflexivity.
    - rewrite (IH (add_char r c InField) rest acc Ht) by (auto; try discriminate; right; right; reflexivity).
      unfold with_field, add_char. cbn [r_state r_field r_fields rev]. rewrite <- !app_assoc. reflexivity.
  Qed.

  (* the body of a quoted field, quotes doubled *)
  Lemma read_escaped s : forall r rest acc, Forall charok s -> rest <> [] -> r_state r = InQuoted ->
    read_all d r (escape_field d s ++ rest) acc = read_all d (with_field r InQuoted (rev s)) rest acc.
  Proof.
    induction s as [|c t IH]; intros r rest acc Hs Hrest Hst.
    - cbn. unfold with_field. destruct r; cbn in *; subst; reflexivity.
    - inversion Hs as [|? ? Hc Ht]; subst. cbn [escape_field].
      assert (Hne : escape_field d t ++ rest <> []) by (destruct (escape_field d t); [exact Hrest | discriminate]).
      destruct (c =? d_quote d) eqn:E.
      + apply Z.eqb_eq in E. subst c. cbn [app].
        rewrite (read_one r (d_quote d) _ acc _ (step_inquoted_quote r Hst) Hq_cr Hq_lf) by discriminate.
        rewrite (read_one (set_state r QuoteInQuoted) (d_quote d) _ acc _ (step_qiq_quote (set_state r QuoteInQuoted) eq_refl) Hq_cr Hq_lf) by exact Hne.
        rewrite (IH _ rest acc Ht Hrest) by reflexivity.
        unfold with_field, add_char, set_state. cbn [r_state r_field r_fields rev]. rewrite <- app_assoc. reflexivity.
      + apply Z.eqb_neq in E. cbn [app].
        rewrite (read_inquoted_char r c _ acc Hst E Hc Hne).
        rewrite (IH _ rest acc Ht Hrest) by reflexivity.
        unfold with_field, add_char. cbn [r_state r_field r_fields rev]. rewrite <- app_assoc. reflexivity.
  Qed.

  Lemma read_quoted s r rest acc : Forall charok s -> rest <> [] ->
    (r_state r = StartRecord \/ r_state r = StartField) ->
    read_all d r (d_quote d :: escape_field d s ++ d_quote d :: rest) acc
    = read_all d (with_field r QuoteInQuoted (rev s)) rest acc.
  Proof.
    intros Hs Hrest Hst.
    rewrite (read_one r (d_quote d) _ acc _ (step_quote_start r Hst) Hq_cr Hq_lf)
      by (destruct (escape_field d s); discriminate).
    rewrite (read_escaped s (set_state r InQuoted) (d_quote d :: rest) acc Hs) by (auto; discriminate).
    rewrite (read_one _ (d_quote d) rest acc _
               (step_inquoted_quote (with_field (set_state r InQuoted) InQuoted (rev s)) eq_refl) Hq_cr Hq_lf Hrest).
    unfold with_field, set_state. cbn. reflexivity.
  Qed.

  (* a written field is either the text itself (all characters plain) or the quoted, escaped text *)
  Inductive written : list Z -> list Z -> Prop :=
  | WRaw s : Forall plain s -> written s s
  | WQuoted s : Forall charok s -> written s (d_quote d :: escape_field d s ++ [d_quote d]).

  Lemma write_field_written text numeric w : Forall charok text -> write_field d text numeric = Some w -> written text w.
  Proof.
    intros Hok. unfold write_field.
    assert (Hraw : existsb (needs_quote d) text = false -> Forall plain text).
    { intros H. rewrite Forall_forall in *. intros c Hc. specialize (Hok c Hc).
      assert (N : needs_quote d c = false).
      { destruct (needs_quote d c) eqn:E; auto.
        assert (existsb (needs_quote d) text = true) by (apply existsb_exists; eauto). congruence. }
      unfold needs_quote in N. repeat (apply orb_false_iff in N; destruct N as [N ?]).
      rewrite !Z.eqb_neq in *. unfold plain. auto. }
    destruct (d_quoting d) eqn:Q; try congruence.
    - destruct (existsb (needs_quote d) text) eqn:E; intros H; inversion H; subst; [apply WQuoted | apply WRaw]; auto.
    - intros H; inversion H; subst. apply WQuoted; auto.
    - destruct (numeric && negb (existsb (needs_quote d) text)) eqn:E; intros H; inversion H; subst.
      + apply WRaw. apply Hraw. apply andb_true_iff in E. destruct E as [_ E]. apply negb_true_iff in E. exact E.
      + apply WQuoted; auto.
  Qed.

  (* reading one written field that is followed by more text: the register holds its text, the state allows a
     delimiter or a record end next *)
  Definition after_field (r r' : reader) (text w : list Z) : Prop :=
    r_fields r' = r_fields r /\ r_field r' = rev text /\
    (r_state r' = StartField \/ r_state r' = InField \/ r_state r' = QuoteInQuoted
     \/ (r_state r' = r_state r /\ text = [] /\ w = [])).

  Lemma read_written text w r rest acc : written text w -> rest <> [] -> r_field r = [] ->
    (r_state r = StartRecord \/ r_state r = StartField) ->
    exists r', read_all d r (w ++ rest) acc = read_all d r' rest acc /\ after_field r r' text w.
  Proof.
    intros Hw Hrest Hf Hst. destruct Hw as [s Hs|s Hs].
    - destruct s as [|c t].
      + exists r. split; [reflexivity|]. unfold after_field. rewrite Hf. split; [reflexivity|]. split; [reflexivity|].
        right; right; right. auto.
      + eexists. split.
        * apply read_raw; auto; try discriminate. destruct Hst; auto.
        * unfold after_field, with_field. cbn. rewrite Hf, app_nil_r. repeat split; auto.
    - eexists. split.
      + cbn [app]. rewrite <- app_assoc. cbn [app]. apply read_quoted; auto.
      + unfold after_field, with_field. cbn. rewrite Hf, app_nil_r. repeat split; auto.
  Qed.

  (* ---- records ------------------------------------------------------------------------------------------------------------- *)
  (* the end of a record: CR LF, then either more text or the end *)
  Lemma read_record_end r rest acc : r_state r <> StartRecord ->
    (r_state r = StartField \/ r_state r = InField \/ r_state r = QuoteInQuoted) ->
    read_all d r (CR :: LF :: rest) acc = read_all d r_init rest (rev (rev (r_field r) :: r_fields r) :: acc).
  Proof.
    intros _ Hst. cbn [read_all]. rewrite (step_cr_field r Hst).
    assert (L1 : line_ends CR (LF :: rest) = false) by (unfold line_ends, CR, LF; reflexivity).
    rewrite L1. rewrite (step_lf_eat (save_field r EatCRNL) eq_refl).
    assert (L2 : line_ends LF rest = true) by (unfold line_ends; rewrite Z.eqb_refl; reflexivity).
    rewrite L2. rewrite (step_eol_eat (save_field r EatCRNL) eq_refl). cbn. reflexivity.
  Qed.

  (* an empty record (a row without cells) is a blank line *)
  Lemma read_empty_record rest acc : read_all d r_init (CR :: LF :: rest) acc = read_all d r_init rest ([] :: acc).
  Proof.
    cbn [read_all]. rewrite (step_cr_startrecord r_init eq_refl).
    assert (L1 : line_ends CR (LF :: rest) = false) by (unfold line_ends, CR, LF; reflexivity).
    rewrite L1. rewrite (step_lf_eat (set_state r_init EatCRNL) eq_refl).
    assert (L2 : line_ends LF rest = true) by (unfold line_ends; rewrite Z.eqb_refl; reflexivity).
    rewrite L2. rewrite (step_eol_eat (set_state r_init EatCRNL) eq_refl). cbn. reflexivity.
  Qed.

  (* fields of a record after the first one: each preceded by the delimiter *)
  Lemma read_more_fields : forall (fs : list (list Z * list Z)) r rest acc,
    Forall (fun f => written (fst f) (snd f)) fs ->
    (r_state r = StartField \/ r_state r = InField \/ r_state r = QuoteInQuoted) ->
    read_all d r (concat (map (fun f => d_delim d :: snd f) fs) ++ CR :: LF :: rest) acc
    = read_all d r_init rest (rev (rev (map fst fs) ++ rev (r_field r) :: r_fields r) :: acc).
  Proof.
    induction fs as [|[text w] t IH]; intros r rest acc Hfs Hst.
    - cbn [map concat app rev]. apply read_record_end; auto. destruct Hst as [H|[H|H]]; rewrite H; discriminate.
    - inversion Hfs as [|? ? Hw Ht]; subst. cbn [map concat fst snd]. rewrite <- !app_assoc. cbn [app].
      assert (Hstep : step d r (d_delim d) = Some (save_field r StartField)).
      { apply step_delim. destruct Hst as [H|[H|H]]; auto. }
      rewrite (read_one r (d_delim d) _ acc _ Hstep Hd_cr Hd_lf)
        by (destruct w; [destruct (concat _); discriminate | discriminate]).
      destruct (read_written text w (save_field r StartField)
                  (concat (map (fun f => d_delim d :: snd f) t) ++ CR :: LF :: rest) acc Hw) as (r' & E & Ha).
      { destruct (concat _); discriminate. }
      { reflexivity. }
      { right. reflexivity. }
      rewrite E. destruct Ha as (F1 & F2 & F3).
      rewrite (IH r' rest acc Ht).
      + rewrite F1, F2. cbn [save_field r_fields r_field]. rewrite rev_involutive.
        cbn [map fst rev]. rewrite <- !app_assoc. cbn [app]. reflexivity.
      + destruct F3 as [H|[H|[H|[H _]]]]; auto.
  Qed.

  (* a whole written record, followed by the rest of the text *)
  Definition row_text (fs : list (list Z * list Z)) : list Z :=
    match fs with
    | [] => []
    | f :: t => snd f ++ concat (map (fun g => d_delim d :: snd g) t)
    end.

  Lemma join_fields_cons (f : list Z * list Z) (t : list (list Z * list Z)) :
    join_fields d (snd f :: map snd t) = snd f ++ concat (map (fun g => d_delim d :: snd g) t).
  Proof.
    revert f. induction t as [|g t IH]; intros f.
    - cbn. rewrite app_nil_r. reflexivity.
    - cbn [map concat]. change (join_fields d (snd f :: snd g :: map snd t))
        with (snd f ++ d_delim d :: join_fields d (snd g :: map snd t)).
      rewrite (IH g). reflexivity.
  Qed.

  Lemma join_fields_row_text fs : join_fields d (map snd fs) = row_text fs.
  Proof. destruct fs as [|f t]; auto. cbn [row_text map]. apply join_fields_cons. Qed.

  Lemma read_record fs rest acc : Forall (fun f => written (fst f) (snd f)) fs -> fs <> [] ->
    row_text fs <> [] ->
    read_all d r_init (row_text fs ++ CR :: LF :: rest) acc = read_all d r_init rest (map fst fs :: acc).
  Proof.
    intros Hfs Hne Hbody. destruct fs as [|[text w] t]; [contradiction|].
    inversion Hfs as [|? ? Hw Ht]; subst. cbn [row_text fst snd] in *. rewrite <- app_assoc.
    destruct (read_written text w r_init (concat (map (fun g => d_delim d :: snd g) t) ++ CR :: LF :: rest) acc Hw)
      as (r' & E & F1 & F2 & F3).
    { destruct (concat _); discriminate. }
    { reflexivity. }
    { left. reflexivity. }
    rewrite E.
    destruct F3 as [H|[H|[H|[H [Hempty Hw0]]]]].
    - rewrite (read_more_fields t r' rest acc Ht) by auto. rewrite F1, F2. cbn. rewrite rev_involutive.
      rewrite rev_app_distr, rev_involutive. reflexivity.
    - rewrite (read_more_fields t r' rest acc Ht) by auto. rewrite F1, F2. cbn. rewrite rev_involutive.
      rewrite rev_app_distr, rev_involutive. reflexivity.
    - rewrite (read_more_fields t r' rest acc Ht) by auto. rewrite F1, F2. cbn. rewrite rev_involutive.
      rewrite rev_app_distr, rev_involutive. reflexivity.
    - (* first field empty and unquoted: the record must continue with a delimiter (a single empty field is written quoted) *)
      subst text w. inversion Hw; subst.
      + destruct t as [|[text2 w2] t2].
        * cbn in Hbody. contradiction.
        * (* the parser is still in StartRecord with nothing read: the delimiter saves the empty first field *)
          assert (r' = r_init).
          { destruct r' as [st fl fls]. cbn in *. subst. reflexivity. }
          subst r'. cbn [map concat snd]. rewrite <- app_assoc. cbn [app].
          rewrite (read_one r_init (d_delim d) _ acc _ (step_delim r_init (or_introl eq_refl)) Hd_cr Hd_lf)
            by (rewrite ?app_assoc; apply ne_app_cons).
          inversion Ht as [|? ? Hw2 Ht2]; subst. cbn [fst snd] in *.
          destruct (read_written text2 w2 (save_field r_init StartField)
                      (concat (map (fun g => d_delim d :: snd g) t2) ++ CR :: LF :: rest) acc Hw2) as (r2 & E2 & G1 & G2 & G3).
          { apply ne_app_cons. }
          { reflexivity. }
          { right. reflexivity. }
          rewrite E2. rewrite (read_more_fields t2 r2 rest acc Ht2).
          -- rewrite G1, G2. cbn. rewrite rev_involutive.
             rewrite rev_app_distr, rev_involutive. reflexivity.
          -- destruct G3 as [X|[X|[X|[X _]]]]; auto.
  Qed.

  (* ---- the writer's output for one row, in the vocabulary above ------------------------------------------------ *)
  Definition cells_ok (r : list (list Z * bool)) : Prop := Forall (fun c => Forall charok (fst c)) r.

  Lemma all_some_written (r : list (list Z * bool)) ws :
    cells_ok r -> all_some (map (fun f => write_field d (fst f) (snd f)) r) = Some ws ->
    length ws = length r /\ Forall (fun f => written (fst f) (snd f)) (combine (map fst r) ws)
    /\ map fst (combine (map fst r) ws) = map fst r /\ map snd (combine (map fst r) ws) = ws.
  Proof.
    revert ws. induction r as [|[text num] t IH]; intros ws Hok H; cbn in H.
    - inversion H; subst. cbn. repeat split; auto.
    - inversion Hok as [|? ? Hc Ht]; subst. cbn [fst snd] in *.
      destruct (write_field d text num) as [w|] eqn:W; [|discriminate].
      destruct (all_some (map (fun f => write_field d (fst f) (snd f)) t)) as [ws'|] eqn:A; [|discriminate].
      inversion H; subst. destruct (IH ws' Ht eq_refl) as (L & F & M1 & M2).
      cbn [map combine fst snd length]. repeat split; try congruence.
      constructor; auto. cbn. eapply write_field_written; eauto.
  Qed.

  Lemma read_written_row r txt rest acc : cells_ok r -> write_row d r = Some txt ->
    read_all d r_init (txt ++ rest) acc = read_all d r_init rest (map fst r :: acc).
  Proof.
    intros Hok H. unfold write_row in H.
    destruct r as [|c0 r'].
    { (* a row without cells: a blank line *)
      cbn in H. inversion H; subst. cbn [app map]. apply read_empty_record. }
    destruct (all_some (map (fun f => write_field d (fst f) (snd f)) (c0 :: r'))) as [ws|] eqn:A; [|discriminate].
    destruct (all_some_written (c0 :: r') ws Hok A) as (L & F & M1 & M2).
    remember (combine (map fst (c0 :: r')) ws) as fs eqn:Efs.
    assert (Hbody : join_fields d ws = row_text fs) by (rewrite <- M2; apply join_fields_row_text).
    assert (Hfs : fs <> []) by (subst fs; destruct ws; [cbn in L; discriminate | cbn; discriminate]).
    assert (Hmain : forall body, join_fields d ws = body -> body <> [] ->
              read_all d r_init ((body ++ [CR; LF]) ++ rest) acc = read_all d r_init rest (map fst (c0 :: r') :: acc)).
    { intros body J Hne. rewrite <- app_assoc. cbn [app]. rewrite <- J, Hbody.
      rewrite (read_record fs rest acc F Hfs) by (rewrite <- Hbody, J; exact Hne).
      rewrite M1. reflexivity. }
    destruct r' as [|c1 r''].
    - (* one cell *)
      destruct (join_fields d ws) as [|b0 body] eqn:J.
      + (* ... whose written form is empty: the writer emits a quoted empty field instead *)
        destruct ws as [|w [|? ?]]; cbn in L; try discriminate. cbn in J. subst w.
        destruct c0 as [text num]. cbn [fst snd map combine] in *. subst fs.
        inversion F as [|? ? Fw _]; subst. cbn [fst snd] in Fw.
        assert (text = []) by (inversion Fw; subst; auto; destruct (escape_field d s); discriminate).
        subst text.
        assert (Htxt : txt = (d_quote d :: escape_field d [] ++ [d_quote d]) ++ [CR; LF]).
        { destruct (d_quoting d); try congruence; inversion H; reflexivity. }
        rewrite Htxt. cbn [app]. rewrite <- !app_assoc. cbn [app].
        rewrite (read_quoted [] r_init (CR :: LF :: rest) acc) by (auto; try discriminate; constructor).
        rewrite read_record_end by (cbn; auto; try discriminate). cbn. reflexivity.
      + injection H as <-. apply (Hmain _ eq_refl). discriminate.
    - (* two or more cells: the text contains a delimiter, hence is not empty *)
      assert (Hne : join_fields d ws <> []).
      { destruct ws as [|w0 [|w1 ws']]; cbn in L; try discriminate. cbn. apply ne_app_cons. }
      destruct (join_fields d ws) as [|b0 body] eqn:J; [contradiction|].
      injection H as <-. apply (Hmain _ eq_refl). discriminate.
  Qed.

  (* THE round trip: every table of cell texts, every dialect of the section *)
  Theorem csv_roundtrip rows : forall txt acc, Forall cells_ok rows -> write_rows d rows = Some txt ->
    read_all d r_init txt acc = Some (rev acc ++ map (map fst) rows).
  Proof.
    induction rows as [|r t IH]; intros txt acc Hok H; cbn in H.
    - inversion H; subst. cbn. rewrite app_nil_r. reflexivity.
    - inversion Hok as [|? ? Hr Ht]; subst.
      destruct (write_row d r) as [a|] eqn:A; [|discriminate].
      destruct (write_rows d t) as [b|] eqn:B; [|discriminate].
      inversion H; subst. rewrite (read_written_row r a b acc Hr A).
      rewrite (IH b (map fst r :: acc) Ht eq_refl). cbn [rev map]. rewrite <- app_assoc. reflexivity.
  Qed.
End Dialect.
