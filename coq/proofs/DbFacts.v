(* DbFacts.v — loads are all-or-nothing and round-trip, for every program of the canonical shape. *)
From Verif Require Import PyVal Db.
From Coq Require Import Lia Bool.
Local Open Scope nat_scope.

Lemma action_eqb_eq a b : action_eqb a b = true -> a = b.
Proof. destruct a, b; cbn; intros H; try discriminate; reflexivity. Qed.

Lemma actions_eqb_eq a : forall b, actions_eqb a b = true -> a = b.
Proof.
  induction a as [|x s IH]; intros [|y t] H; cbn in H; try discriminate; auto.
  apply andb_true_iff in H. destruct H as [H1 H2]. rewrite (action_eqb_eq _ _ H1), (IH _ H2). reflexivity.
Qed.

Lemma has_shape_spec p : has_shape p = true ->
  forall tr cm, filter significant (flatten tr cm p) = canonical tr cm.
Proof.
  unfold has_shape. cbn [forallb fst snd]. intros H tr cm.
  repeat (apply andb_true_iff in H; destruct H as [? H]).
  destruct tr, cm; apply actions_eqb_eq; assumption.
Qed.

(* obtaining and closing cursors does not touch the transaction *)
Lemma run_filter src l : forall s, dbrun src l s = dbrun src (filter significant l) s.
Proof.
  induction l as [|a t IH]; intros s; cbn [filter dbrun]; auto.
  destruct a; cbn [significant step dbrun]; auto.
  all: try (destruct (s_fail src) as [[|?]|]; auto).
  all: try (destruct (exec_many _ _ _ _ _) as [w [|]]; auto).
Qed.

Lemma run_app src a b s : dbrun src (a ++ b) s =
  let '(s', raised) := dbrun src a s in if raised then (s', true) else dbrun src b s'.
Proof.
  revert s. induction a as [|x t IH]; intros s; cbn [app dbrun].
  - reflexivity.
  - destruct (step src s x) as [s1 [|]]; auto.
Qed.

(* ---- executemany -------------------------------------------------------------------------------------------------------- *)
Lemma exec_many_prefix width fail rows : forall i w,
  exists k, fst (exec_many width fail i rows w) = w ++ firstn k rows /\ (k <= length rows).
Proof.
  induction rows as [|r t IH]; intros i w; cbn [exec_many].
  - exists 0. cbn. rewrite app_nil_r. auto.
  - destruct (match fail with Some f => Nat.eqb f (S i) | None => false end).
    + exists 0. cbn. rewrite app_nil_r. split; auto. lia.
    + destruct (negb (Nat.eqb (length r) width)).
      * exists 0. cbn. rewrite app_nil_r. split; auto. lia.
      * destruct (IH (S i) (w ++ [r])) as (k & Hk & Hle). exists (S k). cbn [firstn length].
        rewrite Hk, <- app_assoc. split; auto. lia.
Qed.

Lemma exec_many_ok width rows : Forall (fun r => length r = width) rows -> forall i w,
  exec_many width None i rows w = (w ++ rows, false).
Proof.
  induction 1 as [|r t Hr Ht IH]; intros i w; cbn [exec_many].
  - rewrite app_nil_r. reflexivity.
  - rewrite Hr, Nat.eqb_refl. cbn [negb]. rewrite IH, <- app_assoc. reflexivity.
Qed.

(* ---- the canonical load ---------------------------------------------------------------------------------------------------- *)
Definition base (tr : bool) (s : dbst) : list row := if tr then [] else visible s.

(* what the part of the load before the commit does *)
Definition body (tr : bool) : list action := [APullHeader] ++ (if tr then [AExecTruncate] else []) ++ [AExecMany].

Lemma canonical_body tr cm : canonical tr cm = body tr ++ (if cm then [ACommit] else []).
Proof. unfold canonical, body. rewrite <- !app_assoc. reflexivity. Qed.

Lemma body_run src tr s :
  let '(s', raised) := dbrun src (body tr) s in
  committed s' = committed s /\
  (raised = true -> (s' = s) \/ exists k, k <= length (s_rows src) /\ pending s' = Some (base tr s ++ firstn k (s_rows src))) /\
  (s_fail src = None -> Forall (fun r => length r = length (s_hdr src)) (s_rows src) ->
     raised = false /\ pending s' = Some (base tr s ++ s_rows src)).
Proof.
  unfold body. cbn [app dbrun step].
  destruct (s_fail src) as [[|f]|] eqn:Hf.
  - (* at the header *) split; [reflexivity|]. split; [left; reflexivity|discriminate].
  - destruct tr; cbn [app dbrun step visible pending committed base]; rewrite ?Hf.
    + pose proof (exec_many_prefix (length (s_hdr src)) (Some (S f)) (s_rows src) 0 []) as (k & Hk & Hle).
      destruct (exec_many _ _ _ _ _) as [w r]. cbn [fst] in Hk. subst w.
      destruct r; cbn [committed pending]; (split; [reflexivity|]); (split; [|discriminate]).
      * intros _. right. exists k. auto.
      * discriminate.
    + pose proof (exec_many_prefix (length (s_hdr src)) (Some (S f)) (s_rows src) 0 (visible s)) as (k & Hk & Hle).
      destruct (exec_many _ _ _ _ _) as [w r]. cbn [fst] in Hk. subst w.
      destruct r; cbn [committed pending]; (split; [reflexivity|]); (split; [|discriminate]).
      * intros _. right. exists k. auto.
      * discriminate.
  - destruct tr; cbn [app dbrun step visible pending committed base]; rewrite ?Hf.
    + pose proof (exec_many_prefix (length (s_hdr src)) None (s_rows src) 0 []) as (k & Hk & Hle).
      destruct (exec_many _ _ _ _ _) as [w r] eqn:E. cbn [fst] in Hk. subst w.
      assert (Hok : Forall (fun r0 => length r0 = length (s_hdr src)) (s_rows src) -> r = false /\ [] ++ firstn k (s_rows src) = [] ++ s_rows src).
      { intros HF. rewrite (exec_many_ok _ _ HF) in E. inversion E. auto. }
      destruct r; cbn [committed pending]; (split; [reflexivity|]); split.
      * intros _. right. exists k. auto.
      * intros _ HF. destruct (Hok HF). discriminate.
      * discriminate.
      * intros _ HF. destruct (Hok HF) as [_ H2]. split; auto. rewrite H2. reflexivity.
    + pose proof (exec_many_prefix (length (s_hdr src)) None (s_rows src) 0 (visible s)) as (k & Hk & Hle).
      destruct (exec_many _ _ _ _ _) as [w r] eqn:E. cbn [fst] in Hk. subst w.
      assert (Hok : Forall (fun r0 => length r0 = length (s_hdr src)) (s_rows src) ->
                    r = false /\ visible s ++ firstn k (s_rows src) = visible s ++ s_rows src).
      { intros HF. rewrite (exec_many_ok _ _ HF) in E. inversion E. auto. }
      destruct r; cbn [committed pending]; (split; [reflexivity|]); split.
      * intros _. right. exists k. auto.
      * intros _ HF. destruct (Hok HF). discriminate.
      * discriminate.
      * intros _ HF. destruct (Hok HF) as [_ H2]. split; auto. rewrite H2. reflexivity.
Qed.

Section Shape.
  Variable p : list action.
  Hypothesis Hshape : has_shape p = true.

  Lemma run_as_canonical tr cm src s : dbrun src (flatten tr cm p) s = dbrun src (canonical tr cm) s.
  Proof. rewrite run_filter, (has_shape_spec p Hshape). reflexivity. Qed.

  (* all-or-nothing: if the load raises — at the header, at any row, at exhaustion, or on a malformed row — what a fresh
     connection sees is what it saw before, whatever the flags *)
  Theorem load_atomic tr cm src s :
    let '(s', raised) := dbrun src (flatten tr cm p) s in raised = true -> committed s' = committed s.
  Proof.
    rewrite run_as_canonical, canonical_body, run_app.
    pose proof (body_run src tr s) as H. destruct (dbrun src (body tr) s) as [s1 r1]. destruct H as (Hc & _ & _).
    destruct r1; [intros _; exact Hc|]. destruct cm; cbn [dbrun step]; discriminate.
  Qed.

  (* a failed load leaves, inside the still open transaction, a prefix of the rows after the base contents *)
  Theorem load_failed_pending tr cm src s :
    let '(s', raised) := dbrun src (flatten tr cm p) s in
    raised = true -> s' = s \/ exists k, k <= length (s_rows src) /\ pending s' = Some (base tr s ++ firstn k (s_rows src)).
  Proof.
    rewrite run_as_canonical, canonical_body, run_app.
    pose proof (body_run src tr s) as H. destruct (dbrun src (body tr) s) as [s1 r1]. destruct H as (_ & Hr & _).
    destruct r1; [exact Hr|]. destruct cm; cbn [dbrun step]; discriminate.
  Qed.

  (* round trip: a well-formed source that does not fail is loaded completely; todb (truncate) replaces, appenddb extends;
     with commit the result is what every connection sees, without commit only the loading connection sees it *)
  Theorem load_roundtrip tr cm src s :
    s_fail src = None -> Forall (fun r => length r = length (s_hdr src)) (s_rows src) ->
    let '(s', raised) := dbrun src (flatten tr cm p) s in
    raised = false /\ visible s' = base tr s ++ s_rows src /\
    committed s' = (if cm then base tr s ++ s_rows src else committed s) /\
    (cm = true -> pending s' = None).
  Proof.
    intros Hf HF. rewrite run_as_canonical, canonical_body, run_app.
    pose proof (body_run src tr s) as H. destruct (dbrun src (body tr) s) as [s1 r1]. destruct H as (Hc & _ & Hok).
    destruct (Hok Hf HF) as [Hr Hp]. subst r1.
    destruct cm; cbn [dbrun step committed pending]; unfold visible; cbn [pending]; rewrite ?Hp; repeat split; auto; discriminate.
  Qed.

  (* given a file name petl opens the connection itself and closes it in a finally clause: after a failure the database is
     exactly as before — nothing pending anywhere *)
  Theorem load_filename_atomic tr cm src s : pending s = None ->
    let '(s', raised) := run_prog true tr cm p src s in
    (raised = true -> s' = s) /\ pending s' = None.
  Proof.
    intros Hp. unfold run_prog.
    pose proof (load_atomic tr cm src s) as H. destruct (dbrun src (flatten tr cm p) s) as [s1 r1].
    split; [|reflexivity]. intros Hr. specialize (H Hr). unfold close_conn. rewrite H. destruct s as [c pn]. cbn in *. subst pn. reflexivity.
  Qed.
End Shape.
