(* TempFacts.v — a temporary file exists exactly as long as something can still read it. *)
From Verif Require Import PyVal TempFiles.
From Coq Require Import Lia Bool.
Local Open Scope nat_scope.

Lemma existsb_upd {A} (p : A -> bool) k x (l : list A) :
  existsb p (upd k x l) = true -> p x = true \/ existsb p l = true.
Proof.
  revert k. induction l as [|y t IH]; intros k H; destruct k; cbn in *; auto.
  - apply orb_true_iff in H. destruct H as [H|H]; auto. right. rewrite H. apply orb_true_r.
  - apply orb_true_iff in H. destruct H as [H|H]; [right; rewrite H; reflexivity|].
    destruct (IH k H) as [H1|H1]; auto. right. rewrite H1. apply orb_true_r.
Qed.

Lemma existsb_nth {A} (p : A -> bool) k x (l : list A) : nth_error l k = Some x -> p x = true -> existsb p l = true.
Proof.
  revert k. induction l as [|y t IH]; intros k H Hp; destruct k; cbn in *; try discriminate.
  - inversion H; subst. rewrite Hp. reflexivity.
  - rewrite (IH k H Hp). apply orb_true_r.
Qed.

Lemma upd_none {A} k (x : A) l : nth_error l k = None -> upd k x l = l.
Proof. revert k. induction l as [|y t IH]; intros k H; destruct k; cbn in *; try discriminate; auto. rewrite IH; auto. Qed.

Lemma upd_length {A} k (x : A) l : length (upd k x l) = length l.
Proof. revert k. induction l as [|y t IH]; intros k; destruct k; cbn; auto. Qed.

Lemma nth_error_upd {A} k (x : A) l j : nth_error (upd k x l) j =
  if Nat.eqb j k then (match nth_error l k with Some _ => Some x | None => None end) else nth_error l j.
Proof.
  revert k j. induction l as [|y t IH]; intros k j.
  - destruct k, j; cbn; auto; destruct (Nat.eqb j k); auto.
  - destruct k, j; cbn; auto.
Qed.

Lemma existsb_eqb g l : existsb (Nat.eqb g) l = true <-> In g l.
Proof.
  rewrite existsb_exists. split.
  - intros (x & Hx & E). apply Nat.eqb_eq in E. subst. exact Hx.
  - intros H. exists g. split; auto. apply Nat.eqb_refl.
Qed.

(* ---- the invariant -------------------------------------------------------------------------------------------------- *)
Record Inv (s : tf_state) : Prop := {
  inv_kept : forall g, held s g = true -> In g (disk s);        (* nothing that can still be read has been deleted *)
  inv_noleak : forall g, In g (disk s) -> held s g = true;      (* nothing on disk that nobody can read *)
  inv_bound : forall g, In g (disk s) -> g < next_g s;
  inv_nodup : NoDup (disk s)
}.

Definition kept_pre (s : tf_state) : Prop := forall g, held s g = true -> In g (disk s).

Lemma held_gc s g : held (gc s) g = held s g.
Proof. reflexivity. Qed.

Lemma gc_inv s : kept_pre s -> (forall g, In g (disk s) -> g < next_g s) -> NoDup (disk s) -> Inv (gc s).
Proof.
  intros K B N. constructor; cbn [gc disk next_g].
  - intros g H. rewrite held_gc in H. apply filter_In. split; auto.
  - intros g H. apply filter_In in H. rewrite held_gc. tauto.
  - intros g H. apply filter_In in H. apply B. tauto.
  - apply NoDup_filter. exact N.
Qed.

(* the general update: frame k changes from f to f', the view's fields change to dsk / fc *)
Lemma kept_update s k f f' dsk ng fc mc :
  kept_pre s -> nth_error (frames s) k = Some f ->
  (frame_live f' = true -> frame_live f = true) ->
  (forall g, frame_holds g f' = true -> In g dsk) ->
  incl (disk s) dsk ->
  (forall g, fc = Some g -> In g dsk \/ fcache s = Some g) ->
  kept_pre {| disk := dsk; next_g := ng; handle := handle s; fcache := fc; mcache := mc; frames := upd k f' (frames s) |}.
Proof.
  intros K Hk Hlive Hholds Hincl Hfc g H. unfold held, view_reachable in H. cbn [handle frames fcache disk] in *.
  apply orb_true_iff in H. destruct H as [H|H].
  - apply andb_true_iff in H. destruct H as [Hr Hc].
    destruct fc as [g'|]; [|discriminate]. apply Nat.eqb_eq in Hc. subst g'.
    destruct (Hfc g eq_refl) as [Hin|Hold]; [exact Hin|].
    apply Hincl, K. unfold held, view_reachable. rewrite Hold, Nat.eqb_refl.
    assert (Hreach : handle s || existsb frame_live (frames s) = true).
    { apply orb_true_iff in Hr. destruct Hr as [Hr|Hr]; [rewrite Hr; reflexivity|].
      apply existsb_upd in Hr. destruct Hr as [Hr|Hr].
      - rewrite (existsb_nth frame_live k f _ Hk (Hlive Hr)). apply orb_true_r.
      - rewrite Hr. apply orb_true_r. }
    rewrite Hreach. reflexivity.
  - apply existsb_upd in H. destruct H as [H|H]; [apply Hholds; exact H|].
    apply Hincl, K. unfold held. rewrite H. apply orb_true_r.
Qed.

Lemma kept_same s : kept_pre s -> forall mc,
  kept_pre {| disk := disk s; next_g := next_g s; handle := handle s; fcache := fcache s; mcache := mc; frames := frames s |}.
Proof. intros K mc g H. apply K. exact H. Qed.

Lemma frame_held s k f g : nth_error (frames s) k = Some f -> frame_holds g f = true -> held s g = true.
Proof. intros Hk Hh. unfold held. rewrite (existsb_nth _ k f _ Hk Hh). apply orb_true_r. Qed.

Section Steps.
  Variable c : tf_cfg.

  Lemma next_frame_inv s k f : Inv s -> nth_error (frames s) k = Some f ->
    let '(s', o) := next_frame c s k f in Inv (gc s') /\ o <> TMissing.
  Proof.
    intros [K L B N] Hk.
    assert (Hself : forall g, frame_holds g f = true -> In g (disk s)) by (intros g Hg; apply K; eapply frame_held; eauto).
    assert (Hsame : forall f', (frame_live f' = true -> frame_live f = true) ->
              (forall g, frame_holds g f' = true -> frame_holds g f = true) ->
              Inv (gc (with_frame s k f'))).
    { intros f' H1 H2. apply gc_inv; auto. unfold with_frame.
      apply (kept_update s k f f' (disk s) (next_g s) (fcache s) (mcache s) K Hk H1); auto.
      - apply incl_refl. }
    destruct f as [| |rest|g rest| |rest|g|g rest|]; cbn [next_frame].
    - (* FrNoCache: clearcache, header *)
      assert (HI : forall f', frame_live f' = true -> (forall g, frame_holds g f' = false) ->
                Inv (gc (with_frame {| disk := disk s; next_g := next_g s; handle := handle s; fcache := None;
                                       mcache := false; frames := frames s |} k f'))).
      { intros f' _ Hn. apply gc_inv; auto. unfold with_frame. cbn [disk next_g handle fcache mcache frames].
        apply (kept_update s k FrNoCache f' (disk s) (next_g s) None false K Hk); auto.
        - intros g Hg. rewrite Hn in Hg. discriminate.
        - apply incl_refl.
        - intros g Hg. discriminate. }
      destruct (tf_fail c) as [[|r]|].
      + split; [|discriminate]. apply gc_inv; auto. unfold with_frame. cbn [disk next_g handle fcache mcache frames].
        apply (kept_update s k FrNoCache FrDone (disk s) (next_g s) None false K Hk); auto; try discriminate. apply incl_refl.
      + split; [apply HI; auto | discriminate].
      + split; [apply HI; auto | discriminate].
    - (* FrHdr: read the source *)
      destruct (tf_fail c) as [[|r]|] eqn:Hfail.
      2:{ split; [|discriminate]. apply Hsame; auto. }
      all: destruct (fits c); destruct (tf_cache c); destruct (tf_n c) as [|n']; cbn [serve]; (split; [|discriminate]);
        apply gc_inv; unfold with_frame; cbn [disk next_g handle fcache mcache frames]; auto.
      all: try (intros g [Hg|Hg]; [subst; lia | specialize (B g Hg); lia]).
      all: try (constructor; [intros Hin; specialize (B _ Hin); lia | exact N]).
      all: match goal with
           | |- kept_pre {| disk := ?d; next_g := ?ng; handle := _; fcache := ?fc; mcache := ?mc; frames := upd _ ?f' _ |} =>
               apply (kept_update _ k FrHdr f' d ng fc mc K Hk)
           end.
      all: try solve [intros; reflexivity].
      all: try solve [apply incl_refl].
      all: try solve [apply incl_tl, incl_refl].
      all: try solve [intros g Hg; cbn in Hg; discriminate].
      all: try solve [intros g Hg; right; exact Hg].
      all: try solve [intros g Hg; cbn in Hg; apply Nat.eqb_eq in Hg; subst; left; reflexivity].
      all: try solve [intros g Hg; inversion Hg; left; left; reflexivity].
    - (* FrMem *)
      destruct rest; cbn [serve]; (split; [|discriminate]); apply Hsame; auto.
    - (* FrMerge *)
      assert (Hon : on_disk g s = true) by (apply existsb_eqb, Hself; cbn; apply Nat.eqb_refl).
      rewrite Hon. destruct rest; cbn [serve]; (split; [|discriminate]); apply Hsame; auto; discriminate.
    - split; [|discriminate]. apply Hsame; auto.
    - destruct rest; cbn [serve]; (split; [|discriminate]); apply Hsame; auto.
    - split; [|discriminate]. apply Hsame; auto.
    - assert (Hon : on_disk g s = true) by (apply existsb_eqb, Hself; cbn; apply Nat.eqb_refl).
      rewrite Hon. destruct rest; cbn [serve]; (split; [|discriminate]); apply Hsame; auto; discriminate.
    - split; [|discriminate]. apply gc_inv; auto.
  Qed.

  Lemma step_inv s o : Inv s -> let '(s', out) := tf_step c s o in Inv s' /\ out <> Some TMissing.
  Proof.
    intros HI. pose proof HI as [K L B N]. destruct o as [|k|k|]; cbn [tf_step].
    - destruct (handle s) eqn:Hh; [|split; [exact HI|discriminate]]. split; [|discriminate].
      apply gc_inv; cbn [disk next_g]; auto.
      intros g H. apply K. unfold held, view_reachable in *. cbn [handle frames fcache] in H.
      rewrite Hh in *. cbn [orb andb] in *. rewrite existsb_app in H. cbn [existsb] in H. rewrite orb_false_r in H.
      apply orb_true_iff in H. destruct H as [H|H]; [rewrite H; reflexivity|].
      apply orb_true_iff in H. destruct H as [H|H]; [rewrite H; apply orb_true_r|].
      unfold new_frame in H. destruct (tf_cache c && mcache s); [discriminate|].
      destruct (tf_cache c); [|discriminate]. destruct (fcache s) as [g'|]; [|discriminate]. cbn in H. rewrite H. reflexivity.
    - destruct (nth_error (frames s) k) as [f|] eqn:Hk; [|split; [exact HI|discriminate]].
      pose proof (next_frame_inv s k f HI Hk) as H. destruct (next_frame c s k f) as [s' o']. destruct H as [H1 H2].
      split; [exact H1|]. intros E. inversion E. contradiction.
    - split; [|discriminate]. destruct (nth_error (frames s) k) as [f|] eqn:Hk.
      + apply gc_inv; auto. unfold with_frame.
        apply (kept_update s k f FrDone (disk s) (next_g s) (fcache s) (mcache s) K Hk); auto; try discriminate. apply incl_refl.
      + unfold with_frame. rewrite (upd_none k FrDone _ Hk). apply gc_inv; auto.
    - split; [|discriminate]. apply gc_inv; cbn [disk next_g]; auto.
      intros g H. apply K. unfold held, view_reachable in *. cbn [handle frames fcache] in H.
      apply orb_true_iff in H. destruct H as [H|H]; [|rewrite H; apply orb_true_r].
      apply andb_true_iff in H. destruct H as [H1 H2]. cbn [orb] in H1. rewrite H1, H2, orb_true_r. reflexivity.
  Qed.

  Lemma init_inv : Inv tf_init.
  Proof. constructor; cbn; try tauto; try discriminate. constructor. Qed.

  (* every history *)
  Theorem run_inv : forall ops s, Inv s ->
    let '(tr, sf) := tf_run c ops s in Inv sf /\ Forall (fun e => fst e <> Some TMissing) tr.
  Proof.
    induction ops as [|o rest IH]; intros s HI; cbn [tf_run].
    - split; [exact HI|constructor].
    - pose proof (step_inv s o HI) as H. destruct (tf_step c s o) as [s' out]. destruct H as [H1 H2].
      specialize (IH s' H1). destruct (tf_run c rest s') as [tr sf]. destruct IH as [I1 I2].
      split; [exact I1|]. constructor; [exact H2|exact I2].
  Qed.

  (* once the view and all iterators have been released, every file is gone — whatever happened before *)
  Theorem released_no_files s : Inv s -> all_released s = true -> disk s = [].
  Proof.
    intros [K L B N] H. unfold all_released in H. apply andb_true_iff in H. destruct H as [Hh Hf].
    destruct (disk s) as [|g t] eqn:E; [reflexivity|]. exfalso.
    assert (Hheld : held s g = true) by (apply L; left; reflexivity).
    assert (Hnolive : existsb frame_live (frames s) = false).
    { apply not_true_is_false. intros X. apply existsb_exists in X. destruct X as (f & Hin & Hl).
      rewrite forallb_forall in Hf. specialize (Hf f Hin). rewrite Hl in Hf. discriminate. }
    assert (Hnohold : existsb (frame_holds g) (frames s) = false).
    { apply not_true_is_false. intros X. apply existsb_exists in X. destruct X as (f & Hin & Hl).
      rewrite forallb_forall in Hf. specialize (Hf f Hin). destruct f; cbn in *; discriminate. }
    unfold held, view_reachable in Hheld. rewrite Hnolive, Hnohold in Hheld.
    apply negb_true_iff in Hh. rewrite Hh in Hheld. discriminate.
  Qed.
End Steps.

Theorem tempfiles_lifetime c ops :
  let '(tr, sf) := tf_run c ops tf_init in
  Forall (fun e => fst e <> Some TMissing) tr /\ (all_released sf = true -> disk sf = []) /\
  (forall g, In g (disk sf) <-> held sf g = true).
Proof.
  pose proof (run_inv c ops tf_init (init_inv)) as H. destruct (tf_run c ops tf_init) as [tr sf].
  destruct H as [HI HT]. split; [exact HT|]. split; [apply released_no_files; exact HI|].
  intros g. destruct HI as [K L _ _]. split; auto.
Qed.

(* ---- fromdicts(<generator>) ---------------------------------------------------------------------------------------------- *)
Lemma df_gc_spec s : df_file (df_gc s) = true -> df_reachable (df_gc s) = true.
Proof. cbn. intros H. apply andb_true_iff in H. tauto. Qed.

Definition DInv (s : df_state) : Prop := df_file s = true -> df_reachable s = true.

Lemma df_step_inv s o l : DInv s -> DInv (df_step s o l).
Proof.
  intros HI. destruct o as [|k|k|]; cbn [df_step].
  - destruct (df_handle s); [|exact HI]. intros H. apply df_gc_spec. exact H.
  - destruct (nth_error (df_frames s) k) as [[| |]|]; try exact HI; intros H; apply df_gc_spec; exact H.
  - intros H. apply df_gc_spec. exact H.
  - intros H. apply df_gc_spec. exact H.
Qed.

Theorem dictsfile_lifetime : forall ops s, DInv s ->
  let '(tr, sf) := df_run ops s in DInv sf /\ (df_released sf = true -> df_file sf = false).
Proof.
  induction ops as [|[o l] rest IH]; intros s HI; cbn [df_run].
  - split; [exact HI|]. intros H. unfold df_released in H. apply andb_true_iff in H. destruct H as [Hh Hf].
    destruct (df_file s) eqn:E; [|reflexivity]. unfold DInv in HI. rewrite E in HI. specialize (HI eq_refl). unfold df_reachable in HI.
    apply negb_true_iff in Hh. rewrite Hh in HI. cbn in HI. apply existsb_exists in HI. destruct HI as (f & Hin & Hl).
    rewrite forallb_forall in Hf. specialize (Hf f Hin). rewrite Hl in Hf. discriminate.
  - specialize (IH (df_step s o l) (df_step_inv s o l HI)). destruct (df_run rest (df_step s o l)) as [tr sf]. exact IH.
Qed.
