(* MultFacts.v — in a stream sorted by a total preorder, the maximal runs of equivalent elements ARE the equivalence
   classes: a run holds every element equivalent to its members, so the length of a run is the multiplicity of its key. *)
From Verif Require Import PyVal Rows Dedup DedupFacts.
From Coq Require Import Lia Sorted Bool.
Open Scope nat_scope.

Section Mult.
  Context {A : Type} (le e : A -> A -> bool).
  Hypothesis le_trans : forall a b c, le a b = true -> le b c = true -> le a c = true.
  Hypothesis le_total : forall a b, le a b = true \/ le b a = true.
  Hypothesis e_spec : forall a b, e a b = le a b && le b a.

  Definition mult (x : A) (l : list A) : nat := length (filter (e x) l).

  Lemma e_refl a : e a a = true.
  Proof. rewrite e_spec. destruct (le_total a a) as [H|H]; rewrite H; reflexivity. Qed.
  Lemma e_sym a b : e a b = e b a.
  Proof. rewrite !e_spec. apply andb_comm. Qed.
  Lemma e_trans a b c : e a b = true -> e b c = true -> e a c = true.
  Proof.
    rewrite !e_spec. intros H1 H2. apply andb_true_iff in H1. apply andb_true_iff in H2.
    destruct H1 as [A1 A2]. destruct H2 as [B1 B2]. rewrite (le_trans _ _ _ A1 B1), (le_trans _ _ _ B2 A2). reflexivity.
  Qed.
  (* equivalent elements have the same class *)
  Lemma e_congr a b : e a b = true -> forall z, e a z = e b z.
  Proof.
    intros H z. destruct (e a z) eqn:E1, (e b z) eqn:E2; auto.
    - rewrite e_sym in H. rewrite (e_trans _ _ _ H E1) in E2. discriminate.
    - rewrite (e_trans _ _ _ H E2) in E1. discriminate.
  Qed.
  Lemma filter_congr a b l : e a b = true -> filter (e a) l = filter (e b) l.
  Proof. intros H. apply filter_ext. intros z. apply e_congr. exact H. Qed.

  Lemma filter_none (p : A -> bool) l : (forall z, In z l -> p z = false) -> filter p l = [].
  Proof.
    induction l as [|a t IH]; intros H; cbn; auto. rewrite (H a (or_introl eq_refl)). apply IH. intros z Hz. apply H. right. exact Hz.
  Qed.

  Lemma filter_cons1 (p : A -> bool) a l : filter p (a :: l) = if p a then a :: filter p l else filter p l.
  Proof. reflexivity. Qed.

  Lemma filter_all (p : A -> bool) l : (forall z, In z l -> p z = true) -> filter p l = l.
  Proof.
    induction l as [|a t IH]; intros H; cbn; auto. rewrite (H a (or_introl eq_refl)). f_equal. apply IH. intros z Hz. apply H. right. exact Hz.
  Qed.

  Lemma mult_app x a b : mult x (a ++ b) = mult x a + mult x b.
  Proof. unfold mult. rewrite filter_app, app_length. reflexivity. Qed.
  Lemma mult_concat x ls : mult x (concat ls) = fold_right (fun r n => mult x r + n) 0 ls.
  Proof. induction ls as [|r t IH]; [reflexivity|]. cbn [concat fold_right]. rewrite mult_app, IH. reflexivity. Qed.

  Notation sorted := (StronglySorted (fun a b => le a b = true)).

  (* below the head of a sorted list nothing is equivalent to an element that is not equivalent to the head's successor *)
  Lemma sorted_head_min x t : sorted (x :: t) -> forall z, In z t -> le x z = true.
  Proof. intros H z Hz. inversion H as [|? ? _ Hall]; subst. rewrite Forall_forall in Hall. auto. Qed.

  Lemma not_equiv_below x y t : sorted (x :: y :: t) -> e x y = false -> forall z, In z (y :: t) -> e z x = false.
  Proof.
    intros Hs Hne z Hz. destruct (e z x) eqn:E; [|reflexivity]. exfalso.
    assert (Hxy : le x y = true) by (apply (sorted_head_min x (y :: t) Hs); left; reflexivity).
    assert (Hyz : le y z = true).
    { destruct Hz as [->|Hz]; [destruct (le_total z z); assumption|].
      inversion Hs as [|? ? Hs' _]; subst. apply (sorted_head_min y t Hs'). exact Hz. }
    rewrite e_spec in E. apply andb_true_iff in E. destruct E as [Ezx _].
    rewrite e_spec, Hxy in Hne. cbn in Hne. rewrite (le_trans _ _ _ Hyz Ezx) in Hne. discriminate.
  Qed.

  (* THE characterisation: a run of the sorted stream is the class of any of its members *)
  Theorem runs_are_classes l : sorted l -> forall r, In r (runs e l) -> forall x, In x r -> r = filter (e x) l.
  Proof.
    induction l as [|x0 t IH]; intros Hs r Hr x Hx; [destruct Hr|].
    assert (Hst : sorted t) by (inversion Hs; assumption).
    rewrite runs_cons in Hr. destruct (runs e t) as [|[|y r'] rs] eqn:Er.
    - (* t = [] *)
      destruct t as [|a t']; [|destruct (runs_cons_shape e a t') as (q & qs & Hq); congruence].
      destruct Hr as [<-|[]]. destruct Hx as [<-|[]]. cbn. rewrite e_refl. reflexivity.
    - destruct t as [|a t']; [discriminate|]. destruct (runs_cons_shape e a t') as (q & qs & Hq). congruence.
    - (* runs t = (y :: r') :: rs *)
      assert (Hy : exists t', t = y :: t').
      { destruct t as [|a t']; [discriminate|]. destruct (runs_cons_shape e a t') as (q & qs & Hq).
        rewrite Hq in Er. inversion Er; subst. eauto. }
      destruct Hy as (t' & ->).
      pose proof (IH Hst) as IHt.
      assert (H1 : y :: r' = filter (e y) (y :: t')).
      { apply (IHt (y :: r')); left; reflexivity. }
      destruct (e x0 y) eqn:E0.
      + destruct Hr as [<-|Hr].
        * (* the head joins the first run *)
          assert (Hxy : e x y = true).
          { destruct Hx as [<-|Hx]; [exact E0|]. rewrite H1 in Hx. apply filter_In in Hx. rewrite e_sym. tauto. }
          rewrite (filter_congr x y _ Hxy), (filter_cons1 (e y) x0 (y :: t')), (e_sym y x0), E0. f_equal. exact H1.
        * (* a later run: x is not equivalent to the head, or the class of y would occur twice in t *)
          assert (Hr' : r = filter (e x) (y :: t')) by (apply (IHt r); [right; exact Hr | exact Hx]).
          destruct (e x x0) eqn:Exx0; [exfalso | rewrite (filter_cons1 (e x) x0 (y :: t')), Exx0; exact Hr'].
          assert (Hxy : e x y = true) by (apply (e_trans _ _ _ Exx0 E0)).
          assert (Hsame : r = y :: r') by (rewrite Hr', H1; apply filter_congr; exact Hxy).
          (* count the class of y in t = concat (runs t) *)
          pose proof (runs_concat e (y :: t')) as Hc. rewrite Er in Hc.
          assert (Hm : mult y (y :: t') = length (y :: r')) by (unfold mult; rewrite <- H1; reflexivity).
          rewrite <- Hc in Hm at 1. cbn [concat] in Hm. rewrite mult_app in Hm.
          assert (Hfirst : mult y (y :: r') = length (y :: r')).
          { unfold mult. rewrite filter_all; [reflexivity|]. intros z Hz. rewrite H1 in Hz. apply filter_In in Hz. tauto. }
          assert (Hrest : length (y :: r') <= mult y (concat rs)).
          { apply in_split in Hr. destruct Hr as (p & q & ->). rewrite concat_app, mult_app. cbn [concat]. rewrite mult_app.
            rewrite Hsame, Hfirst. lia. }
          cbn [length] in *. lia.
      + (* the head is a run of its own *)
        pose proof (not_equiv_below x0 y t' Hs E0) as Hbelow.
        destruct Hr as [<-|Hr].
        * destruct Hx as [<-|[]]. rewrite (filter_cons1 (e x0) x0 (y :: t')), e_refl. f_equal.
          symmetry. apply filter_none. intros z Hz. rewrite e_sym. apply Hbelow. exact Hz.
        * assert (Hr' : r = filter (e x) (y :: t')) by (apply (IHt r); [exact Hr | exact Hx]).
          assert (Hin : In x (y :: t')) by (rewrite Hr' in Hx; apply filter_In in Hx; tauto).
          rewrite (filter_cons1 (e x) x0 (y :: t')), (Hbelow x Hin). exact Hr'.
  Qed.

  (* hence: the length of a run is the multiplicity of (the key of) any of its members *)
  Corollary run_length_is_multiplicity l : sorted l -> forall r, In r (runs e l) -> forall x, In x r -> length r = mult x l.
  Proof. intros Hs r Hr x Hx. unfold mult. rewrite <- (runs_are_classes l Hs r Hr x Hx). reflexivity. Qed.

  Lemma in_runs_exists l x : In x l -> exists r, In r (runs e l) /\ In x r.
  Proof.
    intros H. rewrite <- (runs_concat e l) in H. apply in_concat in H. destruct H as (r & H1 & H2). eauto.
  Qed.

  (* duplicates = the rows whose key occurs at least twice; unique = the rows whose key occurs exactly once *)
  Theorem big_runs_are_multiples l : sorted l -> forall x,
    In x (concat (filter big (runs e l))) <-> In x l /\ 2 <= mult x l.
  Proof.
    intros Hs x. split.
    - intros H. apply in_concat in H. destruct H as (r & Hr & Hx). apply filter_In in Hr. destruct Hr as [Hr Hb].
      split; [rewrite <- (runs_concat e l); apply in_concat; eauto|].
      rewrite <- (run_length_is_multiplicity l Hs r Hr x Hx). unfold big in Hb. apply Nat.ltb_lt in Hb. lia.
    - intros [Hin Hm]. destruct (in_runs_exists l x Hin) as (r & Hr & Hx).
      apply in_concat. exists r. split; [|exact Hx]. apply filter_In. split; [exact Hr|].
      unfold big. apply Nat.ltb_lt. rewrite (run_length_is_multiplicity l Hs r Hr x Hx). lia.
  Qed.

  Theorem single_runs_are_singletons l : sorted l -> forall x,
    In x (concat (filter single (runs e l))) <-> In x l /\ mult x l = 1.
  Proof.
    intros Hs x. split.
    - intros H. apply in_concat in H. destruct H as (r & Hr & Hx). apply filter_In in Hr. destruct Hr as [Hr Hb].
      split; [rewrite <- (runs_concat e l); apply in_concat; eauto|].
      rewrite <- (run_length_is_multiplicity l Hs r Hr x Hx). unfold single in Hb. apply Nat.eqb_eq in Hb. exact Hb.
    - intros [Hin Hm]. destruct (in_runs_exists l x Hin) as (r & Hr & Hx).
      apply in_concat. exists r. split; [|exact Hx]. apply filter_In. split; [exact Hr|].
      unfold single. apply Nat.eqb_eq. rewrite (run_length_is_multiplicity l Hs r Hr x Hx). exact Hm.
  Qed.
End Mult.

(* ---- the dedup loops of petl on a table sorted by key ------------------------------------------------------------------- *)
From Verif Require Import Order CmpFacts ComparableGen ComparableFacts AsIndicesGen Sort SortFacts.
From Coq Require Import Permutation.

Lemma ceq_cle a b : ceq a b = cle a b && cle b a.
Proof.
  destruct (derived_ops a b) as (H1 & _). destruct (derived_ops b a) as (H2 & _). rewrite H1, H2.
  destruct (trichotomy a b) as [(A1 & A2 & A3)|[(A1 & A2 & A3)|(A1 & A2 & A3)]]; rewrite A1, A2, A3; reflexivity.
Qed.

Lemma runs_ext_in {A} (e1 e2 : A -> A -> bool) l :
  (forall a b, In a l -> In b l -> e1 a b = e2 a b) -> runs e1 l = runs e2 l.
Proof.
  induction l as [|x t IH]; intros H; [reflexivity|]. rewrite !runs_cons.
  rewrite IH by (intros a b Ha Hb; apply H; right; assumption).
  destruct (runs e2 t) as [|[|y r] rs] eqn:E; auto.
  assert (Hy : In y t).
  { rewrite <- (runs_concat e2 t), E. cbn. left. reflexivity. }
  rewrite (H x y (or_introl eq_refl) (or_intror Hy)). reflexivity.
Qed.

Lemma perm_filter_length {A} (p : A -> bool) l1 l2 : Permutation l1 l2 -> length (filter p l1) = length (filter p l2).
Proof.
  induction 1 as [|x a b _ IH|x y a|a b c _ IH1 _ IH2]; cbn; auto.
  - destruct (p x); cbn; auto.
  - destruct (p x), (p y); reflexivity.
  - congruence.
Qed.

Section KeyMultiplicity.
  Variable idx : list Z.                 (* the key's field indices *)
  Variable rows : list row.              (* the table's data rows, in table order *)
  Definition keq (a b : row) : bool := ceq (getkey idx a) (getkey idx b).   (* same key, in the Comparable equivalence *)
  Definition key_multiplicity (x : row) : nat := mult keq x rows.            (* how many rows of the table have x's key *)
  Let S := sort_data (row_leb false idx) None rows.                        (* what sort(table, key) feeds to the loops *)

  Lemma S_sorted : StronglySorted (fun a b => row_leb false idx a b = true) S.
  Proof. apply (pysort_sorted _ (row_leb_total false idx) (row_leb_trans false idx)). Qed.

  Lemma keq_spec a b : keq a b = row_leb false idx a b && row_leb false idx b a.
  Proof. unfold keq. rewrite !row_leb_cle. apply ceq_cle. Qed.

  Lemma mult_S x : mult keq x S = key_multiplicity x.
  Proof. unfold mult, key_multiplicity. apply perm_filter_length. apply sort_data_perm. Qed.

  Lemma in_S x : In x S <-> In x rows.
  Proof. split; apply Permutation_in; [apply sort_data_perm | apply Permutation_sym, sort_data_perm]. Qed.

  (* the raw == of the loops agrees with the Comparable equivalence on the keys of this table (no list-valued cells) *)
  Variable gk : row -> option val.
  Variable k : row -> val.
  Hypothesis Hk : forall r, In r S -> gk r = Some (k r).
  Hypothesis Hraw : forall a b, In a rows -> In b rows -> py_eq (k a) (k b) = keq a b.

  Lemma runs_raw : runs (eq_pc k) S = runs keq S.
  Proof. apply runs_ext_in. intros a b Ha Hb. unfold eq_pc. apply Hraw; apply in_S; assumption. Qed.

  Theorem duplicates_by_multiplicity :
    exists d, iterduplicates_data gk S = (d, None) /\ forall x, In x d <-> In x rows /\ 2 <= key_multiplicity x.
  Proof.
    exists (concat (filter big (runs keq S))). split.
    - rewrite (duplicates_runs gk k S Hk), runs_raw. reflexivity.
    - intros x. rewrite (big_runs_are_multiples _ keq (row_leb_trans false idx) (row_leb_total false idx) keq_spec S S_sorted x).
      rewrite in_S, mult_S. reflexivity.
  Qed.

  Theorem unique_by_multiplicity :
    exists u, iterunique_data gk S = (u, None) /\ forall x, In x u <-> In x rows /\ key_multiplicity x = 1.
  Proof.
    exists (concat (filter single (runs keq S))). split.
    - rewrite (unique_runs gk k S Hk), runs_raw. reflexivity.
    - intros x. rewrite (single_runs_are_singletons _ keq (row_leb_trans false idx) (row_leb_total false idx) keq_spec S S_sorted x).
      rewrite in_S, mult_S. reflexivity.
  Qed.

  (* distinct keeps one row per key; with count=..., the count is the key's multiplicity *)
  Theorem distinct_run_counts : forall r, In r (runs keq S) -> forall x, In x r -> length r = key_multiplicity x.
  Proof.
    intros r Hr x Hx. rewrite <- mult_S.
    apply (run_length_is_multiplicity _ keq (row_leb_trans false idx) (row_leb_total false idx) keq_spec S S_sorted r Hr x Hx).
  Qed.
End KeyMultiplicity.
