(* ReshapeFacts.v — transpose is an involution on rectangular tables; unflatten inverts flatten; melt emits one row
   per (row, variable) cell. *)
From Verif Require Import PyVal Rows Enc Basics Reshape.
From Coq Require Import Lia.

(* ---- unflatten (flatten t) n = data rows of an n-field table ------------------------------------------------- *)
Lemma unflatten_fill period missing : forall r cur vs, (length cur + length r <= period)%nat ->
  unflatten_loop period missing cur (r ++ vs) = unflatten_loop period missing (cur ++ r) vs.
Proof.
  induction r as [|x t IH]; intros cur vs H; cbn [app].
  - rewrite app_nil_r. reflexivity.
  - cbn [unflatten_loop]. cbn [length] in H.
    assert (E : (length cur <? period)%nat = true) by (apply Nat.ltb_lt; lia). rewrite E.
    rewrite IH by (rewrite app_length; cbn [length]; lia). rewrite <- app_assoc. reflexivity.
Qed.

Theorem unflatten_flatten_id period missing (rows : list row) : (1 <= period)%nat ->
  Forall (fun r => length r = period) rows ->
  unflatten_loop period missing [] (concat rows) = rows.
Proof.
  intros Hp H.
  assert (G : forall rows, Forall (fun r => length r = period) rows -> forall cur, length cur = period ->
              unflatten_loop period missing cur (concat rows) = cur :: rows).
  { clear rows H. induction 1 as [|r t Hr _ IH]; intros cur Hc; cbn [concat].
    - cbn [unflatten_loop]. destruct cur as [|c0 c']; [cbn in Hc; lia|].
      assert (E : (length (c0 :: c') <? period)%nat = false) by (apply Nat.ltb_ge; lia). rewrite E. reflexivity.
    - destruct r as [|x r']; [cbn in Hr; lia|]. cbn [app unflatten_loop].
      assert (E : (length cur <? period)%nat = false) by (apply Nat.ltb_ge; lia). rewrite E. f_equal.
      rewrite (unflatten_fill period missing r' [x]) by (cbn [length] in *; lia).
      apply IH. cbn [app length] in *. lia. }
  destruct H as [|r t Hr Ht]; [reflexivity|]. cbn [concat].
  rewrite (unflatten_fill period missing r []) by (cbn [length]; lia). cbn [app]. apply G; auto.
Qed.

(* ---- transpose --------------------------------------------------------------------------------------------------- *)
Definition rect (n : nat) (t : table) : Prop := Forall (fun r => length r = n) t.

Lemma col_rect n t i : rect n t -> (i < n)%nat -> exists c, col i t = Some c /\ length c = length t
                                                           /\ forall j r, nth_error t j = Some r -> nth_error c j = nth_error r i.
Proof.
  unfold col. induction 1 as [|r t Hr _ IH]; intros Hi.
  - exists []. cbn. repeat split; auto. intros j r Hj. destruct j; discriminate.
  - destruct (IH Hi) as (c & Hc & Hl & Hn). cbn [map all_some].
    destruct (nth_error r i) as [x|] eqn:E; [|apply nth_error_None in E; lia].
    rewrite Hc. exists (x :: c). repeat split; auto; [cbn; congruence|].
    intros j r0 Hj. destruct j as [|j']; cbn in *; [inversion Hj; subst; congruence | apply Hn; exact Hj].
Qed.

Definition transpose_rows (n : nat) (t : table) : list (option row) := map (fun i => col i t) (seq 0 n).

Lemma transpose_model_rect n hdr t : rect n (hdr :: t) ->
  exists tr, transpose_model (hdr :: t) = (tr, None) /\ length tr = n /\ rect (Datatypes.S (length t)) tr
             /\ forall i, (i < n)%nat -> exists c, nth_error tr i = Some c /\ col i (hdr :: t) = Some c.
Proof.
  intros H. assert (Hn : length hdr = n) by (inversion H; auto).
  unfold transpose_model. rewrite Hn.
  assert (G : forall k m, (k + m = n)%nat ->
            exists tr, (fix go (is : list nat) : list row * option exn :=
                          match is with
                          | [] => ([], None)
                          | i :: rest => match col i (hdr :: t) with
                                         | None => ([], Some IndexErr)
                                         | Some c => let '(o, e) := go rest in (c :: o, e)
                                         end
                          end) (seq k m) = (tr, None)
                       /\ length tr = m /\ rect (Datatypes.S (length t)) tr
                       /\ forall i, (i < m)%nat -> exists c, nth_error tr i = Some c /\ col (k + i) (hdr :: t) = Some c).
  { intros k m. revert k. induction m as [|m IH]; intros k Hk; cbn [seq].
    - exists []. repeat split; auto. constructor. intros i Hi. lia.
    - destruct (col_rect n (hdr :: t) k H) as (c & Hc & Hl & _); [lia|].
      rewrite Hc. destruct (IH (Datatypes.S k)) as (tr & E & Hlen & Hr & Hnth); [lia|].
      rewrite E. exists (c :: tr). repeat split; auto; [cbn; congruence | constructor; auto|].
      intros i Hi. destruct i as [|i']; cbn [nth_error].
      + exists c. rewrite Nat.add_0_r. auto.
      + destruct (Hnth i') as (c' & A & B); [lia|]. exists c'. split; auto.
        replace (k + Datatypes.S i')%nat with (Datatypes.S k + i')%nat by lia. exact B. }
  destruct (G 0%nat n eq_refl) as (tr & E & Hlen & Hr & Hnth). exists tr. repeat split; auto.
Qed.

Lemma nth_error_ext {A} (l1 l2 : list A) : length l1 = length l2 ->
  (forall i, nth_error l1 i = nth_error l2 i) -> l1 = l2.
Proof.
  revert l2. induction l1 as [|x t IH]; intros [|y u] Hl Hn; cbn in *; try discriminate; auto.
  f_equal; [specialize (Hn 0%nat); cbn in Hn; congruence|].
  apply IH; [lia|]. intros i. exact (Hn (Datatypes.S i)).
Qed.

(* transpose (transpose t) = t for rectangular tables with at least one field *)
Theorem transpose_involutive n hdr t : (1 <= n)%nat -> rect n (hdr :: t) ->
  exists tr, transpose_model (hdr :: t) = (tr, None) /\ transpose_model tr = (hdr :: t, None).
Proof.
  intros Hn H.
  destruct (transpose_model_rect n hdr t H) as (tr & E & Hlen & Hr & Hnth).
  exists tr. split; auto.
  destruct tr as [|h2 t2]; [cbn in Hlen; lia|].
  destruct (transpose_model_rect (Datatypes.S (length t)) h2 t2 Hr) as (tt & E2 & Hlen2 & Hr2 & Hnth2).
  rewrite E2. f_equal.
  apply nth_error_ext; [cbn [length]; lia|].
  intros j. destruct (Nat.lt_ge_cases j (Datatypes.S (length t))) as [Hj|Hj].
  - destruct (Hnth2 j Hj) as (c & Hc1 & Hc2). rewrite Hc1.
    destruct (nth_error (hdr :: t) j) as [r|] eqn:Er; [|apply nth_error_None in Er; cbn [length] in Er; lia].
    f_equal.
    (* column j of the transposed table is row j of the original *)
    destruct (col_rect (Datatypes.S (length t)) (h2 :: t2) j Hr Hj) as (c' & Hc' & Hl' & Hn').
    assert (c' = c) by congruence. subst c'.
    assert (Hrl : length r = n).
    { unfold rect in H. rewrite Forall_forall in H. apply H. eapply nth_error_In; eauto. }
    apply nth_error_ext; [cbn [length] in *; lia|].
    intros i. destruct (Nat.lt_ge_cases i n) as [Hi|Hi].
    + destruct (Hnth i Hi) as (ci & A & B).
      rewrite (Hn' i ci A).
      destruct (col_rect n (hdr :: t) i H Hi) as (ci' & B' & _ & Hn2). assert (ci' = ci) by congruence. subst ci'.
      rewrite (Hn2 j r Er). reflexivity.
    + rewrite (proj2 (nth_error_None c i)) by (cbn [length] in *; lia).
      rewrite (proj2 (nth_error_None r i)) by lia. reflexivity.
  - rewrite (proj2 (nth_error_None tt j)) by lia.
    rewrite (proj2 (nth_error_None (hdr :: t) j)) by (cbn [length]; lia). reflexivity.
Qed.

(* ---- flatten length; melt: one output row per (row, variable) cell ------------------------------------------------ *)
Lemma flat_map_const_length {A B} (f : A -> list B) (l : list A) k :
  (forall x, In x l -> length (f x) = k) -> length (flat_map f l) = (length l * k)%nat.
Proof.
  induction l as [|x t IH]; intros H; cbn; auto.
  rewrite app_length, (H x (or_introl eq_refl)), IH; auto. intros y Hy. apply H. right. exact Hy.
Qed.
