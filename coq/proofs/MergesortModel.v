(* MergesortModel.v — the operator model end to end: mergesort of tables that share a header of distinct text fields and
   have rectangular rows is sort(cat(tables)): same header, rows = the stable sort of the concatenated rows.  Glue between
   mergesort_model (header union, row standardisation, per-table sorts, shortlist merge) and MergesortFacts. *)
From Verif Require Import PyVal Rows Order CmpFacts ComparableGen ComparableFacts OrderTools AsIndicesGen Sort SortFacts
     SetFacts DedupFacts MergesortFacts PivotFacts RecastFacts Basics Reshape ReshapeFacts.
From Coq Require Import Lia Permutation Sorted.
Open Scope Z_scope.

(* ---- list.index / `in` on a list of pairwise different values ------------------------------------------------------------ *)
Lemma py_index_from_none x : forall l i, Forall (fun y => py_eq y x = false) l -> py_index_from x l i = None.
Proof. induction l as [|y t IH]; intros i H; [reflexivity|]. inversion H; subst. cbn. rewrite H2. apply IH. assumption. Qed.

Lemma py_index_from_shift x : forall l i j, py_index_from x l i = Some j -> py_index_from x l (i + 1) = Some (j + 1).
Proof.
  induction l as [|y t IH]; intros i j H; [discriminate|]. cbn in *. destruct (py_eq y x); [inversion H; reflexivity|].
  apply IH. exact H.
Qed.

Lemma py_in_head x l : py_eq x x = true -> py_in x (x :: l) = true.
Proof. intros H. unfold py_in, py_index. cbn. rewrite H. reflexivity. Qed.

Lemma py_in_app_l x a b : py_in x a = true -> py_in x (a ++ b) = true.
Proof.
  unfold py_in, py_index. generalize 0. induction a as [|y t IH]; intros i H; [discriminate|].
  cbn in *. destruct (py_eq y x); [reflexivity|]. apply IH. exact H.
Qed.

Lemma py_in_member x l : py_eq x x = true -> In x l -> py_in x l = true.
Proof.
  intros Hr Hin. apply in_split in Hin. destruct Hin as (a & b & ->). unfold py_in, py_index. generalize 0.
  induction a as [|y t IH]; intros i; cbn.
  - rewrite Hr. reflexivity.
  - destruct (py_eq y x); [reflexivity|]. apply IH.
Qed.

Lemma py_in_absent x l : Forall (fun y => py_eq y x = false) l -> py_in x l = false.
Proof. intros H. unfold py_in, py_index. rewrite py_index_from_none; auto. Qed.

(* position of the j-th name among pairwise different names *)
Lemma py_index_distinct : forall (names : list val) (j : nat) n, distinct_names names -> nth_error names j = Some n ->
  py_index n names = Some (Z.of_nat j).
Proof.
  unfold py_index. intros names j n Hd Hn.
  assert (G : forall i, py_index_from n names i = Some (i + Z.of_nat j)); [|rewrite G; f_equal; lia].
  revert j Hn. induction names as [|m names IH]; intros j Hn i; [destruct j; discriminate|].
  destruct Hd as (Hrefl & Hall & Hd). destruct j as [|j]; cbn in Hn.
  - inversion Hn; subst. cbn. rewrite Hrefl. f_equal. lia.
  - cbn [py_index_from]. assert (Hin : In n names) by (eapply nth_error_In; eauto).
    rewrite Forall_forall in Hall. destruct (Hall n Hin) as [H0 _]. rewrite H0.
    rewrite (IH Hd j Hn (i + 1)). f_equal. lia.
Qed.

(* ---- the header union ------------------------------------------------------------------------------------------------------ *)
Lemma union_fields_known acc fs : Forall (fun f => py_in f acc = true) fs -> union_fields acc fs = acc.
Proof. induction 1 as [|f t Hf _ IH]; [reflexivity|]. cbn. rewrite Hf. exact IH. Qed.

Lemma distinct_names_all (l : list val) : distinct_names l -> Forall (fun f => py_eq f f = true) l.
Proof. induction l as [|n t IH]; intros H; [constructor|]. destruct H as (R & _ & D). constructor; auto. Qed.

Lemma union_fields_fresh : forall fs acc, distinct_names fs ->
  Forall (fun f => Forall (fun y => py_eq y f = false) acc) fs -> union_fields acc fs = acc ++ fs.
Proof.
  induction fs as [|f t IH]; intros acc Hd Hfresh; [symmetry; apply app_nil_r|].
  destruct Hd as (Hrefl & Hall & Hd). inversion Hfresh as [|? ? Hf Ht]; subst. cbn [union_fields].
  rewrite (py_in_absent f acc Hf). rewrite (IH (acc ++ [f]) Hd).
  - rewrite <- app_assoc. reflexivity.
  - rewrite Forall_forall in *. intros g Hg. apply Forall_app. split; [apply Ht; exact Hg|].
    constructor; [|constructor]. apply (Hall g Hg).
Qed.

Lemma union_fields_repeated (hdr : list val) (n : nat) : distinct_names hdr ->
  union_fields [] (concat (repeat hdr (S n))) = hdr.
Proof.
  intros Hd. cbn [repeat concat].
  assert (G : forall acc fs, union_fields acc (fs ++ concat (repeat hdr n)) = union_fields (union_fields acc fs) (concat (repeat hdr n))).
  { intros acc fs. revert acc. induction fs as [|f t IH]; intros acc; [reflexivity|]. cbn. destruct (py_in f acc); apply IH. }
  rewrite G. rewrite (union_fields_fresh hdr [] Hd) by (rewrite Forall_forall; intros; constructor). cbn [app].
  apply union_fields_known. rewrite Forall_forall. intros f Hf. apply in_concat in Hf. destruct Hf as (l & Hl & Hfl).
  apply repeat_spec in Hl. subst l. apply py_in_member; [|exact Hfl].
  pose proof (distinct_names_all hdr Hd) as Hr. rewrite Forall_forall in Hr. apply Hr. exact Hfl.
Qed.

(* ---- standardising a row that already has the output layout ---------------------------------------------------------------- *)
Lemma py_nth_nat (r : row) (j : nat) v : nth_error r j = Some v -> py_nth r (Z.of_nat j) = Some v.
Proof.
  intros H. unfold py_nth, zlen. assert (Hl : (j < length r)%nat) by (apply nth_error_Some; congruence).
  replace (Z.of_nat j <? 0) with false by (symmetry; apply Z.ltb_ge; lia).
  replace ((Z.of_nat j <? 0) || (Z.of_nat (length r) <=? Z.of_nat j)) with false
    by (symmetry; apply Bool.orb_false_iff; split; [apply Z.ltb_ge | apply Z.leb_gt]; lia).
  rewrite Nat2Z.id. exact H.
Qed.

Lemma standardise_same (hdr : list val) (missing : val) (r : row) : distinct_names hdr -> length r = length hdr ->
  standardise_row hdr hdr missing r = r.
Proof.
  intros Hd Hlen. unfold standardise_row.
  assert (E : map (fun fo => match py_index fo hdr with
                             | Some i => match py_nth r i with Some v => Some v | None => None end
                             | None => Some missing end) hdr = map Some r).
  { apply nth_error_ext; [rewrite !map_length; lia|]. intros j.
    destruct (nth_error hdr j) as [f|] eqn:Ef.
    - rewrite (map_nth_error _ _ _ Ef). rewrite (py_index_distinct hdr j f Hd Ef).
      destruct (nth_error r j) as [v|] eqn:Ev.
      + rewrite (py_nth_nat r j v Ev). rewrite (map_nth_error _ _ _ Ev). reflexivity.
      + apply nth_error_None in Ev. assert (j < length hdr)%nat by (apply nth_error_Some; congruence). lia.
    - pose proof Ef as Ef'. apply nth_error_None in Ef'.
      rewrite (proj2 (nth_error_None _ _)) by (rewrite map_length; exact Ef').
      symmetry. apply nth_error_None. rewrite map_length. lia. }
  rewrite E, all_some_map_Some. reflexivity.
Qed.

(* ---- the operator model ------------------------------------------------------------------------------------------------------ *)
Lemma map_text_id (hdr : list val) : Forall (fun f => hdr_text f = f) hdr -> map hdr_text hdr = hdr.
Proof. induction 1 as [|f t Hf _ IH]; [reflexivity|]. cbn. rewrite Hf, IH. reflexivity. Qed.

Lemma concat_const_repeat {A B} (h : list B) (l : list A) : concat (map (fun _ => h) l) = concat (repeat h (length l)).
Proof. induction l as [|x t IH]; [reflexivity|]. cbn. rewrite IH. reflexivity. Qed.

Lemma find_no_error {A} (l : list (A * option exn)) : Forall (fun g => snd g = None) l ->
  find (fun g => match snd g with Some _ => true | None => false end) l = None.
Proof. induction 1 as [|g t Hg _ IH]; [reflexivity|]. cbn. rewrite Hg. exact IH. Qed.

Theorem mergesort_model_is_sort_of_cat (k : val) (reverse : bool) (missing : val) (bs : option nat) (hdr : row)
        (tabs : list (list row)) (idx : list Z) :
  (forall b, bs = Some b -> (1 <= b)%nat) ->
  Forall (fun f => hdr_text f = f) hdr -> distinct_names hdr ->
  asindices hdr k = Ok idx -> idx <> [] ->
  tabs <> [] -> Forall (Forall (fun r : row => length r = length hdr)) tabs ->
  mergesort_model (Some k) reverse false missing None bs (map (cons hdr) tabs)
  = sort_model None reverse (Some k) (hdr :: concat tabs).
Proof.
  intros Hb Htext Hd Hidx Hne Htabs Hrect.
  set (rleb := row_leb reverse idx).
  (* the per-table sorts *)
  assert (Hsort : forall rows, sort_model bs reverse (Some k) (hdr :: rows) = (hdr :: sort_data rleb bs rows, None)).
  { intros rows. unfold sort_model, key_indices. rewrite Hidx. destruct idx as [|i idx']; [congruence|]. reflexivity. }
  assert (Hchunk : forall rows, sort_data rleb bs rows = sort_data rleb None rows).
  { intros rows. destruct bs as [b|]; [|reflexivity].
    apply sort_data_chunked; [apply row_leb_total | apply row_leb_trans | apply Hb; reflexivity]. }
  assert (Hlen : forall rows, Forall (fun r : row => length r = length hdr) rows ->
                               Forall (fun r : row => length r = length hdr) (sort_data rleb bs rows)).
  { intros rows Hr. rewrite Hchunk. rewrite Forall_forall in *. intros r Hin. apply Hr.
    eapply Permutation_in; [apply sort_data_perm|exact Hin]. }
  (* right-hand side *)
  assert (Hrhs : sort_model None reverse (Some k) (hdr :: concat tabs) = (hdr :: sort_data rleb None (concat tabs), None)).
  { unfold sort_model, key_indices. rewrite Hidx. destruct idx as [|i idx']; [congruence|]. reflexivity. }
  rewrite Hrhs. clear Hrhs.
  unfold mergesort_model.
  set (sorted := map (fun t : table => if false then (t, None) else sort_model bs reverse (Some k) t) (map (cons hdr) tabs)).
  assert (Es : sorted = map (fun rows => (hdr :: sort_data rleb bs rows, None)) tabs).
  { unfold sorted. rewrite map_map. apply map_ext. intros rows. apply Hsort. }
  rewrite Es. clear sorted Es.
  rewrite find_no_error by (rewrite Forall_forall; intros g Hg; apply in_map_iff in Hg; destruct Hg as (rows & <- & _); reflexivity).
  rewrite !map_map. cbn [fst].
  (* the output header *)
  match goal with |- context [union_fields [] ?X] => assert (Eh : union_fields [] X = hdr) end.
  { unfold row in *. rewrite (concat_const_repeat hdr tabs). destruct tabs as [|t0 tabs']; [congruence|]. cbn [length].
    assert (Et : map hdr_text (concat (repeat hdr (S (length tabs')))) = concat (repeat hdr (S (length tabs')))).
    { apply map_text_id. rewrite Forall_forall. intros f Hf. apply in_concat in Hf. destruct Hf as (l & Hl & Hfl).
      apply repeat_spec in Hl. subst l. rewrite Forall_forall in Htext. apply Htext. exact Hfl. }
    rewrite Et. apply union_fields_repeated. exact Hd. }
  rewrite Eh.
  (* the standardised, sorted inputs *)
  match goal with |- context [filter nonempty ?X] =>
    assert (Esit : X = map (fun x => sort_data rleb bs x) tabs) end.
  { apply map_ext_in. intros rows Hin. rewrite (map_text_id hdr Htext).
    rewrite Forall_forall in Hrect. pose proof (Hlen rows (Hrect rows Hin)) as Hl.
    induction Hl as [|r t Hr _ IH]; [reflexivity|]. cbn [map]. rewrite (standardise_same hdr missing r Hd Hr), IH. reflexivity. }
  rewrite Esit. rewrite Hidx. destruct idx as [|i idx']; [congruence|].
  pose proof (keyed_mergesort_is_sort_of_cat reverse (i :: idx') (map (fun _ => bs) tabs) tabs) as K.
  assert (Ec : map (fun p : option nat * list row => sort_data (row_leb reverse (i :: idx')) (fst p) (snd p))
                   (combine (map (fun _ : list row => bs) tabs) tabs) = map (fun x => sort_data rleb bs x) tabs).
  { unfold rleb. clear. induction tabs as [|t ts IH]; [reflexivity|]. cbn. rewrite IH. reflexivity. }
  cbv zeta in K. rewrite Ec in K. rewrite K.
  - reflexivity.
  - rewrite Forall_forall. intros o Ho. apply in_map_iff in Ho. destruct Ho as (? & <- & _). exact Hb.
  - apply map_length.
Qed.
