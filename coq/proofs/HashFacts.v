(* HashFacts.v — the lookup dictionaries group the build side by key, in table order; lookupone keeps the first. *)
From Verif Require Import PyVal Rows Order CmpFacts Dedup Joins HashJoins DedupFacts SetFacts.
From Coq Require Import Lia.
Open Scope Z_scope.

Lemma py_eq_cong a b d : py_eq a b = true -> py_eq a d = py_eq b d.
Proof.
  intros H. destruct (py_eq a d) eqn:E1, (py_eq b d) eqn:E2; auto.
  - rewrite py_eq_sym in H. rewrite (py_eq_trans b a d H E1) in E2. discriminate.
  - rewrite (py_eq_trans a b d H E2) in E1. discriminate.
Qed.

Lemma pd_get_set_same {V} (d : pdict V) k v k' : py_eq k k' = true -> pd_get (pd_set d k v) k' = Some v.
Proof.
  intros H. induction d as [|[k0 v0] t IH]; simpl.
  - rewrite H. reflexivity.
  - destruct (py_eq k0 k) eqn:E; simpl.
    + rewrite (py_eq_cong k0 k k' E), H. reflexivity.
    + destruct (py_eq k0 k') eqn:E'; auto.
      rewrite py_eq_sym in H. rewrite (py_eq_trans k0 k' k E' H) in E. discriminate.
Qed.

Lemma pd_get_set_other {V} (d : pdict V) k v k' : py_eq k k' = false -> pd_get (pd_set d k v) k' = pd_get d k'.
Proof.
  intros H. induction d as [|[k0 v0] t IH]; simpl.
  - rewrite H. reflexivity.
  - destruct (py_eq k0 k) eqn:E; simpl.
    + rewrite (py_eq_cong k0 k k' E), H. reflexivity.
    + destruct (py_eq k0 k'); auto.
Qed.

Section LookupFacts.
  Variables (gk gv : row -> option val) (k v : row -> val).
  Variable rows0 : list row.

  Definition matching (key : val) (rows : list row) : list val :=
    map v (filter (fun r => py_eq (k r) key) rows).

  Definition dict_ok (d : pdict (list val)) (seen : list row) : Prop :=
    forall key, pd_get d key = match matching key seen with [] => None | l => Some l end.

  Lemma lookup_loop_spec rows : forall d seen,
    (forall r, In r rows -> gk r = Some (k r) /\ gv r = Some (v r)) ->
    dict_ok d seen ->
    exists d', lookup_loop gk gv d rows = Ok d' /\ dict_ok d' (seen ++ rows).
  Proof.
    induction rows as [|r t IH]; intros d seen H Hd.
    - exists d. rewrite app_nil_r. split; auto.
    - destruct (H r (or_introl eq_refl)) as [Hk Hv]. cbn [lookup_loop]. rewrite Hk, Hv.
      set (d1 := match pd_get d (k r) with Some l => pd_set d (k r) (l ++ [v r]) | None => pd_set d (k r) [v r] end).
      destruct (IH d1 (seen ++ [r])) as (d' & E & Hd').
      + intros x Hx. apply H. right. exact Hx.
      + intros key. unfold matching. rewrite filter_app, map_app. cbn [filter].
        pose proof (Hd key) as Hkey. pose proof (Hd (k r)) as Hkr. unfold matching in Hkey, Hkr.
        destruct (py_eq (k r) key) eqn:E.
        * (* the same key class *)
          assert (EQ : filter (fun r0 => py_eq (k r0) (k r)) seen = filter (fun r0 => py_eq (k r0) key) seen).
          { apply filter_ext. intros a. rewrite (py_eq_sym (k a) (k r)), (py_eq_sym (k a) key).
            apply py_eq_cong. exact E. }
          rewrite EQ in Hkr. unfold d1. rewrite Hkr.
          destruct (map v (filter (fun r0 => py_eq (k r0) key) seen)) as [|x l] eqn:M.
          -- rewrite pd_get_set_same by exact E. reflexivity.
          -- rewrite pd_get_set_same by exact E. reflexivity.
        * cbn [map app]. rewrite app_nil_r. unfold d1.
          destruct (pd_get d (k r)); rewrite pd_get_set_other by exact E; exact Hkey.
      + exists d'. split; auto. rewrite <- app_assoc in Hd'. exact Hd'.
  Qed.

  (* lookup maps each key to ALL of its values, in table order *)
  Theorem lookup_groups_in_order rows :
    (forall r, In r rows -> gk r = Some (k r) /\ gv r = Some (v r)) ->
    exists d, lookup_loop gk gv [] rows = Ok d /\
              forall key, pd_get d key = match matching key rows with [] => None | l => Some l end.
  Proof.
    intros H. destruct (lookup_loop_spec rows [] [] H) as (d & E & Hd).
    - intros key. reflexivity.
    - exists d. split; auto.
  Qed.

  Definition first_matching (key : val) (rows : list row) : option val :=
    match matching key rows with [] => None | x :: _ => Some x end.

  Lemma lookupone_loop_spec rows : forall d seen,
    (forall r, In r rows -> gk r = Some (k r) /\ gv r = Some (v r)) ->
    (forall key, pd_get d key = first_matching key seen) ->
    exists d', lookupone_loop gk gv false d rows = Ok d' /\ (forall key, pd_get d' key = first_matching key (seen ++ rows)).
  Proof.
    induction rows as [|r t IH]; intros d seen H Hd.
    - exists d. rewrite app_nil_r. split; auto.
    - destruct (H r (or_introl eq_refl)) as [Hk Hv]. cbn [lookupone_loop]. rewrite Hk.
      pose proof (Hd (k r)) as Hkr.
      assert (STEP : forall d1, (forall key, pd_get d1 key = first_matching key (seen ++ [r])) ->
                exists d', lookupone_loop gk gv false d1 t = Ok d' /\
                           (forall key, pd_get d' key = first_matching key (seen ++ r :: t))).
      { intros d1 H1. destruct (IH d1 (seen ++ [r])) as (d' & E & Hd'); auto.
        - intros x Hx. apply H. right. exact Hx.
        - exists d'. split; auto. intros key. rewrite Hd'. rewrite <- app_assoc. reflexivity. }
      destruct (pd_get d (k r)) as [old|] eqn:G.
      + apply STEP. intros key. rewrite Hd. unfold first_matching, matching. rewrite filter_app, map_app. cbn [filter].
        destruct (py_eq (k r) key) eqn:E.
        * assert (EQ : filter (fun r0 => py_eq (k r0) (k r)) seen = filter (fun r0 => py_eq (k r0) key) seen).
          { apply filter_ext. intros a. rewrite (py_eq_sym (k a) (k r)), (py_eq_sym (k a) key). apply py_eq_cong. exact E. }
          unfold first_matching, matching in Hkr. rewrite EQ in Hkr.
          destruct (map v (filter (fun r0 => py_eq (k r0) key) seen)); [discriminate | reflexivity].
        * cbn [map app]. rewrite app_nil_r. reflexivity.
      + rewrite Hv. apply STEP. intros key. unfold first_matching, matching. rewrite filter_app, map_app. cbn [filter].
        destruct (py_eq (k r) key) eqn:E.
        * rewrite pd_get_set_same by exact E.
          assert (EQ : filter (fun r0 => py_eq (k r0) (k r)) seen = filter (fun r0 => py_eq (k r0) key) seen).
          { apply filter_ext. intros a. rewrite (py_eq_sym (k a) (k r)), (py_eq_sym (k a) key). apply py_eq_cong. exact E. }
          unfold first_matching, matching in Hkr. rewrite EQ in Hkr.
          destruct (map v (filter (fun r0 => py_eq (k r0) key) seen)); [reflexivity | discriminate].
        * rewrite pd_get_set_other by exact E. rewrite Hd. unfold first_matching, matching.
          cbn [map app]. rewrite app_nil_r. reflexivity.
  Qed.

  (* lookupone (strict=False) maps each key to its FIRST value *)
  Theorem lookupone_first rows :
    (forall r, In r rows -> gk r = Some (k r) /\ gv r = Some (v r)) ->
    exists d, lookupone_loop gk gv false [] rows = Ok d /\ forall key, pd_get d key = first_matching key rows.
  Proof.
    intros H. destruct (lookupone_loop_spec rows [] [] H) as (d & E & Hd).
    - intros key. reflexivity.
    - exists d. split; auto.
  Qed.
End LookupFacts.

Section Strict.
  Variables (gk gv : row -> option val) (k v : row -> val).

  Lemma py_in_cong x y l : py_eq x y = true -> py_in x l = py_in y l.
  Proof.
    intros H. unfold py_in, py_index. generalize 0%Z.
    induction l as [|a t IH]; intros i; simpl; auto.
    rewrite (py_eq_sym a x), (py_eq_sym a y), (py_eq_cong x y a H). destruct (py_eq y a); auto.
  Qed.

  Lemma py_in_cons x a l : py_in x (a :: l) = py_eq a x || py_in x l.
  Proof.
    unfold py_in, py_index. simpl. destruct (py_eq a x); auto.
    assert (G : forall i j, match py_index_from x l i with Some _ => true | None => false end
                            = match py_index_from x l j with Some _ => true | None => false end).
    { induction l as [|b t IH]; intros i j; simpl; auto. destruct (py_eq b x); auto. }
    apply G.
  Qed.

  (* strict=True: DuplicateKeyError exactly when a key repeats *)
  Theorem lookupone_strict rows : forall d seen,
    (forall r, In r rows -> gk r = Some (k r) /\ gv r = Some (v r)) ->
    (forall key, (match pd_get d key with Some _ => true | None => false end) = py_in key seen) ->
    match lookupone_loop gk gv true d rows with
    | Err DuplicateKeyErr => has_dup seen (map k rows) = true
    | Ok _ => has_dup seen (map k rows) = false
    | Err _ => False
    end.
  Proof.
    induction rows as [|r t IH]; intros d seen H Hd; cbn [lookupone_loop map has_dup]; auto.
    destruct (H r (or_introl eq_refl)) as [Hk Hv]. rewrite Hk.
    pose proof (Hd (k r)) as Hkr.
    destruct (pd_get d (k r)) as [old|] eqn:G.
    - rewrite <- Hkr. reflexivity.
    - rewrite <- Hkr, Hv. apply IH.
      + intros x Hx. apply H. right. exact Hx.
      + intros key. rewrite py_in_cons. destruct (py_eq (k r) key) eqn:E.
        * rewrite pd_get_set_same by exact E. reflexivity.
        * rewrite pd_get_set_other by exact E. apply Hd.
  Qed.
End Strict.

(* ---- the probe loop of hashjoin / hashleftjoin is the nested-loop join in the order of the left table ---------- *)
From Verif Require Import ComparableGen ComparableFacts Sort Basics Relational.

Lemma ceq_plain a b : as_tuples a = a -> as_tuples b = b -> ceq a b = py_eq a b.
Proof. intros Ha Hb. rewrite ceq_agrees_py_eq, Ha, Hb. reflexivity. Qed.

Lemma rows_of_vals_map rows : rows_of_vals (map (fun r : row => VSeq false r) rows) = rows.
Proof. induction rows as [|r t IH]; simpl; auto. f_equal. exact IH. Qed.

Section HashJoin.
  Variables (n : nat) (lkind rkind rvind : list Z) (missing : val).
  Notation lk := (getkey lkind).
  Notation rk := (getkey rkind).
  Variables (L R : list row).
  Hypothesis HR : forall r, In r R -> raw_getkey rkind r = Some (rk r) /\ whole_row n r = Some (VSeq false r)
                                      /\ as_tuples (rk r) = rk r.
  Hypothesis HL : forall l, In l L -> raw_getkey lkind l = Some (lk l) /\ as_tuples (lk l) = lk l.

  Lemma matching_is_matches l : In l L ->
    rows_of_vals (matching rk (fun r => VSeq false r) (lk l) R) = matches_l lkind rkind R l.
  Proof.
    intros Hl. unfold matching. rewrite rows_of_vals_map. unfold matches_l.
    apply filter_ext_in. intros r Hr.
    destruct (HR r Hr) as (_ & _ & Pr). destruct (HL l Hl) as (_ & Pl).
    rewrite (ceq_plain (lk l) (rk r) Pl Pr). apply py_eq_sym.
  Qed.

  Theorem hashjoin_is_nested_loop leftouter :
    exists rl, lookup_loop (raw_getkey rkind) (whole_row n) [] R = Ok rl /\
               hashjoin_loop lkind rvind missing leftouter rl L
               = (nls_left lkind rkind rvind missing leftouter L R, None).
  Proof.
    destruct (lookup_groups_in_order (raw_getkey rkind) (whole_row n) rk (fun r => VSeq false r) R) as (rl & E & Hd).
    { intros r Hr. destruct (HR r Hr) as (A & B & _). auto. }
    exists rl. split; auto.
    assert (G : forall L', (forall l, In l L' -> In l L) ->
                hashjoin_loop lkind rvind missing leftouter rl L' = (nls_left lkind rkind rvind missing leftouter L' R, None)).
    { induction L' as [|l t IH]; intros Hsub; cbn [hashjoin_loop nls_left flat_map]; auto.
      assert (Hl : In l L) by (apply Hsub; left; reflexivity).
      destruct (HL l Hl) as (Kl & _). rewrite Kl.
      rewrite IH by (intros x Hx; apply Hsub; right; exact Hx).
      rewrite Hd. rewrite <- (matching_is_matches l Hl).
      destruct (matching rk (fun r => VSeq false r) (lk l) R) as [|x xs] eqn:M; cbn [rows_of_vals map]; [reflexivity|].
      reflexivity. }
    apply G. auto.
  Qed.
End HashJoin.

(* the nested loop in left-table order is the inner part of the relational join, plus the padded unmatched rows *)
Lemma nls_left_inner lkind rkind rvind missing L R :
  nls_left lkind rkind rvind missing false L R = nl_inner lkind rkind rvind missing L R.
Proof.
  unfold nls_left, nl_inner. apply flat_map_ext. intros l.
  destruct (matches_l lkind rkind R l); reflexivity.
Qed.
