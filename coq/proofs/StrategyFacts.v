(* StrategyFacts.v — buffersize (memory vs temporary-file chunks) never changes the result of a sort-backed operator,
   and presorted=True is harmless on inputs that are already sorted by the key. *)
From Verif Require Import PyVal Rows ComparableGen AsIndicesGen Sort SortFacts Basics Dedup SetOps Joins Reductions.
From Coq Require Import Lia Sorted.

Ltac bs_irrelevant Hb :=
  repeat match goal with
         | |- context [sort_model (Some ?b) ?r ?k ?t] => rewrite (sort_model_chunked b r k t Hb)
         end.

Section BS.
  Variable b : nat.
  Hypothesis Hb : (1 <= b)%nat.

  Lemma dedup_bs op key pre t : dedup_model op key pre (Some b) t = dedup_model op key pre None t.
  Proof. unfold dedup_model, dedup_source. destruct pre; auto. bs_irrelevant Hb. reflexivity. Qed.

  Lemma setop_bs op pre ta tb : setop_model op pre (Some b) ta tb = setop_model op pre None ta tb.
  Proof. unfold setop_model. destruct op, pre; auto; bs_irrelevant Hb; reflexivity. Qed.

  Lemma recordcomplement_bs strict ta tb : recordcomplement_model strict (Some b) ta tb = recordcomplement_model strict None ta tb.
  Proof. unfold recordcomplement_model. destruct (same_field_set _ _); auto.
         destruct (cut_model _ _ _) as [bv [e|]]; auto. apply setop_bs. Qed.

  Lemma join_bs kind lkey rkey pre missing lp rp l r :
    join_model kind lkey rkey pre missing lp rp (Some b) l r = join_model kind lkey rkey pre missing lp rp None l r.
  Proof. unfold join_model, sorted_or. destruct pre; auto. bs_irrelevant Hb. reflexivity. Qed.

  Lemma antijoin_bs lkey rkey pre l r : antijoin_model lkey rkey pre (Some b) l r = antijoin_model lkey rkey pre None l r.
  Proof. unfold antijoin_model, sorted_or. destruct pre; auto. bs_irrelevant Hb. reflexivity. Qed.

  Lemma mergesort_bs key rev pre missing header ts :
    mergesort_model key rev pre missing header (Some b) ts = mergesort_model key rev pre missing header None ts.
  Proof.
    unfold mergesort_model. destruct pre; auto.
    assert (E : map (fun t => if false then (t, None) else sort_model (Some b) rev key t) ts
                = map (fun t => if false then (t, None) else sort_model None rev key t) ts).
    { apply map_ext. intros t. apply sort_model_chunked. exact Hb. }
    rewrite E. reflexivity.
  Qed.

  Lemma simple_aggregate_bs key agg value field pre t :
    simple_aggregate_model key agg value field pre (Some b) t = simple_aggregate_model key agg value field pre None t.
  Proof. unfold simple_aggregate_model, sorted_unless. destruct pre; auto. bs_irrelevant Hb. reflexivity. Qed.

  Lemma multi_aggregate_bs key aggs pre t :
    multi_aggregate_model key aggs pre (Some b) t = multi_aggregate_model key aggs pre None t.
  Proof. unfold multi_aggregate_model, sorted_unless. destruct pre; auto. bs_irrelevant Hb. reflexivity. Qed.

  Lemma rowreduce_bs key red header pre t :
    rowreduce_model key red header pre (Some b) t = rowreduce_model key red header pre None t.
  Proof. unfold rowreduce_model, sorted_unless. destruct pre; auto. bs_irrelevant Hb. reflexivity. Qed.

  Lemma mergeduplicates_bs key missing pre t :
    mergeduplicates_model key missing pre (Some b) t = mergeduplicates_model key missing pre None t.
  Proof. unfold mergeduplicates_model, sorted_unless. destruct pre; auto. bs_irrelevant Hb. reflexivity. Qed.

  Lemma fold_bs key f value pre t : fold_model key f value pre (Some b) t = fold_model key f value pre None t.
  Proof. unfold fold_model, sorted_unless. destruct pre; auto. bs_irrelevant Hb. reflexivity. Qed.
End BS.

(* presorted=True on a table already sorted by the key: the sort it skips would have been the identity *)
Lemma sort_model_sorted_id key hdr rows idx :
  key_indices hdr key = Ok idx -> idx <> [] ->
  StronglySorted (fun r1 r2 => row_leb false idx r1 r2 = true) rows ->
  sort_model None false key (hdr :: rows) = (hdr :: rows, None).
Proof.
  intros Hk Hne Hs. unfold sort_model. rewrite Hk. destruct idx; [contradiction|].
  rewrite sort_data_idem by exact Hs. reflexivity.
Qed.

Lemma dedup_presorted op key hdr rows idx :
  key_indices hdr key = Ok idx -> idx <> [] ->
  StronglySorted (fun r1 r2 => row_leb false idx r1 r2 = true) rows ->
  dedup_model op key true None (hdr :: rows) = dedup_model op key false None (hdr :: rows).
Proof.
  intros Hk Hne Hs. unfold dedup_model, dedup_source.
  rewrite (sort_model_sorted_id key hdr rows idx Hk Hne Hs). reflexivity.
Qed.

Lemma rowreduce_presorted key red header hdr rows idx :
  key_indices hdr (Some key) = Ok idx -> idx <> [] ->
  StronglySorted (fun r1 r2 => row_leb false idx r1 r2 = true) rows ->
  rowreduce_model key red header true None (hdr :: rows) = rowreduce_model key red header false None (hdr :: rows).
Proof.
  intros Hk Hne Hs. unfold rowreduce_model, sorted_unless.
  rewrite (sort_model_sorted_id (Some key) hdr rows idx Hk Hne Hs). reflexivity.
Qed.
