(* MergesortFacts.v — mergesort = sort of the concatenation.
   _shortlistmergesorted as written (a shortlist of head rows, min()/max() scanned left to right, the winner's iterator advanced
   or removed) delivers, over individually sorted inputs, exactly the stable sort of the concatenated inputs: ties go to the
   earlier table and keep table order. *)
From Verif Require Import PyVal Rows Order CmpFacts ComparableGen ComparableFacts OrderTools AsIndicesGen Sort SortFacts.
From Coq Require Import Lia Permutation Sorted.

Section Generic.
  Context {A : Type} (leb : A -> A -> bool).
  Hypothesis leb_total : forall x y, leb x y = true \/ leb y x = true.
  Hypothesis leb_trans : forall x y z, leb x y = true -> leb y z = true -> leb x z = true.

  (* min()/max() replace the candidate only for a strictly better item *)
  Definition better (x best : A) : option bool := Some (negb (leb best x)).

  (* the first minimal element and its position, right to left, ties to the left *)
  Fixpoint rargmin (h : A) (t : list A) : A * nat :=
    match t with
    | [] => (h, O)
    | y :: t' => let '(m, j) := rargmin y t' in if leb h m then (h, O) else (m, S j)
    end.

  Lemma scan_best_is_rargmin l : forall best besti i,
    scan_best better best besti i l
    = Ok (match l with
          | [] => besti
          | y :: t => let '(m, j) := rargmin y t in if leb best m then besti else (i + j)%nat
          end).
  Proof.
    induction l as [|x t IH]; intros best besti i; [reflexivity|].
    cbn [scan_best]. unfold better at 1. destruct (leb best x) eqn:Ebx; cbn [negb].
    - rewrite IH. f_equal. destruct t as [|y t'].
      + cbn [rargmin]. rewrite Ebx. reflexivity.
      + cbn [rargmin]. destruct (rargmin y t') as [m j]. destruct (leb x m) eqn:Exm.
        * rewrite Ebx. rewrite (leb_trans best x m Ebx Exm). reflexivity.
        * destruct (leb best m); [reflexivity|]. lia.
    - rewrite IH. f_equal. destruct t as [|y t'].
      + cbn [rargmin]. rewrite Ebx. lia.
      + cbn [rargmin]. destruct (rargmin y t') as [m j]. destruct (leb x m) eqn:Exm.
        * rewrite Ebx. lia.
        * assert (Ebm : leb best m = false).
          { destruct (leb best m) eqn:Ebm; [|reflexivity].
            assert (Hmx : leb m x = true) by (destruct (leb_total x m); congruence).
            rewrite (leb_trans best m x Ebm Hmx) in Ebx. discriminate. }
          rewrite Ebm. lia.
  Qed.

  Definition all_nonempty (runs : list (list A)) : Prop := Forall (fun r => r <> []) runs.

  (* the k-way selection of SortFacts and the shortlist scan pick the same run *)
  Lemma select_is_rargmin h0 r0 rest : all_nonempty rest ->
    let '(m, j) := rargmin h0 (map (fun r => hd h0 r) rest) in
    exists tl_j, nth_error ((h0 :: r0) :: rest) j = Some (m :: tl_j)
              /\ select leb ((h0 :: r0) :: rest) = Some (m, set_nth j tl_j ((h0 :: r0) :: rest)).
  Proof.
    revert h0 r0. induction rest as [|r rest IH]; intros h0 r0 Hne.
    - cbn. exists r0. split; reflexivity.
    - inversion Hne as [|? ? Hr Hrest]; subst. destruct r as [|h1 r1]; [congruence|].
      cbn [map hd rargmin].
      specialize (IH h1 r1 Hrest).
      (* hd h0 and hd h1 agree on non-empty runs *)
      assert (Ehd : map (fun r => hd h0 r) rest = map (fun r => hd h1 r) rest).
      { apply map_ext_in. intros a Ha. rewrite Forall_forall in Hrest. specialize (Hrest a Ha). destruct a; [congruence|reflexivity]. }
      rewrite Ehd. destruct (rargmin h1 (map (fun r => hd h1 r) rest)) as [m j].
      destruct IH as [tl_j [Hnth Hsel]].
      change (select leb ((h0 :: r0) :: (h1 :: r1) :: rest))
        with (match select leb ((h1 :: r1) :: rest) with
              | None => Some (h0, [r0])
              | Some (y, rest') => if leb h0 y then Some (h0, r0 :: (h1 :: r1) :: rest) else Some (y, (h0 :: r0) :: rest')
              end).
      rewrite Hsel. destruct (leb h0 m).
      + exists r0. split; reflexivity.
      + exists tl_j. split; [exact Hnth|reflexivity].
  Qed.

  Lemma mergeall_set_nth_nil j (runs : list (list A)) :
    mergeall leb (set_nth j [] runs) = mergeall leb (remove_nth j runs).
  Proof.
    revert j. induction runs as [|r runs IH]; intros j; [destruct j; reflexivity|].
    destruct j as [|j]; cbn [set_nth remove_nth].
    - unfold mergeall. cbn [fold_right]. apply merge2_nil_l.
    - unfold mergeall in *. cbn [fold_right]. rewrite IH. reflexivity.
  Qed.

  Lemma total_len_set_nth j x tl_j (runs : list (list A)) :
    nth_error runs j = Some (x :: tl_j) -> total_len runs = S (total_len (set_nth j tl_j runs)).
  Proof.
    revert j. induction runs as [|r runs IH]; intros j H; [destruct j; discriminate|].
    destruct j as [|j]; cbn [nth_error set_nth] in *; unfold total_len in *; cbn [fold_right] in *.
    - inversion H; subst. cbn [length]. lia.
    - rewrite (IH j H). lia.
  Qed.

  Lemma total_len_remove_nth j x (runs : list (list A)) :
    nth_error runs j = Some [x] -> total_len runs = S (total_len (remove_nth j runs)).
  Proof.
    revert j. induction runs as [|r runs IH]; intros j H; [destruct j; discriminate|].
    destruct j as [|j]; cbn [nth_error remove_nth] in *; unfold total_len in *; cbn [fold_right] in *.
    - inversion H; subst. cbn [length]. lia.
    - rewrite (IH j H). lia.
  Qed.

  Lemma all_nonempty_set_nth j y tl_j (runs : list (list A)) :
    all_nonempty runs -> all_nonempty (set_nth j (y :: tl_j) runs).
  Proof.
    revert j. induction runs as [|r runs IH]; intros j H; [destruct j; constructor|].
    inversion H; subst. destruct j; cbn [set_nth]; constructor; auto; try discriminate. apply IH; assumption.
  Qed.

  Lemma all_nonempty_remove_nth j (runs : list (list A)) : all_nonempty runs -> all_nonempty (remove_nth j runs).
  Proof.
    revert j. induction runs as [|r runs IH]; intros j H; [destruct j; constructor|].
    inversion H; subst. destruct j; cbn [remove_nth]; auto. constructor; auto. apply IH; assumption.
  Qed.

  (* the loop: every step emits the head that the k-way merge emits *)
  Theorem shortlist_merge_is_mergeall fuel : forall runs acc,
    all_nonempty runs -> (total_len runs < fuel)%nat ->
    shortlist_merge better fuel runs acc = (rev acc ++ mergeall leb runs, None).
  Proof.
    induction fuel as [|f IH]; intros runs acc Hne Hlen; [lia|].
    cbn [shortlist_merge]. destruct runs as [|r0 rest].
    - cbn. rewrite app_nil_r. reflexivity.
    - inversion Hne as [|? ? Hr0 Hrest]; subst. destruct r0 as [|h0 r0]; [congruence|].
      cbn [tl]. rewrite scan_best_is_rargmin.
      pose proof (select_is_rargmin h0 r0 rest Hrest) as Hsel.
      assert (Ei : match map (fun r => hd h0 r) rest with
                   | [] => O
                   | y :: t => let '(m, j) := rargmin y t in if leb h0 m then O else (1 + j)%nat
                   end = snd (rargmin h0 (map (fun r => hd h0 r) rest))).
      { destruct (map (fun r => hd h0 r) rest) as [|y t]; [reflexivity|].
        cbn [rargmin]. destruct (rargmin y t) as [m j]. destruct (leb h0 m); reflexivity. }
      rewrite Ei. destruct (rargmin h0 (map (fun r => hd h0 r) rest)) as [m j]. cbn [snd].
      destruct Hsel as [tl_j [Hnth Hs]]. rewrite Hnth.
      rewrite (select_some leb _ _ _ Hs).
      destruct tl_j as [|y tl_j].
      + rewrite IH.
        * rewrite mergeall_set_nth_nil. cbn [rev]. rewrite <- app_assoc. reflexivity.
        * apply all_nonempty_remove_nth. exact Hne.
        * rewrite (total_len_remove_nth j m _ Hnth) in Hlen. lia.
      + rewrite IH.
        * cbn [rev]. rewrite <- app_assoc. reflexivity.
        * apply all_nonempty_set_nth. exact Hne.
        * rewrite (total_len_set_nth j m (y :: tl_j) _ Hnth) in Hlen. lia.
  Qed.

  Lemma mergeall_filter_nonempty (cs : list (list A)) : mergeall leb (filter nonempty cs) = mergeall leb cs.
  Proof.
    induction cs as [|c cs IH]; [reflexivity|]. destruct c as [|x c]; cbn [filter nonempty].
    - unfold mergeall in *. cbn [fold_right]. rewrite merge2_nil_l. exact IH.
    - unfold mergeall in *. cbn [fold_right]. rewrite IH. reflexivity.
  Qed.

  Lemma filter_nonempty_all (cs : list (list A)) : all_nonempty (filter nonempty cs).
  Proof.
    induction cs as [|c cs IH]; [constructor|]. destruct c; cbn; auto. constructor; auto. discriminate.
  Qed.

  (* mergesort over individually sorted inputs = the stable sort of their concatenation *)
  Theorem mergesort_is_sort_of_cat (cs : list (list A)) :
    let runs := filter nonempty (map (pysort leb) cs) in
    shortlist_merge better (S (total_len runs)) runs [] = (pysort leb (concat cs), None).
  Proof.
    cbv zeta. rewrite shortlist_merge_is_mergeall; [|apply filter_nonempty_all|lia].
    cbn [rev app]. rewrite mergeall_filter_nonempty. rewrite (mergeall_pysort leb leb_total leb_trans). reflexivity.
  Qed.

  (* ... and over presorted inputs *)
  Theorem mergesort_presorted (cs : list (list A)) : Forall (StronglySorted (lebP leb)) cs ->
    let runs := filter nonempty cs in
    shortlist_merge better (S (total_len runs)) runs [] = (pysort leb (concat cs), None).
  Proof.
    intros Hs. cbv zeta.
    assert (E : cs = map (pysort leb) cs).
    { induction Hs as [|c cs Hc _ IH]; [reflexivity|]. cbn [map]. rewrite <- IH. rewrite pysort_sorted_id; auto. }
    rewrite E at 1 2. apply mergesort_is_sort_of_cat.
  Qed.
End Generic.

(* the keyed comparisons of itermergesort are `better` for the key order of sort() *)
Lemma keyed_better (reverse : bool) idx (x best : row) :
  (if reverse then Some (cgt (getkey idx x) (getkey idx best)) else Some (clt (getkey idx x) (getkey idx best)))
  = better (row_leb reverse idx) x best.
Proof.
  unfold better, row_leb. destruct reverse; rewrite Bool.negb_involutive; [|reflexivity].
  destruct (derived_ops (getkey idx x) (getkey idx best)) as (_ & H & _). rewrite H. reflexivity.
Qed.

Lemma shortlist_merge_ext {A} (b1 b2 : A -> A -> option bool) : (forall x y, b1 x y = b2 x y) ->
  forall fuel runs acc, shortlist_merge b1 fuel runs acc = shortlist_merge b2 fuel runs acc.
Proof.
  intros Hb. assert (Hs : forall l best besti i, scan_best b1 best besti i l = scan_best b2 best besti i l).
  { induction l as [|x t IH]; intros; cbn; [reflexivity|]. rewrite Hb. destruct (b2 x best) as [[|]|]; auto. }
  induction fuel as [|f IH]; intros runs acc; [reflexivity|].
  cbn [shortlist_merge]. destruct runs as [|[|h0 r0] rest]; try reflexivity.
  rewrite Hs. destruct (scan_best b2 h0 0 1 (map (fun r => hd h0 r) (tl ((h0 :: r0) :: rest)))) as [i|e]; [|reflexivity].
  destruct (nth_error ((h0 :: r0) :: rest) i) as [[|x [|y t]]|]; try reflexivity; apply IH.
Qed.

(* the data path of mergesort(key=..., reverse=..., buffersize=...) over tables with a common header: each table's rows
   sorted (any buffersize), empty inputs dropped, then the shortlist merge *)
Theorem keyed_mergesort_is_sort_of_cat (reverse : bool) idx (bss : list (option nat)) (tabs : list (list row)) :
  Forall (fun bs => forall b, bs = Some b -> (1 <= b)%nat) bss -> length bss = length tabs ->
  let leb := row_leb reverse idx in
  let sorted := map (fun p => sort_data leb (fst p) (snd p)) (combine bss tabs) in
  let runs := filter nonempty sorted in
  shortlist_merge (fun x best => if reverse then Some (cgt (getkey idx x) (getkey idx best))
                                 else Some (clt (getkey idx x) (getkey idx best)))
                  (S (total_len runs)) runs []
  = (sort_data leb None (concat tabs), None).
Proof.
  intros Hb Hlen leb sorted runs.
  rewrite (shortlist_merge_ext _ (better leb)) by (intros; apply keyed_better).
  assert (E : sorted = map (pysort leb) tabs).
  { unfold sorted. clear runs sorted. revert tabs Hlen. induction Hb as [|bs bss Hbs _ IH]; intros tabs Hlen.
    - destruct tabs; [reflexivity|discriminate].
    - destruct tabs as [|t tabs]; [discriminate|]. cbn [combine map fst snd]. rewrite IH by (cbn in Hlen; lia).
      f_equal. destruct bs as [b|]; [|reflexivity].
      apply sort_data_chunked; [apply row_leb_total | apply row_leb_trans | apply Hbs; reflexivity]. }
  unfold runs. rewrite E.
  apply (mergesort_is_sort_of_cat leb (row_leb_total reverse idx) (row_leb_trans reverse idx)).
Qed.
