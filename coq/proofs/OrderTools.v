(* OrderTools.v — the facts about clt / ceq / cgt (regenerated Comparable operators) used by the merge proofs. *)
From Verif Require Import PyVal Order CmpFacts ComparableGen ComparableFacts.

Lemma clt_not_ceq a b : clt a b = true -> ceq a b = false.
Proof. intros H. destruct (trichotomy a b) as [(A&B&C)|[(A&B&C)|(A&B&C)]]; congruence. Qed.

Lemma clt_not_ceq' a b : clt a b = true -> ceq b a = false.
Proof. intros H. rewrite ceq_sym. apply clt_not_ceq. exact H. Qed.

Lemma cgt_is_flip a b : cgt a b = clt b a.
Proof. apply derived_ops. Qed.

Lemma not_lt_not_gt_eq a b : clt a b = false -> clt b a = false -> ceq a b = true.
Proof. intros H1 H2. destruct (trichotomy a b) as [(A&B&C)|[(A&B&C)|(A&B&C)]]; congruence. Qed.

Lemma ceq_clt_l a a' b : ceq a a' = true -> clt a b = clt a' b.
Proof. intros H. apply (ceq_congr a a' b H). Qed.
Lemma ceq_clt_r a a' b : ceq a a' = true -> clt b a = clt b a'.
Proof. intros H. apply (ceq_congr a a' b H). Qed.
Lemma ceq_ceq_l a a' b : ceq a a' = true -> ceq a b = ceq a' b.
Proof. intros H. apply (ceq_congr a a' b H). Qed.
Lemma ceq_ceq_r a a' b : ceq a a' = true -> ceq b a = ceq b a'.
Proof. intros H. rewrite (ceq_sym b a), (ceq_sym b a'). apply ceq_ceq_l. exact H. Qed.

(* a < b, b <= c  ->  a < c *)
Lemma clt_le_trans a b c : clt a b = true -> clt c b = false -> clt a c = true.
Proof.
  intros H1 H2. destruct (trichotomy b c) as [(A&B&C)|[(A&B&C)|(A&B&C)]]; try congruence.
  - eapply clt_trans; eauto.
  - rewrite <- (ceq_clt_r b c a B). exact H1.
Qed.

(* a <= b, b < c -> a < c *)
Lemma cle_lt_trans a b c : clt b a = false -> clt b c = true -> clt a c = true.
Proof.
  intros H1 H2. destruct (trichotomy a b) as [(A&B&C)|[(A&B&C)|(A&B&C)]]; try congruence.
  - eapply clt_trans; eauto.
  - rewrite (ceq_clt_l a b c B). exact H2.
Qed.

Lemma cle_clt a b : cle a b = negb (clt b a).
Proof. apply derived_ops. Qed.
