(* DedupFacts.v — the previous/current loops of petl.transform.dedup, read as operations on the maximal
   runs of adjacent equal keys. *)
From Verif Require Import PyVal Rows Dedup.
From Coq Require Import Lia Permutation.
Open Scope nat_scope.

Section Runs.
  Context {A : Type} (eqb : A -> A -> bool).      (* eqb prev curr : the loops' `kprev == kcurr` *)

  (* maximal blocks of adjacent-equal elements *)
  Fixpoint runs (l : list A) : list (list A) :=
    match l with
    | [] => []
    | x :: t => match runs t with
                | (y :: r) :: rs => if eqb x y then (x :: y :: r) :: rs else [x] :: (y :: r) :: rs
                | _ => [[x]]
                end
    end.

  Lemma runs_cons x t :
    runs (x :: t) = match runs t with
                    | (y :: r) :: rs => if eqb x y then (x :: y :: r) :: rs else [x] :: (y :: r) :: rs
                    | _ => [[x]]
                    end.
  Proof. reflexivity. Qed.

  Lemma runs_cons_shape x t : exists r rs, runs (x :: t) = (x :: r) :: rs.
  Proof.
    simpl. destruct (runs t) as [|[|y r] rs]; eauto. destruct (eqb x y); eauto.
  Qed.

  Lemma runs_concat l : concat (runs l) = l.
  Proof.
    induction l as [|x t IH]; simpl; auto.
    destruct (runs t) as [|[|y r] rs] eqn:E; simpl in *.
    - subst. reflexivity.
    - destruct t; [reflexivity|]. destruct (runs_cons_shape a t) as (r' & rs' & H). congruence.
    - destruct (eqb x y); simpl; rewrite <- IH; reflexivity.
  Qed.

  (* error-free versions of the loops *)
  Fixpoint dup_pure (prev : A) (py : bool) (rows : list A) : list A :=
    match rows with
    | [] => []
    | r :: t => if eqb prev r then (if py then [] else [prev]) ++ r :: dup_pure r true t
                else dup_pure r false t
    end.

  Fixpoint uniq_pure (prev : A) (pne : bool) (rows : list A) : list A :=
    match rows with
    | [] => if pne then [prev] else []
    | c :: t => let cne := negb (eqb prev c) in
                (if pne && cne then [prev] else []) ++ uniq_pure c cne t
    end.

  Fixpoint distinct_pure (prev : option A) (rows : list A) : list A :=
    match rows with
    | [] => []
    | r :: t => (match prev with None => [r] | Some p => if eqb p r then [] else [r] end) ++ distinct_pure (Some r) t
    end.

  Definition big (r : list A) : bool := 1 <? length r.
  Definition single (r : list A) : bool := length r =? 1.

  Lemma big_cons2 x y r : big (x :: y :: r) = true.
  Proof. reflexivity. Qed.
  Lemma big_single1 x : big [x] = false /\ single [x] = true.
  Proof. split; reflexivity. Qed.
  Lemma single_cons2 x y r : single (x :: y :: r) = false.
  Proof. reflexivity. Qed.

  Lemma dup_pure_runs x py t :
    match runs (x :: t) with
    | first :: rest => dup_pure x py t = (if py then tl first else if big first then first else [])
                                         ++ concat (filter big rest)
    | [] => False
    end.
  Proof.
    revert x py. induction t as [|y t IH]; intros x py.
    - rewrite runs_cons. cbn [runs dup_pure filter concat tl]. destruct py; reflexivity.
    - specialize (IH y).
      rewrite (runs_cons x (y :: t)). destruct (runs_cons_shape y t) as (r & rs & E).
      rewrite E in *. cbn [dup_pure].
      destruct (eqb x y).
      + specialize (IH true). cbn [tl] in IH. rewrite IH. rewrite big_cons2. cbn [tl].
        destruct py; cbn [app]; rewrite ?app_comm_cons; reflexivity.
      + specialize (IH false). rewrite IH. cbn [filter concat tl].
        destruct (big_single1 x) as [Hb _]. rewrite Hb.
        replace (if py then [] else @nil A) with (@nil A) by (destruct py; reflexivity).
        cbn [app]. destruct (big (y :: r)); cbn [concat app]; reflexivity.
  Qed.

  Theorem duplicates_are_big_runs l :
    (match l with [] => [] | x :: t => dup_pure x false t end) = concat (filter big (runs l)).
  Proof.
    destruct l as [|x t]; auto.
    pose proof (dup_pure_runs x false t) as H.
    destruct (runs (x :: t)) as [|first rest]; [contradiction|].
    rewrite H. simpl. destruct (big first); reflexivity.
  Qed.

  Lemma uniq_pure_runs x pne t :
    match runs (x :: t) with
    | first :: rest => uniq_pure x pne t = (if pne && single first then first else []) ++ concat (filter single rest)
    | [] => False
    end.
  Proof.
    revert x pne. induction t as [|y t IH]; intros x pne.
    - rewrite runs_cons. cbn [runs uniq_pure filter concat]. destruct (big_single1 x) as [_ Hs]. rewrite Hs.
      destruct pne; reflexivity.
    - specialize (IH y).
      rewrite (runs_cons x (y :: t)). destruct (runs_cons_shape y t) as (r & rs & E).
      rewrite E in *. cbn [uniq_pure].
      destruct (eqb x y); cbn [negb].
      + specialize (IH false). rewrite IH. rewrite andb_false_r. cbn [andb app].
        rewrite single_cons2. rewrite andb_false_r. reflexivity.
      + specialize (IH true). rewrite IH. rewrite andb_true_r. cbn [andb].
        destruct (big_single1 x) as [_ Hs]. rewrite Hs. rewrite andb_true_r.
        cbn [filter concat]. destruct (single (y :: r)); reflexivity.
  Qed.

  Theorem unique_are_single_runs l :
    (match l with [] => [] | x :: t => uniq_pure x true t end) = concat (filter single (runs l)).
  Proof.
    destruct l as [|x t]; auto.
    pose proof (uniq_pure_runs x true t) as H.
    destruct (runs (x :: t)) as [|first rest]; [contradiction|].
    rewrite H. simpl. destruct (single first); reflexivity.
  Qed.

  Lemma distinct_pure_runs d x t :
    distinct_pure (Some x) t = map (hd d) (tl (runs (x :: t))).
  Proof.
    revert x. induction t as [|y t IH]; intros x; auto.
    specialize (IH y).
    rewrite (runs_cons x (y :: t)). destruct (runs_cons_shape y t) as (r & rs & E).
    rewrite E in *. cbn [distinct_pure].
    destruct (eqb x y); cbn [tl map app hd]; rewrite IH; cbn [tl]; reflexivity.
  Qed.

  Theorem distinct_are_run_heads l d :
    distinct_pure None l = map (hd d) (runs l).
  Proof.
    destruct l as [|x t]; auto.
    cbn [distinct_pure]. rewrite (distinct_pure_runs d).
    destruct (runs_cons_shape x t) as (r & rs & E). rewrite E. reflexivity.
  Qed.

  (* partition: big runs and single runs together are all rows *)
  Lemma runs_nonempty l : Forall (fun a : list A => a <> []) (runs l).
  Proof.
    induction l as [|x t IH]; simpl; auto.
    destruct (runs t) as [|[|y r] rs]; auto.
    - constructor; auto; discriminate.
    - constructor; auto; discriminate.
    - inversion IH; subst. destruct (eqb x y); repeat constructor; auto; discriminate.
  Qed.

  Lemma big_single_partition (rs : list (list A)) :
    Forall (fun a => a <> []) rs ->
    Permutation (concat (filter big rs) ++ concat (filter single rs)) (concat rs).
  Proof.
    induction 1 as [|a rs Ha _ IH]; simpl; auto.
    unfold big at 1, single at 1. destruct a as [|x [|y a']]; [contradiction| |]; simpl.
    - symmetry. apply Permutation_cons_app. symmetry. exact IH.
    - constructor. constructor. rewrite <- app_assoc. apply Permutation_app_head. exact IH.
  Qed.

  Theorem dup_unique_partition l :
    Permutation ((match l with [] => [] | x :: t => dup_pure x false t end)
                 ++ (match l with [] => [] | x :: t => uniq_pure x true t end)) l.
  Proof.
    rewrite duplicates_are_big_runs, unique_are_single_runs.
    rewrite big_single_partition by apply runs_nonempty. rewrite runs_concat. reflexivity.
  Qed.

  (* run lengths add up to the number of rows (the count column of distinct) *)
  Theorem run_lengths_sum l : fold_right (fun r n => length r + n) 0 (runs l) = length l.
  Proof.
    rewrite <- (runs_concat l) at 2. induction (runs l) as [|a rs IH]; simpl; auto.
    rewrite app_length, IH. reflexivity.
  Qed.
End Runs.

(* ---- the loops as written (optional keys) agree with the pure loops when every row has its key cells ---- *)
Section AsWritten.
  Variable gk : row -> option val.
  Variable k : row -> val.

  Definition eq_pc (p c : row) : bool := py_eq (k p) (k c).     (* kprev == kcurr *)
  Definition eq_cp (p c : row) : bool := py_eq (k c) (k p).     (* curr_key != prev_key, keys != previous_keys *)

  Lemma dup_loop_pure rows : forall prev py,
    (forall r, In r (prev :: rows) -> gk r = Some (k r)) ->
    dup_loop gk prev py rows = (dup_pure eq_pc prev py rows, None).
  Proof.
    induction rows as [|r t IH]; intros prev py H; cbn [dup_loop dup_pure]; auto.
    rewrite (H prev (or_introl eq_refl)), (H r (or_intror (or_introl eq_refl))).
    unfold eq_pc at 1. destruct (py_eq (k prev) (k r)).
    - rewrite IH by (intros x Hx; apply H; right; exact Hx). reflexivity.
    - apply IH. intros x Hx; apply H; right; exact Hx.
  Qed.

  Lemma uniq_loop_pure rows : forall prev pne,
    (forall r, In r rows -> gk r = Some (k r)) ->
    uniq_loop gk prev (k prev) pne rows = (uniq_pure eq_cp prev pne rows, None).
  Proof.
    induction rows as [|c t IH]; intros prev pne H; cbn [uniq_loop uniq_pure]; auto.
    rewrite (H c (or_introl eq_refl)).
    rewrite IH by (intros x Hx; apply H; right; exact Hx). reflexivity.
  Qed.

  Lemma distinct_loop_pure rows : forall prev,
    (forall r, In r rows -> gk r = Some (k r)) ->
    distinct_loop gk (option_map k prev) rows = (distinct_pure eq_cp prev rows, None).
  Proof.
    induction rows as [|r t IH]; intros prev H; cbn [distinct_loop distinct_pure]; auto.
    rewrite (H r (or_introl eq_refl)).
    specialize (IH (Some r)). cbn [option_map] in IH. rewrite IH by (intros x Hx; apply H; right; exact Hx).
    destruct prev as [p|]; cbn [option_map]; [unfold eq_cp; destruct (py_eq (k r) (k p))|]; reflexivity.
  Qed.
End AsWritten.

Lemma runs_ext {A} (e1 e2 : A -> A -> bool) l : (forall a b, e1 a b = e2 a b) -> runs e1 l = runs e2 l.
Proof.
  intros H. induction l as [|x t IH]; simpl; auto. rewrite IH.
  destruct (runs e2 t) as [|[|y r] rs]; auto. rewrite H. reflexivity.
Qed.

(* == is symmetric on the modelled values *)
From Verif Require Import Order CmpFacts.
Lemma is_eq_sym {A} (c : A -> A -> comparison) a b : c_antisym c a -> is_eq (c a b) = is_eq (c b a).
Proof. intros H. rewrite (H b). destruct (c a b); reflexivity. Qed.

Lemma py_eq_sym a b : py_eq a b = py_eq b a.
Proof.
  revert b. induction a as [ | k x | x | x | x | x | x | i l IH ] using val_ind'; intros b; destruct b; try reflexivity;
    cbn [py_eq native_scalar_eq].
  - apply is_eq_sym. apply xq_cmp_good.
  - unfold zl_eqb. apply is_eq_sym. apply zl_cmp_good.
  - unfold zl_eqb. apply is_eq_sym. apply zl_cmp_good.
  - apply Z.eqb_sym.
  - apply Z.eqb_sym.
  - apply Z.eqb_sym.
  - f_equal; [destruct i, islist; reflexivity|].
    revert l0. induction IH as [|x xs Hx _ IHl]; intros [|y ys]; auto.
    rewrite Hx, IHl. reflexivity.
Qed.

(* ---- statements used by props/C10.v ------------------------------------------------------------------- *)
Section Statements.
  Variable gk : row -> option val.
  Variable k : row -> val.
  Variable rows : list row.
  Hypothesis Hk : forall r, In r rows -> gk r = Some (k r).

  Let eqk := eq_pc k.

  Lemma eq_cp_pc : forall a b, eq_cp k a b = eq_pc k a b.
  Proof. intros a b. unfold eq_cp, eq_pc. apply py_eq_sym. Qed.

  Lemma duplicates_runs : iterduplicates_data gk rows = (concat (filter big (runs eqk rows)), None).
  Proof.
    unfold iterduplicates_data. destruct rows as [|r0 t] eqn:E; auto.
    rewrite (dup_loop_pure gk k) by (intros r Hr; apply Hk; exact Hr).
    f_equal. apply (duplicates_are_big_runs eqk (r0 :: t)).
  Qed.

  Lemma uniq_pure_ext {A} (e1 e2 : A -> A -> bool) (H : forall a b, e1 a b = e2 a b) l :
    forall p pne, uniq_pure e1 p pne l = uniq_pure e2 p pne l.
  Proof. induction l as [|c t IH]; intros p pne; simpl; auto. rewrite H, IH. reflexivity. Qed.

  Lemma distinct_pure_ext {A} (e1 e2 : A -> A -> bool) (H : forall a b, e1 a b = e2 a b) l :
    forall p, distinct_pure e1 p l = distinct_pure e2 p l.
  Proof. induction l as [|c t IH]; intros p; simpl; auto. rewrite IH. destruct p; auto. rewrite H. reflexivity. Qed.

  Lemma unique_runs : iterunique_data gk rows = (concat (filter single (runs eqk rows)), None).
  Proof.
    unfold iterunique_data. destruct rows as [|r0 t] eqn:E; auto.
    rewrite (Hk r0 (or_introl eq_refl)).
    rewrite (uniq_loop_pure gk k) by (intros r Hr; apply Hk; right; exact Hr).
    f_equal. rewrite (uniq_pure_ext _ _ eq_cp_pc). apply (unique_are_single_runs eqk (r0 :: t)).
  Qed.

  Lemma distinct_runs d : distinct_loop gk None rows = (map (hd d) (runs eqk rows), None).
  Proof.
    change (@None val) with (option_map k None). rewrite (distinct_loop_pure gk k rows None Hk).
    f_equal. rewrite (distinct_pure_ext _ _ eq_cp_pc). apply distinct_are_run_heads.
  Qed.

  Lemma dup_unique_partition_model :
    exists d u, iterduplicates_data gk rows = (d, None) /\ iterunique_data gk rows = (u, None)
                /\ Permutation (d ++ u) rows.
  Proof.
    exists (concat (filter big (runs eqk rows))), (concat (filter single (runs eqk rows))).
    split; [apply duplicates_runs|]. split; [apply unique_runs|].
    rewrite big_single_partition by apply runs_nonempty. rewrite runs_concat. reflexivity.
  Qed.
End Statements.
