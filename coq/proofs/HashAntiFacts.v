(* HashAntiFacts.v — hashantijoin returns exactly the left rows whose key is == to no right key, in left order (the header is the
   left header): the as-written loop of hashantijoin_model is a filter. *)
From Verif Require Import PyVal Rows ComparableGen AsIndicesGen Sort Basics Dedup Joins HashJoins.
From Coq Require Import Lia.
Open Scope Z_scope.

Definition anti_keep (lkind : list Z) (rkeys : list val) (lrow : row) : bool :=
  match raw_getkey lkind lrow with Some k => negb (py_in k rkeys) | None => false end.

Theorem hashantijoin_model_exact (lkey rkey : val) (lhdr rhdr : row) (L R : list row) (outt : table) :
  hashantijoin_model lkey rkey (lhdr :: L) (rhdr :: R) = (outt, None) ->
  exists lkind rkind rkeys,
    asindices lhdr lkey = Ok lkind /\ asindices rhdr rkey = Ok rkind /\
    all_some (map (raw_getkey rkind) R) = Some rkeys /\
    (forall lrow, In lrow L -> raw_getkey lkind lrow <> None) /\
    outt = lhdr :: filter (anti_keep lkind rkeys) L.
Proof.
  unfold hashantijoin_model.
  destruct (asindices lhdr lkey) as [lkind|e1] eqn:El; destruct (asindices rhdr rkey) as [rkind|e2] eqn:Er;
    try discriminate; try (destruct lkind; discriminate).
  destruct lkind as [|l0 lk]; [destruct rkind; discriminate|]. destruct rkind as [|r0 rk]; [discriminate|].
  destruct (all_some (map (raw_getkey (r0 :: rk)) R)) as [rkeys|] eqn:Ek; [|discriminate].
  match goal with |- (let '(o, e) := ?g ?l in _) = _ -> _ => set (go := g) end.
  destruct (go L) as [o e] eqn:Ego. intros H; inversion H; subst; clear H.
  exists (l0 :: lk), (r0 :: rk), rkeys. do 3 (split; [first [reflexivity|assumption]|]).
  revert o Ego. induction L as [|lrow t IH]; intros o Ego.
  - cbn in Ego. inversion Ego. split; [intros ? []|reflexivity].
  - cbn [go] in Ego. fold go in Ego. destruct (raw_getkey (l0 :: lk) lrow) as [k|] eqn:Ekk; [|discriminate].
    destruct (go t) as [o' e'] eqn:Et. inversion Ego; subst; clear Ego. destruct (IH o' eq_refl) as [Hn Ho].
    split; [intros x [<-|Hx]; [congruence|exact (Hn x Hx)]|].
    cbn [filter]. unfold anti_keep at 1. rewrite Ekk. inversion Ho as [Ho']. rewrite <- Ho'.
    destruct (py_in k rkeys); reflexivity.
Qed.
