(* HashAntiFacts.v — hashantijoin returns exactly the left rows whose key is == to no right key, in left order (the header is the
   left header): the as-written loop of hashantijoin_model is a filter. *)
From Verif Require Import PyVal Rows ComparableGen AsIndicesGen Sort Basics Dedup Joins HashJoins.
From Coq Require Import Lia.
Open Scope Z_scope.

Definition anti_keep (lkind : list Z) (rkeys : list val) (lrow : row) : bool :=
  match raw_getkey lkind lrow with Some k => negb (py_in k rkeys) | None => false end.

Theorem hashantijoin_model_exact (lkey rkey : val) (lhdr rhdr : row) (L R : list row) (outt : table) :
  hashantijoin_model lkey rkey (lhdr :: L) (rhdr :: R) = (outt, None) ->
  exists lkind rkind rkeys,
    asindices lhdr lkey = Ok lkind /\ asindices rhdr rkey = Ok rkind /\
    all_some (map (raw_getkey rkind) R) = Some rkeys /\
    (forall lrow, In lrow L -> raw_getkey lkind lrow <> None) /\
    outt = lhdr :: filter (anti_keep lkind rkeys) L.
Proof.
  unfold hashantijoin_model.
  destruct (asindices lhdr lkey) as [lkind|e1] eqn:El; destruct (asindices rhdr rkey) as [rkind|e2] eqn:Er;
    try discriminate; try (destruct lkind; discriminate).
  destruct lkind as [|l0 lk]; [destruct rkind; discriminate|]. destruct rkind as [|r0 rk]; [discriminate|].
  destruct (all_some (map (raw_getkey (r0 :: rk)) R)) as [rkeys|] eqn:Ek; [|discriminate].
  match goal with |- (let '(o, e) := ?g ?l in _) = _ -> _ => set (go := g) end.
  destruct (go L) as [o e] eqn:Ego. intros H; inversion H; subst; clear H.
  exists (l0 :: lk), (r0 :: rk), rkeys. do 3 (split; [first [reflexivity|assumption]|]).
  revert o Ego. induction L as [|lrow t IH]; intros o Ego.
  - cbn in Ego. inversion Ego. split; [intros ? []|reflexivity].
  - cbn [go] in Ego. fold go in Ego. destruct (raw_getkey (l0 :: lk) lrow) as [k|] eqn:Ekk; [|discriminate].
    destruct (go t) as [o' e'] eqn:Et. inversion Ego; subst; clear Ego. destruct (IH o' eq_refl) as [Hn Ho].
    split; [intros x [<-|Hx]; [congruence|exact (Hn x Hx)]|].
    cbn [filter]. unfold anti_keep at 1. rewrite Ekk. inversion Ho as [Ho']. rewrite <- Ho'.
    destruct (py_in k rkeys); reflexivity.
Qed.

(* hashlookupjoin's probe loop: exactly one output row per left row, in left order; each is the left row, unchanged, followed by
   the value cells of THE row the lookupone dictionary holds for its key (the first right row with that key, see
   C07_lookupone_keeps_first), or by one `missing` per right value field when the key is absent *)
Theorem hashlookupjoin_loop_exact (lkind rvind : list Z) (missing : val) (rl : pdict val) (L out : list row) :
  hashlookupjoin_loop lkind rvind missing rl L = (out, None) ->
  Forall2 (fun lrow o => exists k, raw_getkey lkind lrow = Some k /\
             o = lrow ++ match pd_get rl k with
                         | Some (VSeq _ rrow) => rgetv rvind missing rrow
                         | _ => map (fun _ => missing) rvind
                         end) L out.
Proof.
  revert out; induction L as [|lrow t IH]; intros out; cbn [hashlookupjoin_loop].
  - intros H; inversion H; constructor.
  - destruct (raw_getkey lkind lrow) as [k|] eqn:Ek; [|discriminate].
    destruct (hashlookupjoin_loop lkind rvind missing rl t) as [o e] eqn:Et. intros H; inversion H; subst; clear H.
    constructor; [|apply IH; reflexivity]. exists k. split; [exact Ek|].
    destruct (pd_get rl k) as [[| ? ? | ? | ? | ? | ? | ? | ? rrow]|]; reflexivity.
Qed.

Corollary hashlookupjoin_loop_count (lkind rvind : list Z) (missing : val) (rl : pdict val) (L out : list row) :
  hashlookupjoin_loop lkind rvind missing rl L = (out, None) -> length out = length L.
Proof.
  intros H. apply hashlookupjoin_loop_exact in H. induction H; cbn; congruence.
Qed.

(* hashrightjoin's probe loop: the output is the concatenation, in right order, of one block per right row: that row joined to ALL
   the left rows the lookup holds for its key, in left-table order (C07_lookup_groups_in_table_order), or the single padded
   right-only row when the key is absent *)
Theorem hashrightjoin_loop_exact (lhdr_len : nat) (lkind rkind rvind : list Z) (missing : val) (ll : pdict (list val))
    (R out : list row) :
  hashrightjoin_loop lhdr_len lkind rkind rvind missing ll R = (out, None) ->
  exists blocks, out = concat blocks /\
    Forall2 (fun rrow block => exists k, raw_getkey rkind rrow = Some k /\
               block = match pd_get ll k with
                       | Some lrows => map (fun lrow => lrow ++ rgetv rvind missing rrow) (rows_of_vals lrows)
                       | None => join_right_only lhdr_len lkind rkind rvind missing [rrow]
                       end) R blocks.
Proof.
  revert out; induction R as [|rrow t IH]; intros out; cbn [hashrightjoin_loop].
  - intros H; inversion H. exists []. split; [reflexivity|constructor].
  - destruct (raw_getkey rkind rrow) as [k|] eqn:Ek; [|discriminate].
    destruct (hashrightjoin_loop lhdr_len lkind rkind rvind missing ll t) as [o e] eqn:Et. intros H; inversion H; subst; clear H.
    destruct (IH o eq_refl) as [blocks [-> Hf]].
    eexists (_ :: blocks). split; [reflexivity|]. constructor; [|exact Hf]. exists k. split; [exact Ek|reflexivity].
Qed.
