(* MergeFacts.v — the two-pointer merges of petl.transform.setops (itercomplement, iterintersection) compute, on inputs
   sorted by the Comparable order, the same multisets as the Counter-based hash variants: multiset difference, its strict
   form, and multiset intersection. *)
From Verif Require Import PyVal Rows Order CmpFacts ComparableGen ComparableFacts SortSpec SetOps SetSpec DedupFacts SetFacts.
From Coq Require Import Lia Sorted Bool.
Open Scope Z_scope.

Definition rcmp (a b : row) : comparison := vcmp (VSeq false a) (VSeq false b).

Lemma row_clt_rcmp a b : row_clt a b = is_lt (rcmp a b).
Proof. unfold row_clt, rcmp. rewrite clt_is_vlt. reflexivity. Qed.

Lemma rcmp_antisym a b : rcmp b a = CompOpp (rcmp a b).
Proof. apply vcmp_antisym. Qed.
Lemma rcmp_lt_trans a b d : rcmp a b = Lt -> rcmp b d = Lt -> rcmp a d = Lt.
Proof. apply vcmp_lt_trans. Qed.
Lemma rcmp_eq_l a b d : rcmp a b = Eq -> rcmp a d = rcmp b d.
Proof. apply vcmp_eq_l. Qed.
Lemma rcmp_eq_r a b d : rcmp b d = Eq -> rcmp a b = rcmp a d.
Proof. unfold rcmp. apply (proj2 (proj2 (proj2 (vcmp_good (VSeq false a))))). Qed.

(* a <= b *)
Definition rle (a b : row) : Prop := rcmp b a <> Lt.

Lemma lt_le_lt a b z : rcmp a b = Lt -> rle b z -> rcmp a z = Lt.
Proof.
  intros H Hle. unfold rle in Hle. rewrite (rcmp_antisym b z) in Hle.
  destruct (rcmp b z) eqn:E; cbn in Hle; try congruence.
  - rewrite <- (rcmp_eq_r a b z E). exact H.
  - apply (rcmp_lt_trans a b z H E).
Qed.

Section Compat.
  (* the rows in play: raw == coincides with the equivalence of the Comparable order (no list-valued cells) *)
  Variable ok : row -> Prop.
  Hypothesis Hcompat : forall a b, ok a -> ok b -> row_eq a b = is_eq (rcmp a b).

  Notation sortedl := (StronglySorted rle).

  Lemma sorted_tail a l : sortedl (a :: l) -> sortedl l.
  Proof. intros H. inversion H; assumption. Qed.
  Lemma sorted_head a l z : sortedl (a :: l) -> In z l -> rle a z.
  Proof. intros H Hz. inversion H as [|? ? _ Hall]; subst. rewrite Forall_forall in Hall. auto. Qed.

  Lemma rle_refl a : rle a a.
  Proof. unfold rle, rcmp. rewrite (c_refl vcmp (VSeq false a)); [discriminate|apply vcmp_good]. Qed.

  (* a row strictly below the head of a sorted list has no equal in it *)
  Lemma zcnt_below r a b l : ok r -> ok a -> Forall ok (b :: l) -> row_eq r a = true -> rcmp a b = Lt -> sortedl (b :: l) ->
    zcnt r (b :: l) = 0.
  Proof.
    intros Hr Ha Hl Hra Hab Hs.
    assert (Hz : forall z, In z (b :: l) -> row_eq r z = false).
    { intros z Hz. rewrite Forall_forall in Hl.
      assert (Haz : rcmp a z = Lt).
      { apply (lt_le_lt a b z Hab). destruct Hz as [<-|Hz]; [apply rle_refl | apply (sorted_head b l z Hs Hz)]. }
      rewrite (Hcompat r z Hr (Hl z Hz)).
      rewrite (Hcompat r a Hr Ha) in Hra. destruct (rcmp r a) eqn:E; try discriminate.
      rewrite (rcmp_eq_l r a z E), Haz. reflexivity. }
    unfold zcnt, cnt. replace (filter (row_eq r) (b :: l)) with (@nil row); [reflexivity|].
    symmetry. clear - Hz. induction (b :: l) as [|x t IH]; [reflexivity|]. cbn [filter]. rewrite (Hz x (or_introl eq_refl)). apply IH. intros z Hin. apply Hz. right. exact Hin.
  Qed.

  Lemma zcnt_nonneg r l : 0 <= zcnt r l.
  Proof. unfold zcnt. lia. Qed.

  Lemma zcnt_nil r : zcnt r [] = 0.
  Proof. reflexivity. Qed.

  Lemma inter_loop_eq a ra b rb : inter_loop a ra b rb =
    if row_clt a b then match ra with [] => [] | a' :: ra' => inter_loop a' ra' b rb end
    else if row_eq a b then a :: match ra, rb with a' :: ra', b' :: rb' => inter_loop a' ra' b' rb' | _, _ => [] end
    else match rb with [] => [] | b' :: rb' => inter_loop a ra b' rb' end.
  Proof. destruct ra, rb; reflexivity. Qed.

  (* the three outcomes of comparing the heads *)
  Lemma heads a b : ok a -> ok b ->
    (rcmp a b = Lt /\ row_clt a b = true /\ row_eq a b = false) \/
    (rcmp a b = Eq /\ row_clt a b = false /\ row_eq a b = true) \/
    (rcmp a b = Gt /\ rcmp b a = Lt /\ row_clt a b = false /\ row_eq a b = false).
  Proof.
    intros Ha Hb. rewrite row_clt_rcmp, (Hcompat a b Ha Hb). pose proof (rcmp_antisym a b) as An.
    destruct (rcmp a b); cbn in *; auto. right. right. auto.
  Qed.

  Lemma eq_class r a b : row_eq a b = true -> row_eq r a = row_eq r b.
  Proof. intros H. rewrite (row_eq_sym r a), (row_eq_sym r b). apply row_eq_cong. exact H. Qed.

  Theorem inter_counts r : ok r -> forall n ra rb a b, (length ra + length rb <= n)%nat ->
    sortedl (a :: ra) -> sortedl (b :: rb) -> Forall ok (a :: ra) -> Forall ok (b :: rb) ->
    zcnt r (inter_loop a ra b rb) = Z.min (zcnt r (a :: ra)) (zcnt r (b :: rb)).
  Proof.
    intros Hr. induction n as [|n IH]; intros ra rb a b Hn Hsa Hsb Hoa Hob.
    all: assert (Ha : ok a) by (inversion Hoa; assumption).
    all: assert (Hb : ok b) by (inversion Hob; assumption).
    all: rewrite inter_loop_eq.
    all: destruct (heads a b Ha Hb) as [(Hc & Hlt & Heq)|[(Hc & Hlt & Heq)|(Hc & Hc' & Hlt & Heq)]]; rewrite Hlt, ?Heq.
    all: pose proof (zcnt_nonneg r ra) as Pa; pose proof (zcnt_nonneg r rb) as Pb.
    (* n = 0: both tails are empty *)
    1-3: assert (ra = []) by (destruct ra; cbn in Hn; [reflexivity|lia]); assert (rb = []) by (destruct rb; cbn in Hn; [reflexivity|lia]); subst.
    - rewrite !zcnt_cons, !zcnt_nil.
      destruct (row_eq r a) eqn:E1, (row_eq r b) eqn:E2; try lia.
      exfalso. pose proof (zcnt_below r a b [] Hr Ha Hob E1 Hc Hsb) as Z0. rewrite zcnt_cons, E2, zcnt_nil in Z0. lia.
    - rewrite !zcnt_cons, !zcnt_nil, (eq_class r a b Heq). destruct (row_eq r b); lia.
    - rewrite !zcnt_cons, !zcnt_nil.
      destruct (row_eq r a) eqn:E1, (row_eq r b) eqn:E2; try lia.
      exfalso. pose proof (zcnt_below r b a [] Hr Hb Hoa E2 Hc' Hsa) as Z0. rewrite zcnt_cons, E1, zcnt_nil in Z0. lia.
    - (* a < b : a is dropped *)
      destruct ra as [|a' ra'].
      + rewrite zcnt_nil, (zcnt_cons r a []), zcnt_nil. destruct (row_eq r a) eqn:E1.
        * rewrite (zcnt_below r a b rb Hr Ha Hob E1 Hc Hsb). lia.
        * pose proof (zcnt_nonneg r (b :: rb)). lia.
      + rewrite (IH ra' rb a' b) by (cbn in *; try lia; auto; try (eapply sorted_tail; eassumption); try (inversion Hoa; assumption)).
        rewrite (zcnt_cons r a (a' :: ra')). destruct (row_eq r a) eqn:E1.
        * rewrite (zcnt_below r a b rb Hr Ha Hob E1 Hc Hsb). pose proof (zcnt_nonneg r (a' :: ra')). lia.
        * lia.
    - (* a == b : delivered once, both advance *)
      rewrite (zcnt_cons r a _), (zcnt_cons r a ra), (zcnt_cons r b rb), (eq_class r a b Heq).
      destruct ra as [|a' ra']; destruct rb as [|b' rb']; rewrite ?zcnt_nil.
      * destruct (row_eq r b); lia.
      * pose proof (zcnt_nonneg r (b' :: rb')). destruct (row_eq r b); lia.
      * pose proof (zcnt_nonneg r (a' :: ra')). destruct (row_eq r b); lia.
      * rewrite (IH ra' rb' a' b') by (cbn in *; try lia; auto; try (eapply sorted_tail; eassumption);
                                         try (inversion Hoa; assumption); try (inversion Hob; assumption)).
        destruct (row_eq r b); lia.
    - (* b < a : b is dropped *)
      destruct rb as [|b' rb'].
      + rewrite zcnt_nil, (zcnt_cons r b []), zcnt_nil. destruct (row_eq r b) eqn:E2.
        * rewrite (zcnt_below r b a ra Hr Hb Hoa E2 Hc' Hsa). lia.
        * pose proof (zcnt_nonneg r (a :: ra)). lia.
      + rewrite (IH ra rb' a b') by (cbn in *; try lia; auto; try (eapply sorted_tail; eassumption); try (inversion Hob; assumption)).
        rewrite (zcnt_cons r b (b' :: rb')). destruct (row_eq r b) eqn:E2.
        * rewrite (zcnt_below r b a ra Hr Hb Hoa E2 Hc' Hsa). pose proof (zcnt_nonneg r (b' :: rb')). lia.
        * lia.
  Qed.
  Lemma comp_loop_eq strict a ra b rb : comp_loop strict a ra b rb =
    if row_clt a b then a :: match ra with [] => [] | a' :: ra' => comp_loop strict a' ra' b rb end
    else if row_eq a b then
      match ra with
      | [] => []
      | a' :: ra' => if strict then comp_loop strict a' ra' b rb
                     else match rb with [] => a' :: ra' | b' :: rb' => comp_loop strict a' ra' b' rb' end
      end
    else match rb with [] => a :: ra | b' :: rb' => comp_loop strict a ra b' rb' end.
  Proof. destruct ra, rb; reflexivity. Qed.

  Ltac side IH := cbn in *; try lia; auto; try (eapply sorted_tail; eassumption);
                  try (match goal with H : Forall ok (_ :: _) |- _ => inversion H; assumption end).

  Theorem comp_counts r : ok r -> forall n ra rb a b, (length ra + length rb <= n)%nat ->
    sortedl (a :: ra) -> sortedl (b :: rb) -> Forall ok (a :: ra) -> Forall ok (b :: rb) ->
    zcnt r (comp_loop false a ra b rb) = Z.max 0 (zcnt r (a :: ra) - zcnt r (b :: rb)).
  Proof.
    intros Hr. induction n as [|n IH]; intros ra rb a b Hn Hsa Hsb Hoa Hob.
    all: assert (Ha : ok a) by (inversion Hoa; assumption).
    all: assert (Hb : ok b) by (inversion Hob; assumption).
    all: rewrite comp_loop_eq.
    all: destruct (heads a b Ha Hb) as [(Hc & Hlt & Heq)|[(Hc & Hlt & Heq)|(Hc & Hc' & Hlt & Heq)]]; rewrite Hlt, ?Heq.
    all: pose proof (zcnt_nonneg r ra) as Pa; pose proof (zcnt_nonneg r rb) as Pb.
    1-3: assert (ra = []) by (destruct ra; cbn in Hn; [reflexivity|lia]); assert (rb = []) by (destruct rb; cbn in Hn; [reflexivity|lia]); subst.
    - rewrite !zcnt_cons, !zcnt_nil. destruct (row_eq r a) eqn:E1, (row_eq r b) eqn:E2; try lia.
      exfalso. pose proof (zcnt_below r a b [] Hr Ha Hob E1 Hc Hsb) as Z0. rewrite zcnt_cons, E2, zcnt_nil in Z0. lia.
    - rewrite !zcnt_cons, !zcnt_nil, (eq_class r a b Heq). destruct (row_eq r b); lia.
    - rewrite !zcnt_cons, !zcnt_nil. destruct (row_eq r a) eqn:E1, (row_eq r b) eqn:E2; try lia.
      exfalso. pose proof (zcnt_below r b a [] Hr Hb Hoa E2 Hc' Hsa) as Z0. rewrite zcnt_cons, E1, zcnt_nil in Z0. lia.
    - (* a < b : a is delivered *)
      rewrite (zcnt_cons r a _), (zcnt_cons r a ra).
      destruct ra as [|a' ra'].
      + rewrite zcnt_nil. destruct (row_eq r a) eqn:E1.
        * rewrite (zcnt_below r a b rb Hr Ha Hob E1 Hc Hsb). lia.
        * pose proof (zcnt_nonneg r (b :: rb)). lia.
      + rewrite (IH ra' rb a' b) by side IH.
        destruct (row_eq r a) eqn:E1.
        * rewrite (zcnt_below r a b rb Hr Ha Hob E1 Hc Hsb). pose proof (zcnt_nonneg r (a' :: ra')). lia.
        * lia.
    - (* a == b : one copy of each is cancelled *)
      rewrite (zcnt_cons r a ra), (zcnt_cons r b rb), (eq_class r a b Heq).
      destruct ra as [|a' ra'].
      + rewrite !zcnt_nil. destruct (row_eq r b); lia.
      + destruct rb as [|b' rb'].
        * rewrite zcnt_nil. pose proof (zcnt_nonneg r (a' :: ra')). destruct (row_eq r b); lia.
        * rewrite (IH ra' rb' a' b') by side IH. destruct (row_eq r b); lia.
    - (* b < a : b is skipped *)
      destruct rb as [|b' rb'].
      + rewrite (zcnt_cons r b []), zcnt_nil. destruct (row_eq r b) eqn:E2.
        * rewrite (zcnt_below r b a ra Hr Hb Hoa E2 Hc' Hsa). lia.
        * pose proof (zcnt_nonneg r (a :: ra)). lia.
      + rewrite (IH ra rb' a b') by side IH.
        rewrite (zcnt_cons r b (b' :: rb')). destruct (row_eq r b) eqn:E2.
        * rewrite (zcnt_below r b a ra Hr Hb Hoa E2 Hc' Hsa). pose proof (zcnt_nonneg r (b' :: rb')). lia.
        * lia.
  Qed.

  Theorem comp_strict_counts r : ok r -> forall n ra rb a b, (length ra + length rb <= n)%nat ->
    sortedl (a :: ra) -> sortedl (b :: rb) -> Forall ok (a :: ra) -> Forall ok (b :: rb) ->
    zcnt r (comp_loop true a ra b rb) = if 0 <? zcnt r (b :: rb) then 0 else zcnt r (a :: ra).
  Proof.
    intros Hr. induction n as [|n IH]; intros ra rb a b Hn Hsa Hsb Hoa Hob.
    all: assert (Ha : ok a) by (inversion Hoa; assumption).
    all: assert (Hb : ok b) by (inversion Hob; assumption).
    all: rewrite comp_loop_eq.
    all: destruct (heads a b Ha Hb) as [(Hc & Hlt & Heq)|[(Hc & Hlt & Heq)|(Hc & Hc' & Hlt & Heq)]]; rewrite Hlt, ?Heq.
    all: pose proof (zcnt_nonneg r ra) as Pa; pose proof (zcnt_nonneg r rb) as Pb.
    1-3: assert (ra = []) by (destruct ra; cbn in Hn; [reflexivity|lia]); assert (rb = []) by (destruct rb; cbn in Hn; [reflexivity|lia]); subst.
    - rewrite !zcnt_cons, !zcnt_nil. destruct (row_eq r a) eqn:E1, (row_eq r b) eqn:E2; cbn; try lia.
      exfalso. pose proof (zcnt_below r a b [] Hr Ha Hob E1 Hc Hsb) as Z0. rewrite zcnt_cons, E2, zcnt_nil in Z0. lia.
    - rewrite !zcnt_cons, !zcnt_nil, (eq_class r a b Heq). destruct (row_eq r b); reflexivity.
    - rewrite !zcnt_cons, !zcnt_nil. destruct (row_eq r a) eqn:E1, (row_eq r b) eqn:E2; cbn; try lia.
      exfalso. pose proof (zcnt_below r b a [] Hr Hb Hoa E2 Hc' Hsa) as Z0. rewrite zcnt_cons, E1, zcnt_nil in Z0. lia.
    - rewrite (zcnt_cons r a _), (zcnt_cons r a ra).
      destruct ra as [|a' ra'].
      + rewrite zcnt_nil. destruct (row_eq r a) eqn:E1.
        * rewrite (zcnt_below r a b rb Hr Ha Hob E1 Hc Hsb). reflexivity.
        * destruct (0 <? zcnt r (b :: rb)); reflexivity.
      + rewrite (IH ra' rb a' b) by side IH.
        destruct (row_eq r a) eqn:E1.
        * rewrite (zcnt_below r a b rb Hr Ha Hob E1 Hc Hsb). reflexivity.
        * destruct (0 <? zcnt r (b :: rb)); lia.
    - rewrite (zcnt_cons r a ra), (zcnt_cons r b rb), (eq_class r a b Heq).
      destruct ra as [|a' ra'].
      + rewrite !zcnt_nil. destruct (row_eq r b); [|destruct (0 <? 0 + zcnt r rb); reflexivity].
        destruct (0 <? 1 + zcnt r rb) eqn:E; [reflexivity|]. apply Z.ltb_ge in E. lia.
      + rewrite (IH ra' rb a' b) by side IH. rewrite (zcnt_cons r b rb).
        destruct (row_eq r b).
        * destruct (0 <? 1 + zcnt r rb) eqn:E; [reflexivity|]. apply Z.ltb_ge in E. lia.
        * destruct (0 <? 0 + zcnt r rb); lia.
    - destruct rb as [|b' rb'].
      + rewrite (zcnt_cons r b []), zcnt_nil. destruct (row_eq r b) eqn:E2.
        * rewrite (zcnt_below r b a ra Hr Hb Hoa E2 Hc' Hsa). reflexivity.
        * reflexivity.
      + rewrite (IH ra rb' a b') by side IH.
        rewrite (zcnt_cons r b (b' :: rb')). destruct (row_eq r b) eqn:E2.
        * rewrite (zcnt_below r b a ra Hr Hb Hoa E2 Hc' Hsa). destruct (0 <? zcnt r (b' :: rb')), (0 <? 1 + zcnt r (b' :: rb')); reflexivity.
        * reflexivity.
  Qed.
End Compat.

(* ---- the statements about the two data streams ------------------------------------------------------------------------------ *)
Section Data.
  Variable ok : row -> Prop.
  Hypothesis Hcompat : forall a b, ok a -> ok b -> row_eq a b = is_eq (rcmp a b).
  Variables ra rb : list row.
  Hypothesis Hsa : StronglySorted rle ra.
  Hypothesis Hsb : StronglySorted rle rb.
  Hypothesis Hoa : Forall ok ra.
  Hypothesis Hob : Forall ok rb.
  Variable r : row.
  Hypothesis Hr : ok r.

  Theorem merge_complement_is_multiset_difference :
    zcnt r (itercomplement_data false ra rb) = Z.max 0 (zcnt r ra - zcnt r rb).
  Proof.
    unfold itercomplement_data. destruct ra as [|a ra']; [rewrite zcnt_nil; pose proof (zcnt_nonneg r rb); lia|].
    destruct rb as [|b rb']; [rewrite zcnt_nil; pose proof (zcnt_nonneg r (a :: ra')); lia|].
    apply (comp_counts ok Hcompat r Hr (length ra' + length rb')); auto.
  Qed.

  Theorem merge_complement_strict_spec :
    zcnt r (itercomplement_data true ra rb) = if 0 <? zcnt r rb then 0 else zcnt r ra.
  Proof.
    unfold itercomplement_data. destruct ra as [|a ra']; [rewrite zcnt_nil; destruct (0 <? zcnt r rb); reflexivity|].
    destruct rb as [|b rb']; [reflexivity|].
    apply (comp_strict_counts ok Hcompat r Hr (length ra' + length rb')); auto.
  Qed.

  Theorem merge_intersection_is_multiset_intersection :
    zcnt r (iterintersection_data ra rb) = Z.min (zcnt r ra) (zcnt r rb).
  Proof.
    unfold iterintersection_data. destruct ra as [|a ra']; [rewrite !zcnt_nil; pose proof (zcnt_nonneg r rb); lia|].
    destruct rb as [|b rb']; [rewrite !zcnt_nil; pose proof (zcnt_nonneg r (a :: ra')); lia|].
    apply (inter_counts ok Hcompat r Hr (length ra' + length rb')); auto.
  Qed.

  (* hence the sort-merge and the hash variants deliver the same multisets, and complement + intersection reassemble a *)
  Theorem merge_agrees_with_hash :
    zcnt r (itercomplement_data false ra rb) = zcnt r (hashcomp_loop false (cnt_of rb) ra) /\
    zcnt r (itercomplement_data true ra rb) = zcnt r (hashcomp_loop true (cnt_of rb) ra) /\
    zcnt r (iterintersection_data ra rb) = zcnt r (hashinter_loop (cnt_of rb) ra).
  Proof.
    rewrite merge_complement_is_multiset_difference, merge_complement_strict_spec, merge_intersection_is_multiset_intersection,
      hashcomplement_is_multiset_difference, hashcomplement_strict_spec, hashintersection_is_multiset_intersection. auto.
  Qed.

  Theorem merge_reassemble :
    zcnt r (itercomplement_data false ra rb) + zcnt r (iterintersection_data ra rb) = zcnt r ra.
  Proof.
    rewrite merge_complement_is_multiset_difference, merge_intersection_is_multiset_intersection.
    pose proof (zcnt_nonneg r rb). lia.
  Qed.
End Data.

(* ---- what sort(table) with key=None hands to the merges: rows of the header's width, sorted as wholes ------------------- *)
From Verif Require Import AsIndicesGen Sort SortFacts.
From Coq Require Import Permutation.
Local Open Scope Z_scope.

Lemma map_cells_zrange_gen (r : row) : forall (pre : list val),
  map (cell_or_default (pre ++ r)) (zrange (length r) (Z.of_nat (length pre))) = r.
Proof.
  induction r as [|x t IH]; intros pre; [reflexivity|]. cbn [length zrange map]. f_equal.
  - unfold cell_or_default, py_nth, zlen. rewrite app_length. cbn [length].
    replace (Z.of_nat (length pre) <? 0) with false by (symmetry; apply Z.ltb_ge; lia).
    replace ((Z.of_nat (length pre) <? 0) || (Z.of_nat (length pre + S (length t)) <=? Z.of_nat (length pre))) with false.
    + rewrite Nat2Z.id, nth_error_app2 by lia. rewrite Nat.sub_diag. reflexivity.
    + symmetry. apply orb_false_iff. split; [apply Z.ltb_ge; lia | apply Z.leb_gt; lia].
  - specialize (IH (pre ++ [x])). rewrite <- app_assoc in IH. cbn [app] in IH. rewrite app_length in IH. cbn [length] in IH.
    replace (Z.of_nat (length pre) + 1) with (Z.of_nat (length pre + 1)) by lia. exact IH.
Qed.

Lemma map_cells_zrange (r : row) : map (cell_or_default r) (zrange (length r) 0) = r.
Proof. exact (map_cells_zrange_gen r []). Qed.

Lemma zrange_length n : forall s, length (zrange n s) = n.
Proof. induction n as [|m IH]; intros s; cbn; auto. Qed.

Lemma getkey_multi idx r : (2 <= length idx)%nat -> getkey idx r = VSeq false (map (cell_or_default r) idx).
Proof. destruct idx as [|i [|j t]]; cbn [length]; intros H; try lia. reflexivity. Qed.

(* comparing whole rows through the key that sort(key=None) builds is comparing the rows *)
Lemma getkey_all_cmp n a b : length a = n -> length b = n ->
  vcmp (getkey (zrange n 0) a) (getkey (zrange n 0) b) = rcmp a b.
Proof.
  intros Ha Hb. unfold rcmp. rewrite vcmp_seq.
  destruct n as [|[|m]].
  - destruct a, b; try discriminate. reflexivity.
  - destruct a as [|x [|? ?]], b as [|y [|? ?]]; try discriminate. cbn [zrange getkey].
    change (cell_or_default [x] 0) with x. change (cell_or_default [y] 0) with y.
    cbn [lex]. destruct (vcmp x y); reflexivity.
  - rewrite !getkey_multi by (rewrite zrange_length; lia).
    rewrite <- Ha at 1. rewrite map_cells_zrange. rewrite <- Hb at 1. rewrite map_cells_zrange. apply vcmp_seq.
Qed.

Lemma StronglySorted_impl_in {A} (P Q : A -> A -> Prop) l :
  (forall x y, In x l -> In y l -> P x y -> Q x y) -> StronglySorted P l -> StronglySorted Q l.
Proof.
  intros H Hs. induction Hs as [|x t Hs IH Hall]; constructor.
  - apply IH. intros a b Ha Hb. apply H; right; assumption.
  - rewrite Forall_forall in *. intros y Hy. apply H; [left; reflexivity | right; exact Hy | apply Hall; exact Hy].
Qed.

Lemma sorted_whole n rows : Forall (fun r : row => length r = n) rows ->
  StronglySorted rle (sort_data (row_leb false (zrange n 0)) None rows).
Proof.
  intros Hw.
  pose proof (pysort_sorted _ (row_leb_total false (zrange n 0)) (row_leb_trans false (zrange n 0)) rows) as Hs.
  assert (Hlen : forall x, In x (sort_data (row_leb false (zrange n 0)) None rows) -> length x = n).
  { intros x Hx. rewrite Forall_forall in Hw. apply Hw. eapply Permutation_in; [apply sort_data_perm | exact Hx]. }
  eapply StronglySorted_impl_in; [|exact Hs].
  intros x y Hx Hy Hle. unfold lebP, row_leb in Hle. rewrite clt_is_vlt in Hle. unfold vlt in Hle.
  rewrite (getkey_all_cmp n y x (Hlen y Hy) (Hlen x Hx)) in Hle.
  unfold rle. intros E. rewrite E in Hle. discriminate.
Qed.

Lemma zcnt_perm r l1 l2 : Permutation l1 l2 -> zcnt r l1 = zcnt r l2.
Proof.
  intros H. unfold zcnt, cnt. f_equal.
  induction H as [|x a b _ IH|x y a|a b c _ IH1 _ IH2]; cbn [filter]; auto.
  - destruct (row_eq r x); cbn; auto.
  - destruct (row_eq r x), (row_eq r y); reflexivity.
  - congruence.
Qed.

(* complement / intersection of two rectangular tables, unsorted, through the model of the operator itself *)
Section EndToEnd.
  Variable ok : row -> Prop.
  Hypothesis Hcompat : forall a b, ok a -> ok b -> row_eq a b = is_eq (rcmp a b).
  Variables (ha hb : row) (ra rb : list row).
  Hypothesis Hwa : Forall (fun r : row => length r = length ha) ra.
  Hypothesis Hwb : Forall (fun r : row => length r = length hb) rb.
  Hypothesis Hna : ha <> [].
  Hypothesis Hnb : hb <> [].
  Hypothesis Hoa : Forall ok ra.
  Hypothesis Hob : Forall ok rb.

  Let sa := sort_data (row_leb false (zrange (length ha) 0)) None ra.
  Let sb := sort_data (row_leb false (zrange (length hb) 0)) None rb.

  Lemma ok_sorted (idx : list Z) l : Forall ok l -> Forall ok (sort_data (row_leb false idx) None l).
  Proof.
    intros H. rewrite Forall_forall in *. intros x Hx. apply H. eapply Permutation_in; [apply sort_data_perm | exact Hx].
  Qed.

  Lemma setop_model_unfold op : (match op with OpComplement _ | OpIntersection => True | _ => False end) ->
    setop_model op false None (ha :: ra) (hb :: rb) =
    (ha :: match op with OpComplement strict => itercomplement_data strict sa sb | _ => iterintersection_data sa sb end, None).
  Proof.
    intros Hop. unfold setop_model, sort_model, key_indices.
    destruct ha as [|x xs]; [contradiction|]. destruct hb as [|y ys]; [contradiction|].
    destruct op; try contradiction; reflexivity.
  Qed.

  Theorem complement_model_is_multiset_difference : forall r, ok r ->
    exists out, setop_model (OpComplement false) false None (ha :: ra) (hb :: rb) = (ha :: out, None) /\
                zcnt r out = Z.max 0 (zcnt r ra - zcnt r rb).
  Proof.
    intros r Hr. eexists. split; [apply (setop_model_unfold (OpComplement false) I)|].
    rewrite (merge_complement_is_multiset_difference ok Hcompat sa sb (sorted_whole _ _ Hwa) (sorted_whole _ _ Hwb)
               (ok_sorted _ _ Hoa) (ok_sorted _ _ Hob) r Hr).
    rewrite (zcnt_perm r sa ra (sort_data_perm false _ ra)), (zcnt_perm r sb rb (sort_data_perm false _ rb)). reflexivity.
  Qed.

  Theorem intersection_model_is_multiset_intersection : forall r, ok r ->
    exists out, setop_model OpIntersection false None (ha :: ra) (hb :: rb) = (ha :: out, None) /\
                zcnt r out = Z.min (zcnt r ra) (zcnt r rb).
  Proof.
    intros r Hr. eexists. split; [apply (setop_model_unfold OpIntersection I)|].
    rewrite (merge_intersection_is_multiset_intersection ok Hcompat sa sb (sorted_whole _ _ Hwa) (sorted_whole _ _ Hwb)
               (ok_sorted _ _ Hoa) (ok_sorted _ _ Hob) r Hr).
    rewrite (zcnt_perm r sa ra (sort_data_perm false _ ra)), (zcnt_perm r sb rb (sort_data_perm false _ rb)). reflexivity.
  Qed.
End EndToEnd.
