(* DictsFacts.v — fromdicts(dicts(t)) = t for a rectangular table with pairwise different text field names and at least one
   data row (the field names travel in the records, so a table without rows has none to offer). *)
From Verif Require Import PyVal Rows Order CmpFacts ComparableGen ComparableFacts OrderTools AsIndicesGen Sort SortFacts
     SetFacts DedupFacts Basics Reshape ReshapeFacts RecastFacts PivotFacts MergesortFacts MergesortModel.
From Coq Require Import Lia.
Open Scope Z_scope.

Lemma pad_to_same missing : forall (r : row) n, length r = n -> pad_to n missing r = r.
Proof. induction r as [|x t IH]; intros n H; subst n; cbn; [reflexivity|]. rewrite IH; reflexivity. Qed.

(* the record of a row: its cells under the field names, in field order *)
Lemma asdict_fold : forall (pairs d : list (val * val)),
  distinct_names (map fst d ++ map fst pairs) ->
  fold_left (fun d fv => let '(f, v) := fv in
                         if existsb (fun kv => py_eq (fst kv) f) d
                         then map (fun kv => if py_eq (fst kv) f then (fst kv, v) else kv) d
                         else d ++ [(f, v)]) pairs d = d ++ pairs.
Proof.
  induction pairs as [|[f v] t IH]; intros d Hd; [symmetry; apply app_nil_r|]. cbn [fold_left].
  assert (Hno : existsb (fun kv => py_eq (fst kv) f) d = false).
  { clear IH. cbn [map fst] in Hd. induction d as [|[g w] d' IHd]; [reflexivity|]. cbn [map fst app] in Hd.
    destruct Hd as (_ & Hall & Hd'). cbn [existsb fst]. rewrite Forall_forall in Hall.
    destruct (Hall f) as [H1 _]; [apply in_or_app; right; left; reflexivity|]. rewrite H1. apply IHd. exact Hd'. }
  rewrite Hno. rewrite IH.
  - rewrite <- app_assoc. reflexivity.
  - rewrite map_app. cbn [map fst]. rewrite <- app_assoc. exact Hd.
Qed.

Lemma map_fst_combine {A B} : forall (a : list A) (b : list B), length a = length b -> map fst (combine a b) = a.
Proof. induction a as [|x t IH]; intros [|y u] H; cbn in *; try discriminate; auto. rewrite IH; auto. Qed.

Lemma asdict_rect (flds : list val) (missing : val) (r : row) : distinct_names flds -> length r = length flds ->
  asdict flds missing r = combine flds r.
Proof.
  intros Hd Hl. unfold asdict. rewrite (pad_to_same missing r (length flds) Hl). rewrite asdict_fold; [reflexivity|].
  cbn [map app]. rewrite map_fst_combine by lia. exact Hd.
Qed.

(* looking a field up in the record of a row gives the row's cell *)
Lemma find_field : forall (flds : list val) (r : row) (j : nat) f v,
  distinct_names flds -> length r = length flds -> nth_error flds j = Some f -> nth_error r j = Some v ->
  exists f', find (fun kv : val * val => py_eq (fst kv) f) (combine flds r) = Some (f', v).
Proof.
  induction flds as [|g flds IH]; intros r j f v Hd Hl Hf Hv; [destruct j; discriminate|].
  destruct r as [|w r]; [discriminate|]. cbn in Hl. destruct Hd as (Hrefl & Hall & Hd). cbn [combine find fst].
  destruct j as [|j]; cbn in Hf, Hv.
  - inversion Hf; inversion Hv; subst. rewrite Hrefl. eexists; reflexivity.
  - assert (Hin : In f flds) by (eapply nth_error_In; eauto).
    rewrite Forall_forall in Hall. destruct (Hall f Hin) as [H0 _]. rewrite H0.
    apply (IH r j f v Hd); auto; lia.
Qed.

Lemma row_back (flds : list val) (missing : val) (r : row) : distinct_names flds -> length r = length flds ->
  map (fun f => match find (fun kv : val * val => py_eq (fst kv) f) (combine flds r) with
                | Some kv => snd kv | None => missing end) flds = r.
Proof.
  intros Hd Hl. apply nth_error_ext; [rewrite map_length; lia|]. intros j.
  destruct (nth_error flds j) as [f|] eqn:Ef.
  - rewrite (map_nth_error _ _ _ Ef). destruct (nth_error r j) as [v|] eqn:Ev.
    + destruct (find_field flds r j f v Hd Hl Ef Ev) as (f' & Hfind). rewrite Hfind. reflexivity.
    + apply nth_error_None in Ev. assert (j < length flds)%nat by (apply nth_error_Some; congruence). lia.
  - pose proof Ef as Ef'. apply nth_error_None in Ef'.
    rewrite (proj2 (nth_error_None _ _)) by (rewrite map_length; exact Ef').
    symmetry. apply nth_error_None. lia.
Qed.

(* field discovery = the header union of mergesort: first occurrence order, nothing twice *)
Lemma add_keys_union : forall (d : list (val * val)) (h : list val),
  fold_left (fun h kv => if py_in (fst kv) h then h else h ++ [fst kv]) d h = union_fields h (map fst d).
Proof. induction d as [|kv t IH]; intros h; [reflexivity|]. cbn. destruct (py_in (fst kv) h); apply IH. Qed.

Lemma union_self (flds : list val) : distinct_names flds -> union_fields flds flds = flds.
Proof.
  intros Hd. apply union_fields_known. rewrite Forall_forall. intros f Hf. apply py_in_member; [|exact Hf].
  pose proof (distinct_names_all flds Hd) as Hr. rewrite Forall_forall in Hr. apply Hr. exact Hf.
Qed.

Lemma discover (flds : list val) : distinct_names flds -> forall (ds : list (list (val * val))) h,
  Forall (fun d => map fst d = flds) ds -> (h = [] \/ h = flds) -> ds <> [] ->
  fold_left (fun h d => fold_left (fun h kv => if py_in (fst kv) h then h else h ++ [fst kv]) d h) ds h = flds.
Proof.
  intros Hd. induction ds as [|d ds IH]; intros h Hall Hh Hne; [congruence|].
  apply Forall_cons_iff in Hall. destruct Hall as [Hk Hrest]. cbn [fold_left]. rewrite add_keys_union, Hk.
  assert (E : union_fields h flds = flds).
  { destruct Hh as [->| ->].
    - rewrite (union_fields_fresh flds [] Hd); [reflexivity|]. rewrite Forall_forall. intros; constructor.
    - apply union_self. exact Hd. }
  rewrite E. destruct ds as [|d' ds']; [reflexivity|]. apply IH; auto. discriminate.
Qed.

Theorem fromdicts_dicts_id (sample : nat) (m1 m2 : val) (hdr : row) (rows : list row) :
  (1 <= sample)%nat -> rows <> [] ->
  Forall (fun f => hdr_text f = f) hdr -> distinct_names hdr ->
  Forall (fun r : row => length r = length hdr) rows ->
  fromdicts_model sample m2 (dicts_model m1 (hdr :: rows)) = hdr :: rows.
Proof.
  intros Hs Hne Htext Hd Hrect. unfold dicts_model, fromdicts_model. rewrite (map_text_id hdr Htext).
  assert (Eds : map (asdict hdr m1) rows = map (combine hdr) rows).
  { apply map_ext_in. intros r Hr. rewrite Forall_forall in Hrect. apply asdict_rect; auto. }
  rewrite Eds.
  assert (Eh : fold_left (fun h d => fold_left (fun h kv => if py_in (fst kv) h then h else h ++ [fst kv]) d h)
                         (firstn sample (map (combine hdr) rows)) [] = hdr).
  { apply (discover hdr Hd).
    - rewrite Forall_forall. intros d Hin.
      assert (Hin' : In d (map (combine hdr) rows)).
      { rewrite <- (firstn_skipn sample (map (combine hdr) rows)). apply in_or_app. left. exact Hin. }
      apply in_map_iff in Hin'. destruct Hin' as (r & <- & Hr). rewrite Forall_forall in Hrect.
      apply map_fst_combine. symmetry. apply Hrect. exact Hr.
    - left; reflexivity.
    - destruct rows as [|r rs]; [congruence|]. destruct sample as [|s]; [lia|]. discriminate. }
  rewrite Eh. f_equal. rewrite map_map.
  rewrite <- (map_id rows) at 2. apply map_ext_in. intros r Hr. rewrite Forall_forall in Hrect.
  apply row_back; auto.
Qed.

(* ---- fromcolumns(columns(t)) = t ------------------------------------------------------------------------------------------ *)
Definition colcell (missing : val) (r : row) (i : Z) : val := match py_nth r i with Some v => v | None => missing end.

Lemma cells_of_row (missing : val) (r : row) : map (colcell missing r) (zrange (length r) 0) = r.
Proof.
  assert (E : map (colcell missing r) (zrange (length r) 0)
              = map (fun o => match o with Some v => v | None => missing end) (map (py_nth (r ++ [])) (zrange (length r) 0))).
  { rewrite map_map, app_nil_r. reflexivity. }
  rewrite E, py_nth_prefix, map_map. cbn. apply map_id.
Qed.

Definition cols_of (missing : val) (w : nat) (rows : list row) : list (list val) :=
  map (fun i => map (fun r => colcell missing r i) rows) (zrange w 0).

Lemma max_len_cols missing w rows : (1 <= w)%nat ->
  fold_right (fun c n => Nat.max (length c) n) O (cols_of missing w rows) = length rows.
Proof.
  intros Hw. unfold cols_of.
  assert (G : forall w s, fold_right (fun (c : list val) n => Nat.max (length c) n) O
                            (map (fun i => map (fun r : row => colcell missing r i) rows) (zrange w s))
                          = match w with O => O | _ => length rows end).
  { induction w0 as [|w0 IH]; intros s; [reflexivity|]. cbn [zrange map fold_right]. rewrite map_length, IH.
    destruct w0; lia. }
  rewrite G. destruct w; [lia|reflexivity].
Qed.

Lemma zip_cols missing m2 w : (1 <= w)%nat -> forall rows fuel,
  Forall (fun r : row => length r = w) rows -> (length rows <= fuel)%nat ->
  zip_longest_cols fuel m2 (cols_of missing w rows) = rows.
Proof.
  intros Hw. induction rows as [|r rows IH]; intros fuel Hrect Hf.
  - destruct fuel as [|f]; [reflexivity|]. cbn [zip_longest_cols]. unfold cols_of.
    replace (forallb _ _) with true; [reflexivity|]. symmetry. apply forallb_forall. intros c Hc.
    apply in_map_iff in Hc. destruct Hc as (i & <- & _). reflexivity.
  - destruct fuel as [|f]; [cbn in Hf; lia|]. cbn [zip_longest_cols].
    inversion Hrect as [|? ? Hr Hrest]; subst.
    assert (Enot : forallb (fun c : list val => match c with [] => true | _ => false end) (cols_of missing (length r) (r :: rows)) = false).
    { unfold cols_of. destruct (length r) as [|w'] eqn:El; [lia|]. reflexivity. }
    rewrite Enot. f_equal.
    + unfold cols_of. rewrite map_map. cbn [map]. apply cells_of_row.
    + assert (Et : map (fun c : list val => tl c) (cols_of missing (length r) (r :: rows)) = cols_of missing (length r) rows).
      { unfold cols_of. rewrite map_map. reflexivity. }
      rewrite Et. apply IH; [exact Hrest|cbn in Hf; lia].
Qed.

Theorem fromcolumns_columns_id (m1 m2 : val) (hdr : row) (rows : list row) :
  (1 <= length hdr)%nat -> Forall (fun f => hdr_text f = f) hdr ->
  Forall (fun r : row => length r = length hdr) rows ->
  let cols := columns_model m1 (hdr :: rows) in
  map fst cols = hdr /\ fromcolumns_model (map fst cols) m2 (map snd cols) = hdr :: rows.
Proof.
  intros Hw Htext Hrect cols.
  assert (Ecols : map snd cols = cols_of m1 (length hdr) rows).
  { unfold cols, columns_model, cols_of. rewrite map_map. cbn [snd].
    rewrite (map_text_id hdr Htext).
    assert (G : forall (h : list val) s, map (fun fi : val * Z => map (fun r : row => colcell m1 r (snd fi)) rows) (combine h (zrange (length h) s))
                                          = map (fun i => map (fun r : row => colcell m1 r i) rows) (zrange (length h) s)).
    { induction h as [|f t IH]; intros s; [reflexivity|]. cbn. rewrite IH. reflexivity. }
    apply G. }
  assert (Ehdr : map fst cols = hdr).
  { unfold cols, columns_model. rewrite map_map. cbn [fst]. rewrite (map_text_id hdr Htext).
    assert (G : forall (h : list val) s, map (fun fi : val * Z => fst fi) (combine h (zrange (length h) s)) = h).
    { induction h as [|f t IH]; intros s; [reflexivity|]. cbn. rewrite IH. reflexivity. }
    apply G. }
  split; [exact Ehdr|]. unfold fromcolumns_model. rewrite Ehdr, Ecols. f_equal.
  rewrite (max_len_cols m1 (length hdr) rows Hw). apply zip_cols; auto.
Qed.
