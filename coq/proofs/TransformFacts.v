(* TransformFacts.v — cell-level characterisations of the row- and field-level transforms (C12) and the
   failonerror policy (C19). *)
From Verif Require Import PyVal Rows Enc ComparableGen AsIndicesGen Sort Basics Dedup Joins Selects Transforms.
From Coq Require Import Lia.
Open Scope Z_scope.

(* ---- one output row per input row, in input order ----------------------------------------------------------- *)
Lemma map_rows_length f rows out : map_rows f rows = (out, None) -> length out = length rows.
Proof.
  revert out. induction rows as [|r t IH]; intros out H; cbn [map_rows] in H.
  - inversion H. reflexivity.
  - destruct (f r) as [o|e]; [|discriminate]. destruct (map_rows f t) as [o' e'] eqn:E.
    inversion H; subst. cbn. f_equal. apply IH. reflexivity.
Qed.

Lemma map_rows_nth f rows out : map_rows f rows = (out, None) ->
  forall i r, nth_error rows i = Some r -> exists o, f r = Ok o /\ nth_error out i = Some o.
Proof.
  revert out. induction rows as [|r0 t IH]; intros out H i r Hi; cbn [map_rows] in H.
  - destruct i; discriminate.
  - destruct (f r0) as [o|e] eqn:F; [|discriminate]. destruct (map_rows f t) as [o' e'] eqn:E.
    inversion H; subst. destruct i as [|i']; cbn in *.
    + inversion Hi; subst. eauto.
    + eapply IH; eauto.
Qed.

(* ---- cut: output cell j is input cell indices[j], or `missing` when the row is short --------------------------- *)
Lemma all_some_nth {A} (l : list (option A)) out : all_some l = Some out ->
  length out = length l /\ forall j x, nth_error out j = Some x -> nth_error l j = Some (Some x).
Proof.
  revert out. induction l as [|a t IH]; intros out H; cbn in H.
  - inversion H. split; auto. intros j x Hj. destruct j; discriminate.
  - destruct a as [a|]; [|discriminate]. destruct (all_some t) as [r|] eqn:E; [|discriminate].
    inversion H; subst. destruct (IH r eq_refl) as [Hl Hn]. split; [cbn; congruence|].
    intros j x Hj. destruct j; cbn in *; [congruence | apply Hn; exact Hj].
Qed.

Lemma mapM_nth {A B} (f : A -> res B) l out : mapM f l = Ok out ->
  length out = length l /\ forall j a, nth_error l j = Some a -> exists b, f a = Ok b /\ nth_error out j = Some b.
Proof.
  revert out. induction l as [|a t IH]; intros out H; cbn in H.
  - inversion H. split; auto. intros j a Hj. destruct j; discriminate.
  - destruct (f a) as [b|e] eqn:F; [|discriminate]. destruct (mapM f t) as [r|e] eqn:E; [|discriminate].
    inversion H; subst. destruct (IH r eq_refl) as [Hl Hn]. split; [cbn; congruence|].
    intros j x Hj. destruct j; cbn in *; [inversion Hj; subst; eauto | apply Hn; exact Hj].
Qed.

Theorem cut_cell indices missing r out : cut_row indices missing r = Ok out ->
  length out = length indices /\
  forall j i, nth_error indices j = Some i -> 0 <= i ->
    nth_error out j = Some (match nth_error r (Z.to_nat i) with Some v => v | None => missing end).
Proof.
  unfold cut_row, rowgetter. intros H.
  destruct (all_some (map (py_nth r) indices)) as [o|] eqn:E.
  - inversion H; subst. destruct (all_some_nth _ _ E) as [Hl Hn]. rewrite map_length in Hl. split; auto.
    intros j i Hj Hi.
    destruct (nth_error out j) as [x|] eqn:Ex.
    + specialize (Hn j x Ex). rewrite nth_error_map, Hj in Hn. cbn in Hn.
      assert (Hp : py_nth r i = Some x) by congruence.
      unfold py_nth in Hp. destruct (i <? 0) eqn:Ei; [apply Z.ltb_lt in Ei; lia|].
      destruct ((i <? 0) || (zlen r <=? i)); [discriminate|]. rewrite Hp. reflexivity.
    + apply nth_error_None in Ex. assert (j < length indices)%nat by (apply nth_error_Some; congruence). lia.
  - destruct (mapM_nth _ _ _ H) as [Hl Hn]. split; auto.
    intros j i Hj Hi. destruct (Hn j i Hj) as (b & Hb & Hout). rewrite Hout. f_equal.
    destruct (i <? zlen r) eqn:Ei.
    + destruct (py_nth r i) as [v|] eqn:Ep; [|discriminate]. inversion Hb; subst.
      unfold py_nth in Ep. destruct (i <? 0) eqn:E0; [apply Z.ltb_lt in E0; lia|].
      destruct ((i <? 0) || (zlen r <=? i)); [discriminate|]. rewrite Ep. reflexivity.
    + inversion Hb; subst. apply Z.ltb_ge in Ei. unfold zlen in Ei.
      assert (nth_error r (Z.to_nat i) = None) by (apply nth_error_None; lia). rewrite H0. reflexivity.
Qed.

(* ---- list.insert: the other cells are carried over unchanged ---------------------------------------------------- *)
Definition insert_pos {A} (l : list A) (i : Z) : nat :=
  Z.to_nat (if i <? 0 then Z.max 0 (i + zlen l) else Z.min i (zlen l)).

Fixpoint remove_at {A} (n : nat) (l : list A) : list A :=
  match l, n with
  | [], _ => []
  | _ :: t, O => t
  | x :: t, Datatypes.S m => x :: remove_at m t
  end.

Lemma remove_at_app {A} (a b : list A) x : remove_at (length a) (a ++ x :: b) = a ++ b.
Proof. induction a as [|y t IH]; cbn; auto. f_equal. exact IH. Qed.

Theorem insert_frame {A} (l : list A) i x :
  (insert_pos l i <= length l)%nat /\
  nth_error (py_insert l i x) (insert_pos l i) = Some x /\
  remove_at (insert_pos l i) (py_insert l i x) = l /\
  length (py_insert l i x) = Datatypes.S (length l).
Proof.
  unfold py_insert, insert_pos. set (j := Z.to_nat (if i <? 0 then Z.max 0 (i + zlen l) else Z.min i (zlen l))).
  assert (Hj : (j <= length l)%nat).
  { unfold j, zlen. destruct (i <? 0) eqn:E; [apply Z.ltb_lt in E | apply Z.ltb_ge in E]; lia. }
  assert (Hlen : length (firstn j l) = j) by (apply firstn_length_le; exact Hj).
  repeat split; auto.
  - rewrite nth_error_app2 by lia. rewrite Hlen, Nat.sub_diag. reflexivity.
  - rewrite <- Hlen at 1. rewrite remove_at_app. apply firstn_skipn.
  - rewrite app_length. cbn [length]. rewrite Hlen, skipn_length. lia.
Qed.

(* ---- convert: cells without a converter are passed through; the row keeps its length ------------------------- *)
Theorem convert_frame pol ev cf whole : forall cells i out,
  transform_cells pol ev cf i cells whole = Ok out ->
  length out = length cells /\
  forall j v, nth_error cells j = Some v -> conv_at cf (i + Z.of_nat j) = None -> nth_error out j = Some v.
Proof.
  induction cells as [|c t IH]; intros i out H; cbn [transform_cells] in H.
  - inversion H; subst. split; auto; try (intros j v Hj; destruct j; discriminate).
  - destruct (transform_value pol ev (conv_at cf i) c whole) as [x|e] eqn:T; [|discriminate].
    destruct (transform_cells pol ev cf (i + 1) t whole) as [r|e] eqn:R; [|discriminate].
    inversion H; subst. destruct (IH (i + 1) r R) as [Hl Hn]. split; [cbn; congruence|].
    intros j v Hj Hc. destruct j as [|j']; cbn in *.
    + inversion Hj; subst. rewrite Z.add_0_r in Hc. rewrite Hc in T. cbn in T. inversion T. reflexivity.
    + apply Hn; auto. rewrite <- Hc. f_equal. lia.
Qed.

(* ---- fillright / fillleft: only missing cells change, the row keeps its length --------------------------------- *)
Theorem fillright_frame missing : forall r prev,
  length (fillright_row missing prev r) = length r /\
  forall j v, nth_error r j = Some v -> py_eq v missing = false -> nth_error (fillright_row missing prev r) j = Some v.
Proof.
  induction r as [|x t IH]; intros prev; cbn [fillright_row].
  - split; auto; try (intros j v Hj; destruct j; discriminate).
  - set (x' := match prev with Some p => if py_eq x missing && negb (py_eq p missing) then p else x | None => x end).
    destruct (IH (Some x')) as [Hl Hn]. split; [cbn; congruence|].
    intros j v Hj Hv. destruct j as [|j']; cbn in *.
    + inversion Hj; subst. unfold x'. destruct prev; auto. rewrite Hv. reflexivity.
    + apply Hn; auto.
Qed.

(* ---- the failonerror policy (C19) ------------------------------------------------------------------------------- *)
(* convert / fieldmap cell level *)
Theorem policy_false_never_raises ev c v r : exists x, transform_value PolFalse ev c v r = Ok x.
Proof.
  unfold transform_value. destruct c as [[id|d|]|]; eauto.
  - destruct (run_conv (CFn id) v r); eauto.
  - destruct (run_conv (CDict d) v r); eauto.
Qed.

Theorem policy_cell_outcomes pol ev cv v r : cv <> CNone ->
  match run_conv cv v r with
  | Ok x => transform_value pol ev (Some cv) v r = Ok x                 (* non-failing cells identical under all policies *)
  | Err e => transform_value pol ev (Some cv) v r =
             match pol with PolFalse => Ok ev | PolTrue => Err e | PolInline => Ok (exn_val e) end
  end.
Proof.
  intros Hc. unfold transform_value. destruct cv; try congruence; destruct (run_conv _ v r); destruct pol; reflexivity.
Qed.

(* rowmap: False drops exactly the failing rows, True raises at the first failing row after the earlier rows have been
   delivered, 'inline' delivers the exception in place *)
Theorem rowmap_policy id flds : forall rows,
  let ok := fun r => match apply_rowmapper id flds r with Ok _ => true | Err _ => false end in
  let img := fun r => match apply_rowmapper id flds r with Ok o => o | Err e => [exn_val e] end in
  rowmap_rows id flds PolFalse rows = (map img (filter ok rows), None)
  /\ rowmap_rows id flds PolInline rows = (map img rows, None)
  /\ (forallb ok rows = true -> rowmap_rows id flds PolTrue rows = (map img rows, None)).
Proof.
  induction rows as [|r t IH]; cbv zeta in *.
  - cbn. auto.
  - destruct IH as (IH1 & IH2 & IH3).
    cbn [rowmap_rows filter map forallb].
    destruct (apply_rowmapper id flds r) as [o|e] eqn:E.
    + rewrite IH1, IH2. cbn [map]. rewrite ?E. split; [reflexivity | split; [reflexivity|]].
      cbn [andb]. intros H. rewrite IH3 by exact H. reflexivity.
    + rewrite IH1, IH2. cbn [map]. rewrite ?E. split; [reflexivity | split; [reflexivity|]]. cbn [andb]. discriminate.
Qed.

Theorem rowmap_true_raises_at_first_failure id flds : forall pre r post e,
  (forall x, In x pre -> exists o, apply_rowmapper id flds x = Ok o) ->
  apply_rowmapper id flds r = Err e ->
  rowmap_rows id flds PolTrue (pre ++ r :: post)
  = (map (fun x => match apply_rowmapper id flds x with Ok o => o | Err _ => [] end) pre, Some e).
Proof.
  induction pre as [|p t IH]; intros r post e Hpre Hr; cbn [app rowmap_rows map].
  - rewrite Hr. reflexivity.
  - destruct (Hpre p (or_introl eq_refl)) as (o & Ho). rewrite Ho.
    rewrite (IH r post e) by (auto; intros x Hx; apply Hpre; right; exact Hx). reflexivity.
Qed.

(* rowmapmany: False keeps the rows a generator produced before failing *)
Theorem rowmapmany_false_keeps_prefix id flds : forall rows,
  rowmapmany_rows id flds PolFalse rows = (flat_map (fun r => fst (apply_rowgen id flds r)) rows, None).
Proof.
  induction rows as [|r t IH]; cbn [rowmapmany_rows flat_map]; auto.
  destruct (apply_rowgen id flds r) as [p ex] eqn:E. cbn [fst]. rewrite IH. destruct ex; reflexivity.
Qed.
