(* PivotFacts.v — pivot's cell law: within one f1-group, the output cell in the column of an f2 value is the aggregate of
   exactly the rows of the f2-group carrying that value, and `missing` in the columns of f2 values the group does not have.
   The code (pivot_cells = the fold that pivot_model runs per f1-group) starts from a row of `missing` and overwrites one
   position per f2-group; the law needs the f2-groups to have pairwise different keys (they are the runs of a sorted stream). *)
From Verif Require Import PyVal Rows Order CmpFacts ComparableGen ComparableFacts OrderTools AsIndicesGen Sort SortFacts
     Basics Dedup Joins Relational JoinFacts JoinRel SetFacts DedupFacts Reductions Reshape.
From Coq Require Import Lia Permutation Sorted.
Open Scope Z_scope.

(* ---- list.index ------------------------------------------------------------------------------------------------------- *)
Lemma py_index_from_spec x : forall l i j, py_index_from x l i = Some j ->
  i <= j /\ (exists y, nth_error l (Z.to_nat (j - i)) = Some y /\ py_eq y x = true) /\ (Z.to_nat (j - i) < length l)%nat.
Proof.
  induction l as [|y t IH]; intros i j H; [discriminate|]. cbn [py_index_from] in H.
  destruct (py_eq y x) eqn:E.
  - inversion H; subst. rewrite Z.sub_diag. split; [lia|]. split; [exists y; split; [reflexivity|exact E]|cbn; lia].
  - destruct (IH (i + 1) j H) as (Hle & (z & Hn & Hz) & Hlt).
    split; [lia|]. replace (Z.to_nat (j - i)) with (S (Z.to_nat (j - (i + 1)))) by lia.
    split; [exists z; split; [exact Hn|exact Hz]|cbn [length]; lia].
Qed.

Lemma py_index_spec x l j : py_index x l = Some j ->
  0 <= j /\ (exists y, nth_error l (Z.to_nat j) = Some y /\ py_eq y x = true) /\ (Z.to_nat j < length l)%nat.
Proof. unfold py_index. intros H. apply py_index_from_spec in H. rewrite Z.sub_0_r in H. exact H. Qed.

(* two keys found at the same position are == *)
Lemma same_index_same_key l k1 k2 j : py_index k1 l = Some j -> py_index k2 l = Some j -> py_eq k1 k2 = true.
Proof.
  intros H1 H2. destruct (py_index_spec _ _ _ H1) as (_ & (y1 & N1 & E1) & _).
  destruct (py_index_spec _ _ _ H2) as (_ & (y2 & N2 & E2) & _).
  assert (y1 = y2) by congruence. subst y2.
  apply (py_eq_trans k1 y1 k2); [rewrite py_eq_sym; exact E1|exact E2].
Qed.

(* ---- set_nth ---------------------------------------------------------------------------------------------------------- *)
Lemma set_nth_length {A} (x : A) : forall l n, length (set_nth n x l) = length l.
Proof. induction l as [|y t IH]; intros n; [destruct n; reflexivity|]. destruct n; cbn; auto. Qed.

Lemma nth_set_nth_same {A} (d x : A) : forall l n, (n < length l)%nat -> nth n (set_nth n x l) d = x.
Proof. induction l as [|y t IH]; intros n H; [cbn in H; lia|]. destruct n; cbn; auto. apply IH. cbn in H. lia. Qed.

Lemma nth_set_nth_other {A} (d x : A) : forall l n m, n <> m -> nth m (set_nth n x l) d = nth m l d.
Proof.
  induction l as [|y t IH]; intros n m H; [destruct n; reflexivity|]. destruct n, m; cbn; auto; try congruence.
Qed.

(* ---- the fold ----------------------------------------------------------------------------------------------------------- *)
Section Cells.
  Variables (i3 agg : Z) (missing : val) (f2vals : list val).

  (* what one f2-group contributes: its column and its aggregate *)
  Definition contributes (g : val * list row) (j : nat) (a : val) : Prop :=
    exists vals jz, all_some (map (fun r => py_nth r i3) (snd g)) = Some vals
                    /\ py_index (fst g) f2vals = Some jz /\ j = Z.to_nat jz
                    /\ apply_agg agg true vals = Ok a.

  Lemma step_ok row g j a : contributes g j a -> pivot_step i3 agg f2vals (Ok row) g = Ok (set_nth j a row).
  Proof. intros (vals & jz & Hv & Hj & Ej & Ha). unfold pivot_step. rewrite Hv, Hj, Ha. subst j. reflexivity. Qed.

  Lemma contributes_lt g j a : contributes g j a -> (j < length f2vals)%nat.
  Proof. intros (vals & jz & _ & Hj & Ej & _). subst j. apply (py_index_spec _ _ _ Hj). Qed.

  Definition distinct_keys (groups : list (val * list row)) : Prop :=
    ForallOrdPairs (fun g g' => py_eq (fst g) (fst g') = false) groups.

  (* the cells after the fold, position by position *)
  Theorem fold_cells groups : distinct_keys groups ->
    forall row, length row = length f2vals ->
    (forall g, In g groups -> exists j a, contributes g j a) ->
    exists c, fold_left (pivot_step i3 agg f2vals) groups (Ok row) = Ok c /\ length c = length f2vals /\
      forall m, (m < length f2vals)%nat ->
        (forall g j a, In g groups -> contributes g j a -> j = m -> nth m c VNone = a)
        /\ ((forall g j a, In g groups -> contributes g j a -> j <> m) -> nth m c VNone = nth m row VNone).
  Proof.
    induction 1 as [|g groups Hall Hd IH]; intros row Hlen Hc.
    - exists row. split; [reflexivity|]. split; [exact Hlen|]. intros m Hm. split; [intros g j a []|reflexivity].
    - destruct (Hc g (or_introl eq_refl)) as (j & a & Hg).
      cbn [fold_left]. pose proof (step_ok row g j a Hg) as Hs.
      destruct (IH (set_nth j a row)) as (c & Hf & Hcl & Hcells).
      { rewrite set_nth_length. exact Hlen. }
      { intros g' Hg'. apply Hc. right. exact Hg'. }
      exists c. split. { refine (eq_trans _ Hf). f_equal. exact Hs. }
      split; [exact Hcl|]. intros m Hm. destruct (Hcells m Hm) as [Hin Hout]. split.
      + intros g' j' a' [E|Hg'] Hcon Ej.
        * subst g' j'. destruct Hg as (v1 & z1 & A1 & B1 & C1 & D1). destruct Hcon as (v2 & z2 & A2 & B2 & C2 & D2).
          assert (v1 = v2) by congruence. subst v2. assert (a = a') by congruence. subst a'.
          (* no later group writes to position m: its key would be == the key of g *)
          rewrite Hout.
          -- assert (Ez : z1 = z2) by congruence. assert (Ejm : j = m) by (rewrite C1, C2, Ez; reflexivity).
             rewrite Ejm. apply nth_set_nth_same. rewrite Hlen. exact Hm.
          -- intros g'' j'' a'' Hg'' (v3 & z3 & A3 & B3 & C3 & D3) Ej''.
             rewrite Forall_forall in Hall. specialize (Hall g'' Hg'').
             assert (Ez3 : z3 = z2).
             { destruct (py_index_spec _ _ _ B3) as (P3 & _). destruct (py_index_spec _ _ _ B2) as (P2 & _). lia. }
             rewrite Ez3 in B3. rewrite (same_index_same_key f2vals (fst g) (fst g'') z2 B2 B3) in Hall. discriminate.
        * apply (Hin g' j' a' Hg' Hcon Ej).
      + intros Hno. rewrite Hout.
        * apply nth_set_nth_other. intros E. apply (Hno g j a (or_introl eq_refl) Hg). exact E.
        * intros g' j' a' Hg'. apply Hno. right. exact Hg'.
  Qed.

  (* pivot_cells: start from a row of `missing` *)
  Theorem pivot_cells_spec groups : distinct_keys groups ->
    (forall g, In g groups -> exists j a, contributes g j a) ->
    exists c, pivot_cells i3 agg missing f2vals groups = Ok c /\ length c = length f2vals /\
      forall m, (m < length f2vals)%nat ->
        (forall g j a, In g groups -> contributes g j a -> j = m -> nth m c VNone = a)
        /\ ((forall g j a, In g groups -> contributes g j a -> j <> m) -> nth m c VNone = missing).
  Proof.
    intros Hd Hc. unfold pivot_cells.
    destruct (fold_cells groups Hd (map (fun _ => missing) f2vals)) as (c & Hf & Hl & Hcells).
    { apply map_length. }
    { exact Hc. }
    exists c. split; [exact Hf|]. split; [exact Hl|]. intros m Hm. destruct (Hcells m Hm) as [A B]. split; [exact A|].
    intros Hno. rewrite (B Hno).
    rewrite (nth_indep _ VNone missing) by (rewrite map_length; exact Hm).
    change missing with ((fun _ : val => missing) (nth m f2vals VNone)) at 2. apply map_nth.
  Qed.
End Cells.

(* ---- the groups are runs: consecutive rows with == keys, nothing lost, in order ------------------------------------------ *)
Lemma rawgroup_concat i rows : concat (map snd (rawgroup i rows)) = rows.
Proof.
  induction rows as [|r t IH]; [reflexivity|]. cbn [rawgroup].
  destruct (rawgroup i t) as [|[k g] rest] eqn:E.
  - destruct t; [reflexivity|]. cbn [rawgroup] in E. destruct (rawgroup i t) as [|[? ?] ?]; [discriminate|].
    destruct (py_eq _ _); discriminate.
  - cbn [map snd concat] in IH. destruct (py_eq (rawkey i r) k); cbn [map snd concat fst]; rewrite <- IH; reflexivity.
Qed.

Lemma rawgroup_keys i rows : Forall (fun g => snd g <> [] /\ Forall (fun r => py_eq (rawkey i r) (fst g) = true) (snd g))
                                    (rawgroup i rows).
Proof.
  induction rows as [|r t IH]; [constructor|]. cbn [rawgroup].
  destruct (rawgroup i t) as [|[k g] rest] eqn:E.
  - constructor; [|constructor]. split; [discriminate|]. constructor; [apply py_eq_refl|constructor].
  - inversion IH as [|? ? [Hne Hk] Hrest]; subst. cbn [fst snd] in *. destruct (py_eq (rawkey i r) k) eqn:Ek.
    + constructor; [|exact Hrest]. split; [discriminate|]. cbn [fst snd]. constructor; [apply py_eq_refl|].
      rewrite Forall_forall in *. intros x Hx. apply (py_eq_trans (rawkey i x) k (rawkey i r)); [apply Hk; exact Hx|].
      rewrite py_eq_sym. exact Ek.
    + constructor; [|constructor; [split; assumption|exact Hrest]]. split; [discriminate|].
      constructor; [apply py_eq_refl|constructor].
Qed.

(* ---- in a stream sorted by an order whose equivalence is == on the keys, the groups have pairwise different keys ------- *)
From Verif Require Import MultFacts.
Section Runs.
  Variable i : Z.
  Variable le : row -> row -> bool.
  Hypothesis le_trans : forall a b c, le a b = true -> le b c = true -> le a c = true.
  Hypothesis le_total : forall a b, le a b = true \/ le b a = true.
  Hypothesis key_eq : forall a b, py_eq (rawkey i a) (rawkey i b) = le a b && le b a.

  Lemma rawgroup_head r t : exists g rest, rawgroup i (r :: t) = (rawkey i r, g) :: rest.
  Proof.
    cbn [rawgroup]. destruct (rawgroup i t) as [|[k g] rest]; [eexists; eexists; reflexivity|].
    destruct (py_eq (rawkey i r) k); eexists; eexists; reflexivity.
  Qed.

  Lemma group_key_of_member rows g : In g (rawgroup i rows) -> exists z, In z rows /\ py_eq (rawkey i z) (fst g) = true.
  Proof.
    intros Hg. pose proof (rawgroup_keys i rows) as Hk. rewrite Forall_forall in Hk. destruct (Hk g Hg) as [Hne Hall].
    destruct (snd g) as [|z zs] eqn:E; [congruence|]. exists z. split.
    - rewrite <- (rawgroup_concat i rows). apply in_concat. exists (snd g). split; [apply in_map; exact Hg|rewrite E; left; reflexivity].
    - inversion Hall; assumption.
  Qed.

  Theorem rawgroup_distinct rows : StronglySorted (fun a b => le a b = true) rows -> distinct_keys (rawgroup i rows).
  Proof.
    induction rows as [|r t IH]; intros Hs; [constructor|].
    assert (Hs' : StronglySorted (fun a b => le a b = true) t) by (inversion Hs; assumption).
    specialize (IH Hs'). cbn [rawgroup].
    destruct (rawgroup i t) as [|[k g] rest] eqn:E; [constructor; [constructor|constructor]|].
    destruct t as [|y t']; [discriminate|].
    destruct (rawgroup_head y t') as (g0 & rest0 & Eh). rewrite Eh in E. inversion E; subst k g0 rest0. clear E.
    inversion IH as [|? ? Hall Hrest]; subst. unfold distinct_keys.
    destruct (py_eq (rawkey i r) (rawkey i y)) eqn:Ek.
    - constructor; [|exact Hrest]. cbn [fst]. rewrite Forall_forall in *. intros g' Hg'. specialize (Hall g' Hg'). cbn [fst] in Hall.
      destruct (py_eq (rawkey i r) (fst g')) eqn:E'; [|reflexivity].
      rewrite py_eq_sym in Ek. rewrite (py_eq_trans _ _ _ Ek E') in Hall. discriminate.
    - constructor; [|exact IH]. cbn [fst]. rewrite Forall_forall. intros g' Hg'.
      assert (Hg'' : In g' (rawgroup i (y :: t'))) by (rewrite Eh; exact Hg').
      destruct (group_key_of_member (y :: t') g' Hg'') as (z & Hz & Ez).
      pose proof (not_equiv_below le (fun a b => py_eq (rawkey i a) (rawkey i b)) le_trans le_total key_eq r y t' Hs Ek z Hz) as Hne.
      cbn beta in Hne.
      destruct (py_eq (rawkey i r) (fst g')) eqn:E'; [|reflexivity].
      rewrite py_eq_sym in E'. rewrite (py_eq_trans _ _ _ Ez E') in Hne. discriminate.
  Qed.
End Runs.
