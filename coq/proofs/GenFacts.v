(* GenFacts.v — the streaming metatheorem: a skeleton in streaming normal form never pulls more than it has delivered
   plus a constant fixed by its text, whatever the data, whatever the length of the source. *)
From Verif Require Import GenIR GenSem.
From Coq Require Import List Arith Lia Bool.
Import ListNotations.

Lemma pulls_app a b : pulls (a ++ b) = pulls a + pulls b.
Proof. unfold pulls. rewrite filter_app, app_length. reflexivity. Qed.
Lemma yields_app a b : yields (a ++ b) = yields a + yields b.
Proof. unfold yields. rewrite filter_app, app_length. reflexivity. Qed.

Lemma prefix_nil t : prefix [] t.
Proof. exists t. reflexivity. Qed.

Lemma prefix_app_cases u a b : prefix u (a ++ b) -> prefix u a \/ exists u2, u = a ++ u2 /\ prefix u2 b.
Proof.
  revert u. induction a as [|x a IH]; intros u [v Hv]; cbn in *.
  - right. exists u. split; auto. exists v. exact Hv.
  - destruct u as [|y u]; [left; apply prefix_nil|].
    cbn in Hv. inversion Hv; subst. destruct (IH u) as [[w Hw]|(u2 & Hu & Hp)]; [exists v; assumption| |].
    + left. exists w. cbn. rewrite Hw. reflexivity.
    + right. exists u2. subst. split; auto.
Qed.

Lemma prefix_cons_cases u x t : prefix u (x :: t) -> u = [] \/ exists u1, u = x :: u1 /\ prefix u1 t.
Proof.
  intros [v Hv]. destruct u as [|y u]; [left; reflexivity|]. cbn in Hv. inversion Hv; subst.
  right. exists u. split; auto. exists v. reflexivity.
Qed.

Lemma prefix_pulls_le u t : prefix u t -> pulls u <= pulls t.
Proof. intros [v ->]. rewrite pulls_app. lia. Qed.

Lemma prefix_refl t : prefix t t.
Proof. exists []. rewrite app_nil_r. reflexivity. Qed.

(* ---- what the syntactic conditions mean ----------------------------------------------------------------------------------- *)
Lemma pull_free_spec s n t st n' : exec s n t st n' -> pull_free s = true -> pulls t = 0 /\ n' = n.
Proof.
  induction 1; cbn [pull_free]; intros Hp; try discriminate; try (split; reflexivity);
    try (apply andb_true_iff in Hp; destruct Hp as [Hp1 Hp2]).
  - destruct (IHexec1 Hp1), (IHexec2 Hp2). subst. rewrite pulls_app. split; lia.
  - apply IHexec; assumption.
  - apply IHexec; assumption.
  - apply IHexec; assumption.
  - apply IHexec; assumption.
  - destruct (IHexec1 Hp1), (IHexec2 Hp2). subst. rewrite pulls_app. split; lia.
  - destruct (IHexec1 Hp) as [A B]. destruct (IHexec2 Hp) as [C D]. subst. rewrite pulls_app. split; lia.
  - apply IHexec; assumption.
  - apply IHexec; assumption.
Qed.

Lemma no_cont_spec s n t st n' : exec s n t st n' -> no_cont s = true -> st <> SC.
Proof.
  induction 1; cbn [no_cont]; intros Hp; try discriminate;
    try (apply andb_true_iff in Hp; destruct Hp as [Hp1 Hp2]); auto.
  all: try (destruct H as [-> | ->]; discriminate).
  all: try (destruct H0 as [-> | ->]; discriminate).
Qed.

Lemma must_yield_spec s n t st n' : exec s n t st n' -> must_yield s = true -> (st = SN \/ st = SC) -> 1 <= yields t.
Proof.
  induction 1; cbn [must_yield]; intros Hm Hst; try discriminate;
    try (destruct Hst as [Hst|Hst]; discriminate).
  - cbn. lia.
  - (* seq, a ran to its end *)
    rewrite yields_app. apply orb_true_iff in Hm. destruct Hm as [Hm|Hm].
    + specialize (IHexec1 Hm (or_introl eq_refl)). lia.
    + apply andb_true_iff in Hm. destruct Hm as [Hb _]. specialize (IHexec2 Hb Hst). lia.
  - (* seq, a stopped *)
    apply orb_true_iff in Hm. destruct Hm as [Hm|Hm]; [apply IHexec; assumption|].
    apply andb_true_iff in Hm. destruct Hm as [_ Hc].
    destruct Hst as [->| ->]; [contradiction|]. exfalso. exact (no_cont_spec _ _ _ _ _ H0 Hc eq_refl).
  - apply andb_true_iff in Hm. destruct Hm. apply IHexec; assumption.
  - apply andb_true_iff in Hm. destruct Hm. apply IHexec; assumption.
  - apply andb_true_iff in Hm. destruct Hm. apply IHexec; assumption.
  - apply andb_true_iff in Hm. destruct Hm as [_ Hh]. rewrite yields_app. specialize (IHexec2 Hh Hst). lia.
Qed.

(* ---- the bound -------------------------------------------------------------------------------------------------------------- *)
Theorem streaming_bound s n t st n' : exec s n t st n' -> wf_map s = true ->
  forall u, prefix u t -> pulls u <= yields u + slack s.
Proof.
  induction 1; cbn [wf_map slack]; intros Hw u Hu; try discriminate;
    try (apply andb_true_iff in Hw; destruct Hw as [Hw1 Hw2]).
  all: try (destruct Hu as [v Hv]; symmetry in Hv; apply app_eq_nil in Hv; destruct Hv; subst; cbn; lia).
  - (* Pull *) destruct (prefix_cons_cases _ _ _ Hu) as [->|(u1 & -> & [v Hv])]; [cbn; lia|].
    symmetry in Hv. apply app_eq_nil in Hv. destruct Hv; subst. cbn. lia.
  - destruct (prefix_cons_cases _ _ _ Hu) as [->|(u1 & -> & [v Hv])]; [cbn; lia|].
    symmetry in Hv. apply app_eq_nil in Hv. destruct Hv; subst. cbn. lia.
  - destruct (prefix_cons_cases _ _ _ Hu) as [->|(u1 & -> & [v Hv])]; [cbn; lia|].
    symmetry in Hv. apply app_eq_nil in Hv. destruct Hv; subst. cbn. lia.
  - (* Yield *) destruct (prefix_cons_cases _ _ _ Hu) as [->|(u1 & -> & [v Hv])]; [cbn; lia|].
    symmetry in Hv. apply app_eq_nil in Hv. destruct Hv; subst. cbn. lia.
  - (* Seq, both *)
    destruct (prefix_app_cases _ _ _ Hu) as [Hp|(u2 & -> & Hp)].
    + specialize (IHexec1 Hw1 u Hp). lia.
    + specialize (IHexec1 Hw1 t1 (prefix_refl _)). specialize (IHexec2 Hw2 u2 Hp).
      rewrite pulls_app, yields_app. lia.
  - specialize (IHexec Hw1 u Hu). lia.
  - specialize (IHexec Hw1 u Hu). lia.
  - specialize (IHexec Hw2 u Hu). lia.
  - specialize (IHexec Hw1 u Hu). lia.
  - (* Try, caught *)
    destruct (prefix_app_cases _ _ _ Hu) as [Hp|(u2 & -> & Hp)].
    + specialize (IHexec1 Hw1 u Hp). lia.
    + specialize (IHexec1 Hw1 t1 (prefix_refl _)). specialize (IHexec2 Hw2 u2 Hp).
      rewrite pulls_app, yields_app. lia.
  - (* For, end of the source *)
    destruct (prefix_cons_cases _ _ _ Hu) as [->|(u1 & -> & [v Hv])]; [cbn; lia|].
    symmetry in Hv. apply app_eq_nil in Hv. destruct Hv; subst. cbn. lia.
  - (* For, one more iteration *)
    destruct (pull_free_spec _ _ _ _ _ H Hw1) as [P1 _].
    pose proof (must_yield_spec _ _ _ _ _ H Hw2 H0) as Y1.
    destruct (prefix_cons_cases _ _ _ Hu) as [->|(u1 & -> & Hp1)]; [cbn; lia|].
    destruct (prefix_app_cases _ _ _ Hp1) as [Hp|(u2 & -> & Hp)].
    + pose proof (prefix_pulls_le _ _ Hp). change (pulls (EP :: u1)) with (S (pulls u1)).
      change (yields (EP :: u1)) with (yields u1). lia.
    + assert (Hw' : wf_map (For b) = true) by (cbn; rewrite Hw1, Hw2; reflexivity).
      specialize (IHexec2 Hw' u2 Hp). cbn [slack] in IHexec2.
      change (pulls (EP :: t1 ++ u2)) with (S (pulls (t1 ++ u2))).
      change (yields (EP :: t1 ++ u2)) with (yields (t1 ++ u2)).
      rewrite pulls_app, yields_app. lia.
  - (* For, break *)
    destruct (pull_free_spec _ _ _ _ _ H Hw1) as [P1 _].
    destruct (prefix_cons_cases _ _ _ Hu) as [->|(u1 & -> & Hp1)]; [cbn; lia|].
    pose proof (prefix_pulls_le _ _ Hp1). change (pulls (EP :: u1)) with (S (pulls u1)).
    change (yields (EP :: u1)) with (yields u1). lia.
  - (* For, return / exception *)
    destruct (pull_free_spec _ _ _ _ _ H0 Hw1) as [P1 _].
    destruct (prefix_cons_cases _ _ _ Hu) as [->|(u1 & -> & Hp1)]; [cbn; lia|].
    pose proof (prefix_pulls_le _ _ Hp1). change (pulls (EP :: u1)) with (S (pulls u1)).
    change (yields (EP :: u1)) with (yields u1). lia.
  - (* Rep *)
    assert (Hpf : pull_free (Rep b) = true) by exact Hw.
    assert (E : exec (Rep b) n (t1 ++ t2) st n2) by (eapply x_rep_iter; eauto).
    destruct (pull_free_spec _ _ _ _ _ E Hpf) as [P0 _]. pose proof (prefix_pulls_le _ _ Hu). lia.
  - destruct (pull_free_spec _ _ _ _ _ H Hw) as [P0 _]. pose proof (prefix_pulls_le _ _ Hu). lia.
  - destruct (pull_free_spec _ _ _ _ _ H0 Hw) as [P0 _]. pose proof (prefix_pulls_le _ _ Hu). lia.
Qed.

(* obtaining the first k rows: everything before the k-th yield *)
Corollary first_k_rows s n t st n' u v : exec s n t st n' -> wf_map s = true -> t = u ++ EY :: v ->
  pulls u <= yields u + slack s.
Proof. intros E W ->. apply (streaming_bound _ _ _ _ _ E W). exists (EY :: v). reflexivity. Qed.

(* constructing a view whose constructor only stores its arguments pulls nothing *)
Theorem ctor_pulls_nothing s n t st n' : exec s n t st n' -> ctor_ok s = true -> pulls t = 0 /\ n' = n.
Proof. exact (pull_free_spec s n t st n'). Qed.

(* an eager consumer is not lazy: its pulls grow with the source, before anything is delivered *)
Theorem eager_is_not_lazy n : exists t, exec (Seq Eager Yield) n t SN 0 /\
  exists u v, t = u ++ EY :: v /\ pulls u = S n /\ yields u = 0.
Proof.
  exists ((repeat EP n ++ [EX]) ++ [EY]). split.
  - eapply x_seq_n; [apply x_eager | apply x_yield].
  - exists (repeat EP n ++ [EX]), []. split; [reflexivity|]. split.
    + rewrite pulls_app. assert (R : pulls (repeat EP n) = n) by (induction n as [|m IH]; cbn in *; auto). rewrite R. cbn. lia.
    + rewrite yields_app. assert (R : yields (repeat EP n) = 0) by (induction n as [|m IH]; cbn in *; auto). rewrite R. reflexivity.
Qed.

(* ---- pipelines: bounds add ------------------------------------------------------------------------------------------------- *)
(* stage i delivers its first k rows after asking its input for at most k + c_i rows *)
Fixpoint pipeline_demand (cs : list nat) (k : nat) : nat :=
  match cs with
  | [] => k
  | c :: rest => pipeline_demand rest (k + c)
  end.
Theorem pipeline_bound cs k : pipeline_demand cs k = k + list_sum cs.
Proof. unfold list_sum. revert k. induction cs as [|c rest IH]; intros k; cbn; [lia|]. rewrite IH. lia. Qed.
