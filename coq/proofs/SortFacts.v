(* SortFacts.v — the chunked external sort equals the in-memory stable sort, for every buffersize;
   the in-memory sort is a stable ordered permutation. *)
From Verif Require Import PyVal Rows Order CmpFacts ComparableGen ComparableFacts AsIndicesGen Sort.
From Coq Require Import Lia Permutation Sorted.
Open Scope nat_scope.

Section Generic.
  Context {A : Type} (leb : A -> A -> bool).
  Hypothesis leb_total : forall x y, leb x y = true \/ leb y x = true.
  Hypothesis leb_trans : forall x y z, leb x y = true -> leb y z = true -> leb x z = true.

  (* two-way merge, ties to the left run: used only in proofs, as the meaning of the k-way selection *)
  Fixpoint merge2 (a : list A) : list A -> list A :=
    fix inner (b : list A) : list A :=
      match a, b with
      | [], _ => b
      | _, [] => a
      | x :: a', y :: b' => if leb x y then x :: merge2 a' b else y :: inner b'
      end.

  Lemma merge2_nil_l b : merge2 [] b = b.
  Proof. destruct b; reflexivity. Qed.
  Lemma merge2_nil_r a : merge2 a [] = a.
  Proof. destruct a; reflexivity. Qed.
  Lemma merge2_cons x a y b :
    merge2 (x :: a) (y :: b) = if leb x y then x :: merge2 a (y :: b) else y :: merge2 (x :: a) b.
  Proof. reflexivity. Qed.

  Definition mergeall (cs : list (list A)) : list A := fold_right merge2 [] cs.

  Lemma select_none cs : select leb cs = None -> mergeall cs = [].
  Proof.
    induction cs as [|c cs IH]; simpl; auto.
    destruct c as [|x c].
    - intros H. rewrite merge2_nil_l. auto.
    - destruct (select leb cs) as [[y r]|]; try discriminate. destruct (leb x y); discriminate.
  Qed.

  Lemma select_some cs y cs' : select leb cs = Some (y, cs') -> mergeall cs = y :: mergeall cs'.
  Proof.
    revert y cs'. induction cs as [|c cs IH]; simpl; try discriminate.
    intros y cs'. destruct c as [|x c].
    - intros H. rewrite merge2_nil_l. auto.
    - destruct (select leb cs) as [[z r]|] eqn:E.
      + specialize (IH z r eq_refl). unfold mergeall in *. rewrite IH.
        rewrite merge2_cons. destruct (leb x z); intros H; inversion H; subst; simpl.
        * rewrite IH. reflexivity.
        * reflexivity.
      + intros H; inversion H; subst. simpl. rewrite (select_none cs E), !merge2_nil_r. reflexivity.
  Qed.

  Lemma select_none_total cs : select leb cs = None -> total_len cs = 0.
  Proof.
    induction cs as [|c cs IH]; simpl; auto. destruct c as [|x c]; simpl; auto.
    destruct (select leb cs) as [[z r]|]; try discriminate. destruct (leb x z); discriminate.
  Qed.

  Lemma select_total cs y cs' : select leb cs = Some (y, cs') -> total_len cs = S (total_len cs').
  Proof.
    revert y cs'. induction cs as [|c cs IH]; simpl; try discriminate.
    intros y cs'. destruct c as [|x c]; simpl.
    - apply IH.
    - destruct (select leb cs) as [[z r]|] eqn:E.
      + specialize (IH z r eq_refl). destruct (leb x z); intros H; inversion H; subst; simpl; lia.
      + intros H; inversion H; subst; simpl. rewrite (select_none_total cs E). lia.
  Qed.

  Lemma kmerge_mergeall n : forall cs, total_len cs <= n -> kmerge leb n cs = mergeall cs.
  Proof.
    induction n as [|n IH]; intros cs Hn; simpl.
    - destruct (select leb cs) as [[y r]|] eqn:E.
      + apply select_total in E. lia.
      + symmetry. apply select_none; auto.
    - destruct (select leb cs) as [[y r]|] eqn:E.
      + rewrite (select_some _ _ _ E). f_equal. apply IH. apply select_total in E. lia.
      + symmetry. apply select_none; auto.
  Qed.

  (* inserting into the left run commutes with merging: needs only totality and transitivity *)
  Lemma leb_false_flip x y : leb x y = false -> leb y x = true.
  Proof. intros H. destruct (leb_total x y); congruence. Qed.

  Lemma merge2_insert x s1 : forall s2, merge2 (insert leb x s1) s2 = insert leb x (merge2 s1 s2).
  Proof.
    induction s1 as [|a s1 IH1].
    - cbn [insert]. induction s2 as [|y t IH2].
      + reflexivity.
      + rewrite merge2_nil_l in *. rewrite merge2_cons. cbn [insert].
        destruct (leb x y); [rewrite ?merge2_nil_l; reflexivity | rewrite IH2; reflexivity].
    - cbn [insert]. destruct (leb x a) eqn:Exa.
      + induction s2 as [|y t IH2].
        * rewrite !merge2_nil_r. cbn [insert]. rewrite Exa. reflexivity.
        * rewrite merge2_cons. destruct (leb x y) eqn:Exy.
          -- rewrite (merge2_cons a s1 y t). destruct (leb a y); cbn [insert]; rewrite ?Exa, ?Exy; reflexivity.
          -- assert (Hay : leb a y = false).
             { destruct (leb a y) eqn:E; auto. rewrite (leb_trans x a y Exa E) in Exy. discriminate. }
             rewrite (merge2_cons a s1 y t), Hay. cbn [insert]. rewrite Exy. f_equal. exact IH2.
      + induction s2 as [|y t IH2].
        * rewrite !merge2_nil_r. cbn [insert]. rewrite Exa. reflexivity.
        * rewrite !merge2_cons. destruct (leb a y) eqn:Eay.
          -- cbn [insert]. rewrite Exa. f_equal. apply IH1.
          -- assert (Hxy : leb x y = false).
             { destruct (leb x y) eqn:E; auto.
               rewrite (leb_trans x y a E (leb_false_flip _ _ Eay)) in Exa. discriminate. }
             cbn [insert]. rewrite Hxy. f_equal. exact IH2.
  Qed.

  Lemma merge2_pysort l1 s2 : merge2 (pysort leb l1) s2 = fold_right (insert leb) s2 l1.
  Proof.
    induction l1 as [|x l1 IH]; simpl.
    - apply merge2_nil_l.
    - rewrite merge2_insert, IH. reflexivity.
  Qed.

  Lemma pysort_app l1 l2 : pysort leb (l1 ++ l2) = merge2 (pysort leb l1) (pysort leb l2).
  Proof. unfold pysort at 1. rewrite fold_right_app. symmetry. apply merge2_pysort. Qed.

  Lemma mergeall_pysort cs : mergeall (map (pysort leb) cs) = pysort leb (concat cs).
  Proof.
    induction cs as [|c cs IH]; simpl; auto.
    rewrite pysort_app. rewrite <- IH. reflexivity.
  Qed.

  Lemma chunks_concat b : 1 <= b -> forall fuel (rows : list A), length rows <= fuel -> concat (chunks fuel b rows) = rows.
  Proof.
    intros Hb. induction fuel as [|f IH]; intros rows Hl.
    - destruct rows; simpl in *; auto; lia.
    - destruct rows as [|r rows]; auto.
      cbn [chunks concat]. rewrite IH.
      + apply firstn_skipn.
      + rewrite skipn_length. cbn [length] in *. lia.
  Qed.

  Lemma insert_length x s : length (insert leb x s) = S (length s).
  Proof. induction s as [|y t IH]; simpl; auto. destruct (leb x y); simpl; auto. Qed.
  Lemma pysort_length l : length (pysort leb l) = length l.
  Proof. induction l; simpl; auto. rewrite insert_length. auto. Qed.

  Lemma total_len_map_pysort cs : total_len (map (pysort leb) cs) = total_len cs.
  Proof. induction cs; simpl; auto. rewrite pysort_length. auto. Qed.

  (* THE buffering theorem: every buffersize >= 1 gives the in-memory result *)
  Theorem sort_data_chunked b rows : 1 <= b -> sort_data leb (Some b) rows = pysort leb rows.
  Proof.
    intros Hb. unfold sort_data.
    destruct (length (firstn b rows) <? b) eqn:E.
    - apply Nat.ltb_lt in E. rewrite firstn_length in E.
      assert (length rows < b) by lia. rewrite firstn_all2 by lia. reflexivity.
    - rewrite kmerge_mergeall by lia. rewrite mergeall_pysort. rewrite chunks_concat; auto.
  Qed.

  (* ---- the in-memory sort is a stable ordered permutation ------------------------------- *)
  Lemma insert_perm x s : Permutation (insert leb x s) (x :: s).
  Proof.
    induction s as [|y t IH]; simpl; auto.
    destruct (leb x y); auto. rewrite IH. apply perm_swap.
  Qed.
  Lemma pysort_perm l : Permutation (pysort leb l) l.
  Proof. induction l as [|x l IH]; simpl; auto. rewrite insert_perm. auto. Qed.

  Definition lebP x y := leb x y = true.

  Lemma insert_sorted x s : StronglySorted lebP s -> StronglySorted lebP (insert leb x s).
  Proof.
    induction 1 as [|y t Hs IH Hall]; simpl.
    - constructor; constructor.
    - destruct (leb x y) eqn:E.
      + constructor; [constructor; auto|]. constructor; auto.
        eapply Forall_impl; [|exact Hall]. intros z Hz. eapply leb_trans; eauto.
      + constructor; auto.
        assert (Hp : Permutation (insert leb x t) (x :: t)) by apply insert_perm.
        eapply Permutation_Forall; [symmetry; exact Hp|]. constructor; auto. apply leb_false_flip; auto.
  Qed.
  Lemma pysort_sorted l : StronglySorted lebP (pysort leb l).
  Proof. induction l; simpl; [constructor | apply insert_sorted; auto]. Qed.

  (* stability: restricted to any class p closed under "equivalent to an element of the class",
     the sorted list lists the members in input order *)
  Lemma insert_filter (p : A -> bool) x s :
    (forall y, p x = true -> p y = true -> leb x y = true) ->
    filter p (insert leb x s) = if p x then x :: filter p s else filter p s.
  Proof.
    intros Hp. induction s as [|y t IH]; simpl.
    - destruct (p x); reflexivity.
    - destruct (leb x y) eqn:E; simpl.
      + destruct (p x), (p y); reflexivity.
      + rewrite IH. destruct (p x) eqn:Px, (p y) eqn:Py; auto.
        rewrite (Hp y eq_refl Py) in E. discriminate.
  Qed.

  Theorem pysort_stable (p : A -> bool) l :
    (forall x y, p x = true -> p y = true -> leb x y = true) ->
    filter p (pysort leb l) = filter p l.
  Proof.
    intros Hp. induction l as [|x l IH]; simpl; auto.
    rewrite insert_filter by (intros; apply Hp; auto). rewrite IH. reflexivity.
  Qed.

  Lemma pysort_sorted_id l : StronglySorted lebP l -> pysort leb l = l.
  Proof.
    induction 1 as [|x t Hs IH Hall]; simpl; auto.
    rewrite IH. destruct t as [|y t']; simpl; auto.
    inversion Hall; subst. unfold lebP in *. rewrite H1. reflexivity.
  Qed.
End Generic.

(* ---- instances: the row order induced by the key --------------------------------------- *)
Lemma row_leb_vle rev idx x y :
  row_leb rev idx x y = if rev then vle (getkey idx y) (getkey idx x) else vle (getkey idx x) (getkey idx y).
Proof.
  unfold row_leb, vle. destruct rev; rewrite clt_is_vlt; unfold vlt.
  - rewrite (vcmp_antisym (getkey idx x) (getkey idx y)). destruct (vcmp (getkey idx x) (getkey idx y)); reflexivity.
  - rewrite (vcmp_antisym (getkey idx y) (getkey idx x)). destruct (vcmp (getkey idx y) (getkey idx x)); reflexivity.
Qed.

Lemma row_leb_total rev idx x y : row_leb rev idx x y = true \/ row_leb rev idx y x = true.
Proof. rewrite !row_leb_vle. destruct rev; [destruct (vle_total (getkey idx y) (getkey idx x)) | apply vle_total]; auto. Qed.

Lemma row_leb_trans rev idx x y z :
  row_leb rev idx x y = true -> row_leb rev idx y z = true -> row_leb rev idx x z = true.
Proof.
  rewrite !row_leb_vle. destruct rev; intros H1 H2.
  - eapply vle_trans; eauto.
  - eapply vle_trans; eauto.
Qed.

(* ---- statements about the petl-level model ------------------------------------------------ *)
Lemma sort_model_chunked b reverse key t : (1 <= b)%nat ->
  sort_model (Some b) reverse key t = sort_model None reverse key t.
Proof.
  intros Hb. unfold sort_model. destruct t as [|hdr rows]; auto.
  destruct (key_indices hdr key) as [[|i idx]|e]; auto.
  rewrite (sort_data_chunked _ (row_leb_total reverse (i :: idx)) (row_leb_trans reverse (i :: idx))); auto.
Qed.

Lemma sort_data_perm reverse idx rows : Permutation (sort_data (row_leb reverse idx) None rows) rows.
Proof. apply pysort_perm. Qed.

Lemma StronglySorted_impl {A} (P Q : A -> A -> Prop) l :
  (forall x y, P x y -> Q x y) -> StronglySorted P l -> StronglySorted Q l.
Proof.
  intros H. induction 1 as [|x t Hs IH Hall]; constructor; auto.
  eapply Forall_impl; [|exact Hall]. intros; apply H; auto.
Qed.

Lemma row_leb_cle reverse idx r1 r2 :
  row_leb reverse idx r1 r2 = if reverse then cge (getkey idx r1) (getkey idx r2) else cle (getkey idx r1) (getkey idx r2).
Proof.
  unfold row_leb. destruct reverse.
  - reflexivity.
  - destruct (derived_ops (getkey idx r1) (getkey idx r2)) as (H & _). rewrite H. reflexivity.
Qed.

Lemma sort_data_sorted (reverse : bool) idx rows :
  StronglySorted (fun r1 r2 => (if reverse then cge (getkey idx r1) (getkey idx r2)
                                else cle (getkey idx r1) (getkey idx r2)) = true)
                 (sort_data (row_leb reverse idx) None rows).
Proof.
  pose proof (pysort_sorted _ (row_leb_total reverse idx) (row_leb_trans reverse idx) rows) as H.
  simpl. eapply StronglySorted_impl; [|exact H].
  intros x y. unfold lebP. rewrite row_leb_cle. destruct reverse; auto.
Qed.

Lemma sort_data_stable reverse idx rows kv :
  filter (fun r => ceq (getkey idx r) kv) (sort_data (row_leb reverse idx) None rows)
  = filter (fun r => ceq (getkey idx r) kv) rows.
Proof.
  simpl. apply pysort_stable. intros x y Hx Hy.
  assert (E : ceq (getkey idx x) (getkey idx y) = true).
  { eapply ceq_trans; [exact Hx|]. rewrite ceq_sym. exact Hy. }
  rewrite row_leb_vle. rewrite ceq_is_veq in E. unfold veq, vle in *.
  destruct reverse.
  - rewrite (vcmp_antisym (getkey idx x) (getkey idx y)).
    destruct (vcmp (getkey idx x) (getkey idx y)); simpl in *; congruence.
  - destruct (vcmp (getkey idx x) (getkey idx y)); simpl in *; congruence.
Qed.

Lemma sort_data_idem reverse idx rows :
  StronglySorted (fun r1 r2 => row_leb reverse idx r1 r2 = true) rows ->
  sort_data (row_leb reverse idx) None rows = rows.
Proof. intros H. simpl. apply pysort_sorted_id. exact H. Qed.

Lemma sort_model_header bs reverse key hdr rows out e :
  sort_model bs reverse key (hdr :: rows) = (out, e) -> exists rest, out = hdr :: rest.
Proof.
  unfold sort_model. destruct (key_indices hdr key) as [[|i idx]|x]; intros H; inversion H; subst; eauto.
Qed.
