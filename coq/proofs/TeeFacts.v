(* TeeFacts.v — pass-through views yield the wrapped rows; a drained tee has written what to* writes. *)
From Verif Require Import PyVal Tees.
From Coq Require Import Lia.
Open Scope Z_scope.

Section Facts.
  Context {A : Type}.
  Notation script := (list (action A)).

  Lemma yields_app (a b : script) : yields (a ++ b) = yields a ++ yields b.
  Proof. induction a as [|[c|n|x] t IH]; cbn; auto. rewrite IH. reflexivity. Qed.
  Lemma writes_app (a b : script) : writes (a ++ b) = writes a ++ writes b.
  Proof. induction a as [|[c|n|x] t IH]; cbn; auto. rewrite IH, app_assoc. reflexivity. Qed.
  Lemma msgs_app (a b : script) : msgs (a ++ b) = msgs a ++ msgs b.
  Proof. induction a as [|[c|n|x] t IH]; cbn; auto. rewrite IH. reflexivity. Qed.

  Lemma tee_rows_cons (i : A * list Z) t : tee_rows (i :: t) = Write (snd i) :: Yield (fst i) :: tee_rows t.
  Proof. reflexivity. Qed.

  Lemma yields_tee_rows (items : list (A * list Z)) : yields (tee_rows items) = map fst items.
  Proof. induction items as [|i t IH]; [reflexivity|]. rewrite tee_rows_cons. cbn [yields map]. rewrite IH. reflexivity. Qed.
  Lemma writes_tee_rows (items : list (A * list Z)) : writes (tee_rows items) = concat (map snd items).
  Proof. induction items as [|i t IH]; [reflexivity|]. rewrite tee_rows_cons. cbn [writes map concat]. rewrite IH. reflexivity. Qed.
  Lemma msgs_tee_rows (items : list (A * list Z)) : msgs (tee_rows items) = [].
  Proof. induction items as [|i t IH]; [reflexivity|]. rewrite tee_rows_cons. cbn [msgs]. exact IH. Qed.

  Lemma yields_opt_write c : yields (@opt_write A c) = [].
  Proof. destruct c; reflexivity. Qed.
  Lemma writes_opt_write c : writes (@opt_write A c) = opt_chunk c.
  Proof. destruct c; cbn; auto. apply app_nil_r. Qed.

  (* ---- csv / pickle ------------------------------------------------------------------------------------------- *)
  Theorem tee_plain_transparent wh (src : list (A * list Z)) : yields (tee_plain wh src) = map fst src.
  Proof.
    destruct src as [|h rows]; cbn; auto. rewrite yields_app. destruct wh; cbn; rewrite yields_tee_rows; reflexivity.
  Qed.

  Theorem tee_plain_writes_csv wh (src : list (A * list Z)) : writes (tee_plain wh src) = to_csv wh src.
  Proof.
    unfold to_csv. destruct src as [|h rows]; cbn; [destruct wh; reflexivity|].
    rewrite writes_app. destruct wh; cbn; rewrite writes_tee_rows, ?app_nil_r; auto.
  Qed.

  Theorem tee_plain_writes_pickle wh (src : list (A * list Z)) : writes (tee_plain wh src) = to_pickle wh src.
  Proof.
    destruct src as [|h rows]; cbn; auto.
    rewrite writes_app. destruct wh; cbn; rewrite writes_tee_rows, ?app_nil_r; auto.
  Qed.

  (* ---- text --------------------------------------------------------------------------------------------------- *)
  Theorem tee_text_transparent p e (src : list (A * list Z)) : yields (tee_text p e src) = map fst src.
  Proof.
    unfold tee_text. rewrite yields_app, yields_opt_write. destruct src as [|h rows]; cbn; [apply yields_opt_write|].
    rewrite yields_app, yields_tee_rows, yields_opt_write, app_nil_r. reflexivity.
  Qed.

  Theorem tee_text_writes p e (src : list (A * list Z)) : writes (tee_text p e src) = to_text p e src.
  Proof.
    unfold tee_text, to_text. rewrite writes_app, writes_opt_write.
    destruct src as [|h rows]; cbn; [rewrite writes_opt_write; reflexivity|].
    rewrite writes_app, writes_tee_rows, writes_opt_write. reflexivity.
  Qed.

  (* ---- html --------------------------------------------------------------------------------------------------- *)
  Theorem tee_html_transparent b e (src : list (A * list Z)) : yields (tee_html b e src) = map fst src.
  Proof.
    destruct src as [|h rows]; cbn; auto. rewrite yields_app, yields_tee_rows. cbn. rewrite app_nil_r. reflexivity.
  Qed.

  Theorem tee_html_writes b e (src : list (A * list Z)) : writes (tee_html b e src) = to_html b e src.
  Proof.
    destruct src as [|h rows]; cbn; [rewrite app_nil_r; reflexivity|].
    rewrite writes_app, writes_tee_rows. cbn. rewrite app_nil_r. reflexivity.
  Qed.

  (* ---- progress / clock / wrap -------------------------------------------------------------------------------- *)
  Theorem progress_transparent bs (rows : list A) : forall n, yields (progress_loop bs n rows) = rows.
  Proof.
    induction rows as [|r t IH]; intros n; cbn; auto.
    rewrite yields_app. destruct ((n mod bs =? 0) && (0 <? n)); cbn; rewrite IH; reflexivity.
  Qed.

  Theorem progress_writes_nothing bs (rows : list A) : forall n, writes (progress_loop bs n rows) = [].
  Proof.
    induction rows as [|r t IH]; intros n; cbn; auto.
    rewrite writes_app. destruct ((n mod bs =? 0) && (0 <? n)); cbn; rewrite IH; reflexivity.
  Qed.

  Theorem passthrough_transparent (rows : list A) : yields (passthrough_script rows) = rows.
  Proof. unfold passthrough_script. induction rows as [|r t IH]; cbn; auto. rewrite IH. reflexivity. Qed.

  (* ---- consumption: k calls of next() ----------------------------------------------------------------------------- *)
  Lemma step_spec (s : script) :
    let '(o, r, w, m) := step s in
    match o with
    | Some x => yields s = x :: yields r /\ writes s = w ++ writes r /\ msgs s = m ++ msgs r
    | None => yields s = [] /\ writes s = w /\ msgs s = m /\ r = []
    end.
  Proof.
    induction s as [|[c|n|x] t IH]; cbn.
    - auto.
    - destruct (step t) as [[[o r] w] m]. destruct o; cbn.
      + destruct IH as (A1 & A2 & A3). rewrite A2, app_assoc. auto.
      + destruct IH as (A1 & A2 & A3 & A4). subst. auto.
    - destruct (step t) as [[[o r] w] m]. destruct o; cbn.
      + destruct IH as (A1 & A2 & A3). rewrite A3. auto.
      + destruct IH as (A1 & A2 & A3 & A4). subst. auto.
    - auto.
  Qed.

  (* the rows obtained are the first k rows of the script; what is in the sink is a prefix of the complete output *)
  Theorem consume_prefix : forall k (s : script),
    let '(ys, w, m, fin) := consume k s in
    ys = firstn k (yields s) /\ (exists rest, w ++ rest = writes s) /\ (exists rest, m ++ rest = msgs s)
    /\ (fin = true -> (length (yields s) < k)%nat /\ w = writes s /\ m = msgs s).
  Proof.
    induction k as [|k IH]; intros s; cbn.
    - split; [reflexivity|]. split; [exists (writes s); reflexivity|]. split; [exists (msgs s); reflexivity|]. discriminate.
    - pose proof (step_spec s) as H. destruct (step s) as [[[o r] w] m]. destruct o as [x|].
      + destruct H as (H1 & H2 & H3). specialize (IH r). destruct (consume k r) as [[[ys w'] m'] fin].
        destruct IH as (I1 & (rw & I2) & (rm & I3) & I4). rewrite H1. cbn. subst ys.
        split; [reflexivity|]. split; [exists rw; rewrite <- app_assoc, I2, H2; reflexivity|].
        split; [exists rm; rewrite <- app_assoc, I3, H3; reflexivity|].
        intros Hf. destruct (I4 Hf) as (J1 & J2 & J3). subst. split; [lia|]. rewrite H2, H3. auto.
      + destruct H as (H1 & H2 & H3 & H4). rewrite H1. cbn. split; [reflexivity|].
        split; [exists []; rewrite app_nil_r; auto|]. split; [exists []; rewrite app_nil_r; auto|].
        intros _. split; [lia|auto].
  Qed.

  (* iterated to the end: every row, the complete output *)
  Theorem consume_all : forall k (s : script), (length (yields s) < k)%nat ->
    consume k s = (yields s, writes s, msgs s, true).
  Proof.
    induction k as [|k IH]; intros s Hk; [lia|]. cbn.
    pose proof (step_spec s) as H. destruct (step s) as [[[o r] w] m]. destruct o as [x|].
    - destruct H as (H1 & H2 & H3). rewrite IH by (rewrite H1 in Hk; cbn in Hk; lia).
      rewrite H1, H2, H3. reflexivity.
    - destruct H as (H1 & H2 & H3 & H4). rewrite H1, H2, H3. reflexivity.
  Qed.
End Facts.
