(* AnnexFacts.v — annex: the header is the headers side by side, and every output row has exactly one cell per output field
   (each table contributes exactly the width of its own header: short rows padded, long rows trimmed, `missing` once a table is
   exhausted), and there are as many rows as the longest table has. *)
From Verif Require Import PyVal Rows Enc ComparableGen AsIndicesGen Sort Basics Dedup Joins Selects Transforms.
From Coq Require Import Lia.

Lemma pad_to_length (n : nat) (missing : val) (r : row) : (length r <= n)%nat -> length (pad_to n missing r) = n.
Proof.
  revert r; induction n as [|n IH]; intros r H; [destruct r; [reflexivity|cbn in H; lia]|].
  destruct r as [|x t]; cbn [pad_to length]; f_equal; apply IH; cbn in *; lia.
Qed.

Definition annex_cells (missing : val) (wr : nat * list row) : row :=
  let '(w, rs) := wr in match rs with [] => repeat missing w | r :: _ => pad_to w missing (firstn w r) end.

Lemma annex_cells_length missing w rs : length (annex_cells missing (w, rs)) = w.
Proof.
  cbn [annex_cells]. destruct rs as [|r t]; [apply repeat_length|]. apply pad_to_length. rewrite firstn_length. lia.
Qed.

Lemma annex_row_length missing (widths : list nat) (rowss : list (list row)) : length widths = length rowss ->
  length (concat (map (annex_cells missing) (combine widths rowss))) = list_sum widths.
Proof.
  revert rowss; induction widths as [|w ws IH]; intros [|rs rss] H; try discriminate; [reflexivity|].
  cbn [combine map concat]. rewrite app_length, annex_cells_length, IH by (cbn in H; lia). reflexivity.
Qed.

Theorem annex_rows_rectangular missing (widths : list nat) (fuel : nat) (rowss : list (list row)) :
  length widths = length rowss ->
  Forall (fun r => length r = list_sum widths) (annex_rows missing widths fuel rowss).
Proof.
  revert rowss; induction fuel as [|f IH]; intros rowss H; cbn [annex_rows]; [constructor|].
  destruct (forallb _ rowss); [constructor|]. constructor.
  - exact (annex_row_length missing widths rowss H).
  - apply IH. rewrite map_length. exact H.
Qed.

(* the number of output rows is the length of the longest table *)
Lemma all_empty_max (rowss : list (list row)) :
  forallb (fun rs => match rs with [] => true | _ => false end) rowss = true <->
  fold_right (fun rs n => Nat.max (length rs) n) O rowss = O.
Proof.
  induction rowss as [|rs t IH]; cbn [forallb fold_right]; [tauto|].
  destruct rs as [|r u]; cbn [length andb].
  - rewrite Nat.max_0_l. exact IH.
  - split; [discriminate|]. intros H. lia.
Qed.

Lemma max_tl (rowss : list (list row)) :
  fold_right (fun rs n => Nat.max (length rs) n) O (map (fun rs => tl rs) rowss)
  = pred (fold_right (fun rs n => Nat.max (length rs) n) O rowss).
Proof.
  induction rowss as [|rs t IH]; [reflexivity|]. cbn [map fold_right]. rewrite IH.
  destruct rs as [|r u]; cbn [tl length]; lia.
Qed.

Theorem annex_rows_count missing (widths : list nat) (rowss : list (list row)) (fuel : nat) :
  fuel = fold_right (fun rs n => Nat.max (length rs) n) O rowss ->
  length (annex_rows missing widths fuel rowss) = fuel.
Proof.
  revert rowss; induction fuel as [|f IH]; intros rowss H; [reflexivity|]. cbn [annex_rows].
  destruct (forallb _ rowss) eqn:E; [apply all_empty_max in E; lia|].
  cbn [length]. f_equal. apply IH. rewrite max_tl, <- H. reflexivity.
Qed.

Lemma widths_sum (hdrs : list row) : list_sum (map (@length val) hdrs) = length (concat hdrs).
Proof. induction hdrs as [|h t IH]; [reflexivity|]. cbn [map concat]. rewrite app_length, <- IH. reflexivity. Qed.

Theorem annex_model_rectangular missing (tables : list table) outt :
  annex_model missing tables = (outt, None) ->
  exists hdrs, hdrs = map (fun t => match t with h :: _ => h | [] => [] end) tables /\
    hd [] outt = concat hdrs /\
    Forall (fun r => length r = length (concat hdrs)) outt /\
    length outt = S (fold_right (fun rs n => Nat.max (length rs) n) O (map (fun t => tl t) tables)).
Proof.
  unfold annex_model. intros H; inversion H; subst; clear H. eexists; split; [reflexivity|]. split; [reflexivity|].
  set (hdrs := map (fun t : table => match t with h :: _ => h | [] => [] end) tables).
  pose proof (widths_sum hdrs) as W.
  split.
  - constructor; [reflexivity|].
    eapply Forall_impl; [|apply (annex_rows_rectangular missing (map (@length val) hdrs)); unfold hdrs; rewrite !map_length; reflexivity].
    intros r Hr. cbv beta in Hr. rewrite Hr. exact W.
  - cbn [length]. f_equal. apply annex_rows_count. reflexivity.
Qed.

(* cell-exact: the j-th output row is, table by table, the j-th data row of that table squared up to the table's own width
   (annex_cells of the rows from j on: `missing` throughout once the table is exhausted) *)
Lemma skipn_tl {A} (j : nat) (l : list A) : skipn j (tl l) = skipn (S j) l.
Proof. destruct l; [destruct j; reflexivity|reflexivity]. Qed.

Theorem annex_rows_nth missing (widths : list nat) (fuel : nat) (rowss : list (list row)) (j : nat) :
  fuel = fold_right (fun rs n => Nat.max (length rs) n) O rowss -> (j < fuel)%nat ->
  nth_error (annex_rows missing widths fuel rowss) j
  = Some (concat (map (annex_cells missing) (combine widths (map (skipn j) rowss)))).
Proof.
  revert rowss j; induction fuel as [|f IH]; intros rowss j H Hj; [lia|]. cbn [annex_rows].
  destruct (forallb _ rowss) eqn:E; [apply all_empty_max in E; lia|].
  destruct j as [|j]; cbn [nth_error].
  - f_equal. f_equal. f_equal. f_equal. symmetry. rewrite <- (map_id rowss) at 2. apply map_ext. reflexivity.
  - rewrite (IH (map (fun rs => tl rs) rowss) j) by (rewrite ?max_tl, <- ?H; cbn; lia).
    rewrite map_map. do 4 f_equal. apply map_ext. intros l. apply skipn_tl.
Qed.

Theorem annex_model_cell_exact missing (tables : list table) outt (j : nat) :
  annex_model missing tables = (outt, None) ->
  (j < fold_right (fun rs n => Nat.max (length rs) n) O (map (fun t => tl t) tables))%nat ->
  nth_error outt (S j)
  = Some (concat (map (annex_cells missing)
                      (combine (map (@length val) (map (fun t : table => match t with h :: _ => h | [] => [] end) tables))
                               (map (skipn j) (map (fun t => tl t) tables))))).
Proof.
  unfold annex_model. intros H Hj; inversion H; subst; clear H. cbn [nth_error].
  apply annex_rows_nth; [reflexivity|exact Hj].
Qed.
