(* SelectFacts.v — selections return exactly the satisfying rows; the complement is the exact rest;
   comparison selectors are consistent with the Comparable order; positional selection = islice. *)
From Verif Require Import PyVal Rows Order CmpFacts ComparableGen ComparableFacts OrderTools AsIndicesGen Selects.
From Coq Require Import Lia Permutation.
Open Scope Z_scope.

(* the XOR loop of iterfieldselect / iterrowselect is a filter (when the predicate does not raise) *)
Lemma filter_gen_total (p : row -> res bool) (pb : row -> bool) complement rows :
  (forall r, In r rows -> p r = Ok (pb r)) ->
  filter_gen p complement rows = (filter (fun r => negb (Bool.eqb (pb r) complement)) rows, None).
Proof.
  induction rows as [|r t IH]; intros H; cbn [filter_gen filter]; auto.
  rewrite (H r (or_introl eq_refl)), IH by (intros x Hx; apply H; right; exact Hx).
  destruct (Bool.eqb (pb r) complement); reflexivity.
Qed.

(* select and its complement partition the rows, each in input order *)
Lemma filter_partition {A} (p : A -> bool) (l : list A) :
  Permutation (filter p l ++ filter (fun x => negb (p x)) l) l.
Proof.
  induction l as [|x t IH]; simpl; auto.
  destruct (p x); simpl.
  - constructor. exact IH.
  - symmetry. apply Permutation_cons_app. symmetry. exact IH.
Qed.

Lemma complement_flips (pb : row -> bool) r : negb (Bool.eqb (pb r) true) = negb (negb (Bool.eqb (pb r) false)).
Proof. destruct (pb r); reflexivity. Qed.

Theorem select_complement_partition (p : row -> res bool) (pb : row -> bool) rows :
  (forall r, In r rows -> p r = Ok (pb r)) ->
  exists sel rest, filter_gen p false rows = (sel, None) /\ filter_gen p true rows = (rest, None)
                   /\ sel = filter pb rows /\ rest = filter (fun r => negb (pb r)) rows
                   /\ Permutation (sel ++ rest) rows.
Proof.
  intros H. exists (filter pb rows), (filter (fun r => negb (pb r)) rows).
  rewrite !(filter_gen_total p pb) by exact H.
  repeat split.
  - f_equal. apply filter_ext. intros r. destruct (pb r); reflexivity.
  - f_equal. apply filter_ext. intros r. destruct (pb r); reflexivity.
  - apply filter_partition.
Qed.

(* the comparison selectors against a reference c, for every cell value v incl. None and values of other types *)
Theorem selectlt_selectge_complementary c v :
  exists b, eval_vpred (PLt c) v = Ok b /\ eval_vpred (PGe c) v = Ok (negb b).
Proof.
  exists (cgt c v). split; auto. cbn. f_equal.
  destruct (derived_ops c v) as (A & B & C). rewrite A, B. reflexivity.
Qed.

Theorem selectle_selectgt_complementary c v :
  exists b, eval_vpred (PLe c) v = Ok b /\ eval_vpred (PGt c) v = Ok (negb b).
Proof.
  exists (cge c v). split; auto. cbn. f_equal.
  destruct (derived_ops c v) as (A & B & C). rewrite C. destruct (clt c v); reflexivity.
Qed.

(* v < c, v == c (under the Comparable equivalence), v > c: exactly one holds; selectle = lt or eq *)
Theorem selectors_follow_the_order c v :
  eval_vpred (PLt c) v = Ok (clt v c) /\ eval_vpred (PGt c) v = Ok (clt c v)
  /\ eval_vpred (PLe c) v = Ok (clt v c || ceq v c) /\ eval_vpred (PGe c) v = Ok (clt c v || ceq c v).
Proof.
  cbn. destruct (derived_ops c v) as (A & B & C). unfold cle. rewrite B, C.
  repeat split; auto. f_equal.
  destruct (trichotomy v c) as [(X&Y&Z)|[(X&Y&Z)|(X&Y&Z)]]; rewrite X, Y, Z; reflexivity.
Qed.

Theorem range_selectors_spec a b v :
  eval_vpred (PRangeClosed a b) v = Ok (clt a v && clt v b)
  /\ eval_vpred (PRangeOpen a b) v = Ok (negb (clt v a) && negb (clt b v))
  /\ eval_vpred (PRangeOpenLeft a b) v = Ok (negb (clt v a) && clt v b)
  /\ eval_vpred (PRangeOpenRight a b) v = Ok (clt a v && negb (clt b v)).
Proof.
  cbn. destruct (derived_ops a v) as (A1 & A2 & A3). destruct (derived_ops b v) as (B1 & B2 & B3).
  rewrite A1, B2, B3. repeat split; reflexivity.
Qed.

(* ---- positional selection --------------------------------------------------------------------------------- *)
Lemma every_nth_nth step : (1 <= step)%nat -> forall l k j,
  nth_error (every_nth step k l) j = nth_error l (k + j * step).
Proof.
  intros Hs. induction l as [|x t IH]; intros k j.
  - cbn. destruct j; destruct (k + _)%nat; reflexivity.
  - cbn [every_nth]. destruct k as [|k'].
    + destruct j as [|j'].
      * reflexivity.
      * cbn [nth_error]. rewrite IH. destruct step as [|s']; [lia|]. cbn [Nat.pred].
        replace (0 + Datatypes.S j' * Datatypes.S s')%nat with (Datatypes.S (s' + j' * Datatypes.S s')) by lia.
        reflexivity.
    + rewrite IH. reflexivity.
Qed.

(* rowslice(start, stop, step) = itertools.islice: the j-th selected row is row start + j*step, below stop *)
Theorem islice_spec start stop step rows out : islice_model start stop step rows = Ok out ->
  let st := match start with Some s => s | None => 0 end in
  let sp := match step with Some s => s | None => 1 end in
  0 <= st /\ 1 <= sp /\
  forall j, nth_error out j =
            nth_error (match stop with Some s => firstn (Z.to_nat (s - st)) (skipn (Z.to_nat st) rows)
                                  | None => skipn (Z.to_nat st) rows end) (j * Z.to_nat sp).
Proof.
  unfold islice_model. cbv zeta.
  destruct ((match start with Some s => s | None => 0 end <? 0)
            || (match step with Some s => s | None => 1 end <? 1)
            || match stop with Some s => s <? 0 | None => false end) eqn:E; [discriminate|].
  apply orb_false_iff in E. destruct E as [E E3]. apply orb_false_iff in E. destruct E as [E1 E2].
  apply Z.ltb_ge in E1. apply Z.ltb_ge in E2.
  intros H; inversion H; subst out. repeat split; auto.
  intros j. rewrite every_nth_nth by lia. reflexivity.
Qed.

Theorem head_is_firstn n rows : 0 <= n -> islice_model None (Some n) None rows = Ok (firstn (Z.to_nat n) rows).
Proof.
  intros Hn. unfold islice_model. cbn. destruct (n <? 0) eqn:E; [apply Z.ltb_lt in E; lia|].
  rewrite Z.sub_0_r. f_equal.
  assert (G : forall l : list row, every_nth 1 0 l = l).
  { induction l as [|x t IH]; cbn; auto. f_equal. exact IH. }
  apply G.
Qed.

(* tail(n): the deque loop keeps exactly the last n rows *)
Definition lastn {A} (k : nat) (l : list A) : list A := skipn (length l - k) l.

Lemma lastn_rev {A} k (l : list A) : lastn k l = rev (firstn k (rev l)).
Proof. unfold lastn. rewrite firstn_rev, rev_involutive. reflexivity. Qed.

Lemma lastn_app_lastn {A} k (a b : list A) : lastn k (lastn k a ++ b) = lastn k (a ++ b).
Proof.
  rewrite (lastn_rev k (lastn k a ++ b)), (lastn_rev k (a ++ b)). f_equal.
  rewrite !rev_app_distr. rewrite (lastn_rev k a), rev_involutive.
  rewrite !firstn_app. f_equal. rewrite firstn_firstn. f_equal. lia.
Qed.

Lemma lastn_short {A} k (l : list A) : (length l <= k)%nat -> lastn k l = l.
Proof. intros H. unfold lastn. replace (length l - k)%nat with 0%nat by lia. reflexivity. Qed.

Lemma lastn_length {A} k (l : list A) : (length (lastn k l) <= k)%nat.
Proof. unfold lastn. rewrite skipn_length. lia. Qed.

Lemma tail_step n (cache : list row) (r : row) : 0 <= n -> zlen cache <= n ->
  (if n <? zlen (cache ++ [r]) then tl (cache ++ [r]) else cache ++ [r]) = lastn (Z.to_nat n) (cache ++ [r]).
Proof.
  intros Hn Hc. unfold zlen in *. rewrite app_length in *. cbn [length] in *.
  destruct (n <? Z.of_nat (length cache + 1)) eqn:E.
  - apply Z.ltb_lt in E. assert (Hl : length cache = Z.to_nat n) by lia.
    unfold lastn. rewrite app_length. cbn [length].
    replace (length cache + 1 - Z.to_nat n)%nat with 1%nat by lia.
    destruct cache; reflexivity.
  - apply Z.ltb_ge in E. symmetry. apply lastn_short. rewrite app_length. cbn [length]. lia.
Qed.

Lemma tail_loop_spec n : 0 <= n -> forall rows cache, zlen cache <= n ->
  tail_loop n cache rows = lastn (Z.to_nat n) (cache ++ rows).
Proof.
  intros Hn. induction rows as [|r t IH]; intros cache Hc.
  - cbn [tail_loop]. rewrite app_nil_r. symmetry. apply lastn_short. unfold zlen in Hc. lia.
  - cbn [tail_loop]. rewrite (tail_step n cache r Hn Hc).
    rewrite IH.
    + rewrite lastn_app_lastn. rewrite <- app_assoc. reflexivity.
    + unfold zlen. pose proof (lastn_length (Z.to_nat n) (cache ++ [r])). lia.
Qed.

Theorem tail_is_lastn n rows : 0 <= n -> tail_loop n [] rows = skipn (length rows - Z.to_nat n) rows.
Proof. intros Hn. rewrite (tail_loop_spec n Hn rows []) by (unfold zlen; cbn; lia). reflexivity. Qed.
