(* SplitFacts.v — split / splitdown with a literal separator expand one field as documented and leave the other fields alone:
   - the parts of `split_on` joined with the separator give the string back, no part contains the separator, and there is
     exactly one more part than occurrences of the separator (str.split(sep) for a one-character sep);
   - the row splitdown builds for a part carries that part at the split field and the row's own cell at every other position
     of the header, in order. *)
From Verif Require Import PyVal Rows Sort Basics Reshape.
From Coq Require Import Lia.
Open Scope Z_scope.

(* sep.join(parts) *)
Fixpoint join_with (sep : Z) (parts : list (list Z)) : list Z :=
  match parts with
  | [] => []
  | [p] => p
  | p :: rest => p ++ sep :: join_with sep rest
  end.

Lemma split_on_nonempty sep cur s : split_on sep cur s <> [].
Proof. revert cur; induction s as [|c t IH]; intros cur; cbn [split_on]; [discriminate|]. destruct (c =? sep); [discriminate|apply IH]. Qed.

Lemma join_cons sep p rest : rest <> [] -> join_with sep (p :: rest) = p ++ sep :: join_with sep rest.
Proof. destruct rest; [congruence|reflexivity]. Qed.

Theorem split_on_join_gen sep cur s : join_with sep (split_on sep cur s) = rev cur ++ s.
Proof.
  revert cur; induction s as [|c t IH]; intros cur; cbn [split_on].
  - cbn [join_with]. rewrite app_nil_r. reflexivity.
  - destruct (c =? sep) eqn:E.
    + apply Z.eqb_eq in E. subst c. rewrite join_cons by apply split_on_nonempty. rewrite IH. reflexivity.
    + rewrite IH. cbn [rev]. rewrite <- app_assoc. reflexivity.
Qed.

Theorem split_on_join sep s : join_with sep (split_on sep [] s) = s.
Proof. exact (split_on_join_gen sep [] s). Qed.

Theorem split_on_no_sep sep cur s : ~ In sep cur -> Forall (fun p => ~ In sep p) (split_on sep cur s).
Proof.
  revert cur; induction s as [|c t IH]; intros cur Hc; cbn [split_on].
  - constructor; [|constructor]. intros H. apply in_rev in H. exact (Hc H).
  - destruct (c =? sep) eqn:E.
    + constructor; [intros H; apply in_rev in H; exact (Hc H)|]. apply IH. intros [].
    + apply IH. intros [H|H]; [apply Z.eqb_neq in E; congruence|exact (Hc H)].
Qed.

Theorem split_on_count sep cur s :
  length (split_on sep cur s) = S (length (filter (fun c => c =? sep) s)).
Proof.
  revert cur; induction s as [|c t IH]; intros cur; cbn [split_on filter]; [reflexivity|].
  destruct (c =? sep); cbn [length]; rewrite IH; reflexivity.
Qed.

(* the row built for one part: one cell per header position, the part at the split field, the row's own cell elsewhere *)
Definition split_cell (r : row) (i : Z) (x : val) (j : Z) : res val :=
  if j =? i then Ok x else match py_nth r j with Some v => Ok v | None => Err IndexErr end.

Lemma split_row_frame_gen (r : row) (i : Z) (x : val) (n : nat) (s : Z) (out : row) :
  mapM (split_cell r i x) (zrange n s) = Ok out ->
  length out = n /\
  forall k, (k < n)%nat -> nth_error out k = if s + Z.of_nat k =? i then Some x else py_nth r (s + Z.of_nat k).
Proof.
  revert s out; induction n as [|n IH]; intros s out; cbn [zrange mapM].
  - intros H; inversion H; subst. split; [reflexivity|intros; lia].
  - destruct (split_cell r i x s) as [y|e] eqn:Ey; [|discriminate].
    destruct (mapM (split_cell r i x) (zrange n (s + 1))) as [rest|e] eqn:Er; [|discriminate].
    intros H; inversion H; subst; clear H. destruct (IH _ _ Er) as [Hl Hn]. split; [cbn; lia|].
    intros [|k] Hk.
    + cbn [nth_error]. replace (s + Z.of_nat 0) with s by lia. unfold split_cell in Ey.
      destruct (s =? i); [congruence|]. destruct (py_nth r s); [congruence|discriminate].
    + cbn [nth_error]. rewrite Hn by lia. replace (s + 1 + Z.of_nat k) with (s + Z.of_nat (S k)) by lia. reflexivity.
Qed.

Theorem split_row_frame (r : row) (i : Z) (x : val) (n : nat) (out : row) :
  mapM (split_cell r i x) (zrange n 0) = Ok out ->
  length out = n /\
  forall k, (k < n)%nat -> nth_error out k = if Z.of_nat k =? i then Some x else py_nth r (Z.of_nat k).
Proof. intros H. destruct (split_row_frame_gen r i x n 0 out H) as [Hl Hn]. split; [exact Hl|]. intros k Hk. exact (Hn k Hk). Qed.

(* it fails exactly when the row is too short for some other header position *)
Theorem split_row_ok (r : row) (i : Z) (x : val) (n : nat) : (n <= length r)%nat ->
  exists out, mapM (split_cell r i x) (zrange n 0) = Ok out.
Proof.
  intros Hn. assert (G : forall m s, 0 <= s -> (Z.to_nat s + m <= length r)%nat ->
    exists out, mapM (split_cell r i x) (zrange m s) = Ok out).
  { induction m as [|m IH]; intros s Hs Hm; cbn [zrange mapM]; [eexists; reflexivity|].
    assert (Ec : exists y, split_cell r i x s = Ok y).
    { unfold split_cell. destruct (s =? i); [eexists; reflexivity|]. unfold py_nth, zlen.
      replace (s <? 0) with false by (symmetry; apply Z.ltb_ge; lia).
      replace ((s <? 0) || (Z.of_nat (length r) <=? s)) with false
        by (symmetry; apply Bool.orb_false_iff; split; [apply Z.ltb_ge; lia|apply Z.leb_gt; lia]).
      destruct (nth_error r (Z.to_nat s)) eqn:En; [eexists; reflexivity|]. apply nth_error_None in En. lia. }
    destruct Ec as [y ->]. destruct (IH (s + 1)) as [rest ->]; [lia|lia|]. eexists; reflexivity. }
  apply (G n 0); [lia|cbn; lia].
Qed.

(* the splitdown model's per-row generator is written with exactly this cell function *)
Lemma splitdown_uses_split_cell (r : row) (i : Z) (part : list Z) (n : nat) :
  mapM (fun j => if j =? i then Ok (VStr part) else match py_nth r j with Some v => Ok v | None => Err IndexErr end) (zrange n 0)
  = mapM (split_cell r i (VStr part)) (zrange n 0).
Proof. reflexivity. Qed.

(* the whole operator model: whenever splitdown_model runs to the end, the header is passed through and every emitted data row
   comes from a source row, with one of that row's parts at the split field and the row's own cells everywhere else *)
Definition split_row_of (hdr : row) (sep i : Z) (r out : row) : Prop :=
  exists s part, py_nth r i = Some (VStr s) /\ In part (split_on sep [] s) /\ length out = length hdr /\
    forall k, (k < length hdr)%nat -> nth_error out k = if Z.of_nat k =? i then Some (VStr part) else py_nth r (Z.of_nat k).

Lemma mapM_Forall2 {A B} (f : A -> res B) (l : list A) (out : list B) :
  mapM f l = Ok out -> Forall2 (fun x y => f x = Ok y) l out.
Proof.
  revert out; induction l as [|x t IH]; intros out; cbn [mapM]; [intros H; inversion H; constructor|].
  destruct (f x) as [y|e] eqn:Ey; [|discriminate]. destruct (mapM f t) as [rest|e] eqn:Er; [|discriminate].
  intros H; inversion H; subst. constructor; [exact Ey|apply IH; reflexivity].
Qed.

Theorem splitdown_model_frame (field : val) (sep : Z) (hdr : row) (rows : list row) (outt : table) :
  splitdown_model field sep (hdr :: rows) = (outt, None) ->
  exists i o, outt = hdr :: o /\ Forall (fun out => exists r, In r rows /\ split_row_of hdr sep i r out) o.
Proof.
  unfold splitdown_model.
  destruct (if is_int field && (int_of field <? zlen hdr) then Some (int_of field) else py_index field (map hdr_text hdr)) as [i|];
    [|discriminate].
  match goal with |- (let '(o, e) := ?g rows in _) = _ -> _ => set (go := g) end.
  destruct (go rows) as [o e] eqn:Ego. intros H. inversion H; subst; clear H. exists i, o. split; [reflexivity|].
  revert o Ego. induction rows as [|r rest IH]; intros o Ego.
  - cbn in Ego. inversion Ego; constructor.
  - cbn [go] in Ego. fold go in Ego.
    destruct (py_nth r i) as [[| ? ? | ? | s | ? | ? | ? | ? ?]|] eqn:Er; try discriminate.
    all: try (inversion Ego; fail).
    destruct (mapM _ (split_on sep [] s)) as [here|e] eqn:Eh; [|discriminate].
    destruct (go rest) as [o' e'] eqn:Eg'. inversion Ego; subst; clear Ego.
    apply Forall_app. split.
    + apply mapM_Forall2 in Eh. clear -Eh Er.
      assert (G : forall parts here', Forall2 (fun part y =>
                    mapM (split_cell r i (VStr part)) (zrange (length hdr) 0) = Ok y) parts here' ->
                  (forall p, In p parts -> In p (split_on sep [] s)) ->
                  Forall (fun out => exists r0, In r0 (r :: rest) /\ split_row_of hdr sep i r0 out) here').
      { induction 1 as [|part y ps ys Hy _ IHf]; intros Hin; constructor.
        - exists r. split; [left; reflexivity|]. exists s, part. split; [exact Er|]. split; [apply Hin; left; reflexivity|].
          exact (split_row_frame r i (VStr part) (length hdr) y Hy).
        - apply IHf. intros p Hp. apply Hin. right; exact Hp. }
      apply (G _ _ Eh). auto.
    + specialize (IH o' eq_refl). eapply Forall_impl; [|exact IH]. intros out [r0 [Hin Hs]]. exists r0. split; [right; exact Hin|exact Hs].
Qed.

(* the exact shape: the data rows are the concatenation, in source order, of one block per source row; the block of r has one
   row per part of r's split cell, in the order of the parts (so |block| = 1 + separators in the cell) *)
Definition split_part_row (hdr : row) (i : Z) (r : row) (part : list Z) (out : row) : Prop :=
  length out = length hdr /\
  forall k, (k < length hdr)%nat -> nth_error out k = if Z.of_nat k =? i then Some (VStr part) else py_nth r (Z.of_nat k).

Theorem splitdown_model_exact (field : val) (sep : Z) (hdr : row) (rows : list row) (outt : table) :
  splitdown_model field sep (hdr :: rows) = (outt, None) ->
  exists i blocks, outt = hdr :: concat blocks /\
    Forall2 (fun r block => exists s, py_nth r i = Some (VStr s) /\
                                      Forall2 (split_part_row hdr i r) (split_on sep [] s) block) rows blocks.
Proof.
  unfold splitdown_model.
  destruct (if is_int field && (int_of field <? zlen hdr) then Some (int_of field) else py_index field (map hdr_text hdr)) as [i|];
    [|discriminate].
  match goal with |- (let '(o, e) := ?g rows in _) = _ -> _ => set (go := g) end.
  destruct (go rows) as [o e] eqn:Ego. intros H. inversion H; subst; clear H. exists i.
  revert o Ego. induction rows as [|r rest IH]; intros o Ego.
  - cbn in Ego. inversion Ego. exists []. split; [reflexivity|constructor].
  - cbn [go] in Ego. fold go in Ego.
    destruct (py_nth r i) as [[| ? ? | ? | s | ? | ? | ? | ? ?]|] eqn:Er; try discriminate.
    destruct (mapM _ (split_on sep [] s)) as [here|e] eqn:Eh; [|discriminate].
    destruct (go rest) as [o' e'] eqn:Eg'. inversion Ego; subst; clear Ego.
    destruct (IH o' eq_refl) as [blocks [Hb Hf]]. exists (here :: blocks). split.
    + cbn [concat]. inversion Hb. reflexivity.
    + constructor; [|exact Hf]. exists s. split; [exact Er|].
      apply mapM_Forall2 in Eh. clear -Eh. induction Eh as [|part y ps ys Hy _ IHf]; constructor; [|exact IHf].
      exact (split_row_frame r i (VStr part) (length hdr) y Hy).
Qed.

Corollary splitdown_model_row_count (field : val) (sep : Z) (hdr : row) (rows : list row) (outt : table) :
  splitdown_model field sep (hdr :: rows) = (outt, None) ->
  exists i, length outt = S (list_sum (map (fun r => match py_nth r i with
                                                      | Some (VStr s) => S (length (filter (fun c => c =? sep) s))
                                                      | _ => O end) rows)).
Proof.
  intros H. destruct (splitdown_model_exact _ _ _ _ _ H) as [i [blocks [-> Hf]]]. exists i. cbn [length]. f_equal. clear H.
  induction Hf as [|r block rs bs [s [Er Hp]] _ IH]; [reflexivity|].
  assert (G : forall (P : list Z -> row -> Prop) l l', Forall2 P l l' -> length l = length l')
    by (induction 1; cbn; congruence).
  cbn [concat map list_sum]. rewrite app_length, IH, Er. cbv beta iota.
  apply (f_equal2 Nat.add); [|reflexivity].
  rewrite <- (G _ _ _ Hp). apply split_on_count.
Qed.
