(* JoinRel.v — the group-wise merge of iterjoin over key-sorted inputs IS the relational join:
   Permutation (join_loop lo ro (groupby L) (groupby R)) (nested-loop join of L and R), for inner, left, right and
   full outer joins; likewise antijoin and lookupjoin. *)
From Verif Require Import PyVal Rows Order CmpFacts ComparableGen ComparableFacts OrderTools AsIndicesGen Sort Basics
     Joins Relational JoinFacts SortFacts.
From Coq Require Import Lia Permutation Sorted.

(* ---- generic list facts ------------------------------------------------------------------------- *)
Lemma filter_none {A} (p : A -> bool) l : (forall x, In x l -> p x = false) -> filter p l = [].
Proof.
  induction l as [|x t IH]; intros H; simpl; auto.
  rewrite (H x (or_introl eq_refl)). apply IH. intros y Hy. apply H. right. exact Hy.
Qed.
Lemma filter_all {A} (p : A -> bool) l : (forall x, In x l -> p x = true) -> filter p l = l.
Proof.
  induction l as [|x t IH]; intros H; simpl; auto.
  rewrite (H x (or_introl eq_refl)). f_equal. apply IH. intros y Hy. apply H. right. exact Hy.
Qed.
Lemma flat_map_nil {A B} (f : A -> list B) l : (forall x, In x l -> f x = []) -> flat_map f l = [].
Proof.
  induction l as [|x t IH]; intros H; simpl; auto.
  rewrite (H x (or_introl eq_refl)). apply IH. intros y Hy. apply H. right. exact Hy.
Qed.
Lemma flat_map_ext_in {A B} (f g : A -> list B) l : (forall x, In x l -> f x = g x) -> flat_map f l = flat_map g l.
Proof.
  induction l as [|x t IH]; intros H; simpl; auto.
  rewrite (H x (or_introl eq_refl)). f_equal. apply IH. intros y Hy. apply H. right. exact Hy.
Qed.
Lemma flat_map_single {A B} (f : A -> B) l : flat_map (fun x => [f x]) l = map f l.
Proof. induction l; simpl; congruence. Qed.

Section Rel.
  Variables (n : nat) (lkind rkind rvind : list Z) (missing : val).
  Notation lk := (getkey lkind).
  Notation rk := (getkey rkind).
  Notation ml := (matches_l lkind rkind).
  Notation mr := (matches_r lkind rkind).
  Notation NI := (nl_inner lkind rkind rvind missing).
  Notation LU := (nl_left_unmatched lkind rkind rvind missing).
  Notation RU := (nl_right_unmatched n lkind rkind rvind missing).
  Notation NJ := (nl_join n lkind rkind rvind missing).
  Notation LO := (join_left_only rvind missing).
  Notation RO := (join_right_only n lkind rkind rvind missing).
  Notation JB := (join_both rvind missing).

  Definition nomatch (L R : list row) : Prop := forall l r, In l L -> In r R -> ceq (lk l) (rk r) = false.
  Definition allmatch (L R : list row) : Prop := forall l r, In l L -> In r R -> ceq (lk l) (rk r) = true.

  (* distribution over the outer list of each flat_map *)
  Lemma NI_app_l L1 L2 R : NI (L1 ++ L2) R = NI L1 R ++ NI L2 R.
  Proof. unfold nl_inner. apply flat_map_app. Qed.
  Lemma LU_app_l L1 L2 R : LU (L1 ++ L2) R = LU L1 R ++ LU L2 R.
  Proof. unfold nl_left_unmatched. apply flat_map_app. Qed.
  Lemma RU_app_r L R1 R2 : RU L (R1 ++ R2) = RU L R1 ++ RU L R2.
  Proof. unfold nl_right_unmatched. apply flat_map_app. Qed.

  Lemma ml_app R1 R2 l : ml (R1 ++ R2) l = ml R1 l ++ ml R2 l.
  Proof. unfold matches_l. apply filter_app. Qed.
  Lemma mr_app L1 L2 r : mr (L1 ++ L2) r = mr L1 r ++ mr L2 r.
  Proof. unfold matches_r. apply filter_app. Qed.

  Lemma ml_none L R l : nomatch L R -> In l L -> ml R l = [].
  Proof. intros H Hl. apply filter_none. intros r Hr. apply H; auto. Qed.
  Lemma mr_none L R r : nomatch L R -> In r R -> mr L r = [].
  Proof. intros H Hr. apply filter_none. intros l Hl. apply H; auto. Qed.
  Lemma ml_all L R l : allmatch L R -> In l L -> ml R l = R.
  Proof. intros H Hl. apply filter_all. intros r Hr. apply H; auto. Qed.
  Lemma mr_all L R r : allmatch L R -> In r R -> mr L r = L.
  Proof. intros H Hr. apply filter_all. intros l Hl. apply H; auto. Qed.

  (* a block of left rows that matches nothing on the right *)
  Lemma NI_nomatch L R : nomatch L R -> NI L R = [].
  Proof. intros H. apply flat_map_nil. intros l Hl. rewrite (ml_none L R l H Hl). reflexivity. Qed.
  Lemma LO_singletons L : LO L = flat_map (fun l => LO [l]) L.
  Proof. unfold join_left_only. induction L as [|l t IH]; simpl; auto; try (f_equal; exact IH). Qed.
  Lemma RO_singletons R : RO R = flat_map (fun r => RO [r]) R.
  Proof. unfold join_right_only. induction R as [|r t IH]; simpl; auto; try (f_equal; exact IH). Qed.

  Lemma LU_nomatch L R : nomatch L R -> LU L R = LO L.
  Proof.
    intros H. rewrite LO_singletons. unfold nl_left_unmatched.
    apply flat_map_ext_in. intros l Hl. rewrite (ml_none L R l H Hl). reflexivity.
  Qed.
  Lemma RU_nomatch L R : nomatch L R -> RU L R = RO R.
  Proof.
    intros H. rewrite RO_singletons. unfold nl_right_unmatched.
    apply flat_map_ext_in. intros r Hr. rewrite (mr_none L R r H Hr). reflexivity.
  Qed.

  (* adding, on the other side, a block that matches nothing changes nothing *)
  Lemma NI_drop_r L R1 R2 : nomatch L R1 -> NI L (R1 ++ R2) = NI L R2.
  Proof.
    intros H. apply flat_map_ext_in. intros l Hl. rewrite ml_app, (ml_none L R1 l H Hl). reflexivity.
  Qed.
  Lemma LU_drop_r L R1 R2 : nomatch L R1 -> LU L (R1 ++ R2) = LU L R2.
  Proof.
    intros H. apply flat_map_ext_in. intros l Hl. rewrite ml_app, (ml_none L R1 l H Hl). reflexivity.
  Qed.
  Lemma RU_drop_l L1 L2 R : nomatch L1 R -> RU (L1 ++ L2) R = RU L2 R.
  Proof.
    intros H. apply flat_map_ext_in. intros r Hr. rewrite mr_app, (mr_none L1 R r H Hr). reflexivity.
  Qed.

  (* two blocks that match each other completely *)
  Lemma NI_allmatch L R : allmatch L R -> NI L R = JB L R.
  Proof.
    intros H. unfold nl_inner, join_both. apply flat_map_ext_in. intros l Hl. rewrite (ml_all L R l H Hl). reflexivity.
  Qed.
  Lemma LU_allmatch L R R2 : allmatch L R -> R <> [] -> LU L (R ++ R2) = [].
  Proof.
    intros H Hne. apply flat_map_nil. intros l Hl. rewrite ml_app, (ml_all L R l H Hl).
    destruct R; [contradiction|reflexivity].
  Qed.
  Lemma RU_allmatch L L2 R : allmatch L R -> L <> [] -> RU (L ++ L2) R = [].
  Proof.
    intros H Hne. apply flat_map_nil. intros r Hr. rewrite mr_app, (mr_all L R r H Hr).
    destruct L; [contradiction|reflexivity].
  Qed.

  (* ---- the three cases of the merge step, as equations on the nested-loop join ------------------- *)
  Lemma caseA lo ro lg L' R : nomatch lg R ->
    NJ lo ro (lg ++ L') R = NI L' R ++ (if lo then LO lg ++ LU L' R else []) ++ (if ro then RU L' R else []).
  Proof.
    intros H. unfold nl_join.
    rewrite NI_app_l, (NI_nomatch lg R H), LU_app_l, (LU_nomatch lg R H), (RU_drop_l lg L' R H). reflexivity.
  Qed.

  Lemma caseB lo ro L rg R' : nomatch L rg ->
    NJ lo ro L (rg ++ R') = NI L R' ++ (if lo then LU L R' else []) ++ (if ro then RO rg ++ RU L R' else []).
  Proof.
    intros H. unfold nl_join.
    rewrite (NI_drop_r L rg R' H), (LU_drop_r L rg R' H), RU_app_r, (RU_nomatch L rg H). reflexivity.
  Qed.

  Lemma caseC lo ro lg L' rg R' :
    lg <> [] -> rg <> [] -> allmatch lg rg -> nomatch lg R' -> nomatch L' rg ->
    NJ lo ro (lg ++ L') (rg ++ R') = JB lg rg ++ NJ lo ro L' R'.
  Proof.
    intros Hl Hr Hall Hn1 Hn2. unfold nl_join.
    rewrite NI_app_l.
    assert (E1 : NI lg (rg ++ R') = JB lg rg).
    { rewrite <- (NI_allmatch lg rg Hall). unfold nl_inner. apply flat_map_ext_in. intros l Hin.
      rewrite ml_app, (ml_none lg R' l Hn1 Hin), app_nil_r. reflexivity. }
    rewrite E1, (NI_drop_r L' rg R' Hn2).
    rewrite LU_app_l, (LU_allmatch lg rg R' Hall Hr), (LU_drop_r L' rg R' Hn2).
    rewrite RU_app_r, (RU_allmatch lg L' rg Hall Hl), (RU_drop_l lg L' R' Hn1).
    cbn [app]. rewrite <- !app_assoc. reflexivity.
  Qed.

  (* ---- sorted, coherent group lists -------------------------------------------------------------- *)
  Definition coherent (kf : row -> val) (g : grp) : Prop :=
    snd g <> [] /\ forall r, In r (snd g) -> ceq (kf r) (fst g) = true.
  Definition grp_ok (kf : row -> val) (gs : list grp) : Prop := Forall (coherent kf) gs.
  Definition grp_sorted (gs : list grp) : Prop := StronglySorted (fun g1 g2 => clt (fst g1) (fst g2) = true) gs.
  Definition rows_of (gs : list grp) : list row := concat (map snd gs).

  Lemma rows_of_cons g gs : rows_of (g :: gs) = snd g ++ rows_of gs.
  Proof. reflexivity. Qed.

  Lemma in_rows_of r gs : In r (rows_of gs) -> exists g, In g gs /\ In r (snd g).
  Proof.
    unfold rows_of. intros H. apply in_concat in H. destruct H as (l & Hl & Hr).
    apply in_map_iff in Hl. destruct Hl as (g & E & Hg). subst. eauto.
  Qed.

  (* every row of the later groups has a key strictly above the head group's key *)
  Lemma keys_above kf g0 gs r :
    grp_ok kf gs -> grp_sorted (g0 :: gs) -> In r (rows_of gs) -> clt (fst g0) (kf r) = true.
  Proof.
    intros Hok Hs Hr. destruct (in_rows_of r gs Hr) as (g & Hg & Hin).
    inversion Hs as [|? ? _ Hall]; subst.
    unfold grp_ok in Hok. rewrite Forall_forall in Hall, Hok. specialize (Hall g Hg). destruct (Hok g Hg) as [_ Hc].
    rewrite (ceq_clt_r (kf r) (fst g) (fst g0) (Hc r Hin)). exact Hall.
  Qed.

  (* ---- the main theorem ----------------------------------------------------------------------------- *)
  Theorem join_loop_relational lo ro : forall lgs rgs,
    grp_ok lk lgs -> grp_ok rk rgs -> grp_sorted lgs -> grp_sorted rgs ->
    Permutation (join_loop n lkind rkind rvind missing lo ro lgs rgs) (NJ lo ro (rows_of lgs) (rows_of rgs)).
  Proof.
    induction lgs as [|[lk0 lg] lt IHl].
    - (* left exhausted *)
      intros rgs _ _ _ _. rewrite join_loop_left_empty. unfold nl_join. cbn [rows_of map concat nl_inner flat_map
        nl_left_unmatched app].
      assert (E : RU [] (rows_of rgs) = flat_map (fun g => RO (snd g)) rgs).
      { rewrite (RU_nomatch [] (rows_of rgs)) by (intros l r []).
        unfold rows_of, join_right_only. induction rgs as [|g t IH]; simpl; auto. rewrite map_app, IH. reflexivity. }
      destruct lo, ro; cbn [app]; rewrite ?E; reflexivity.
    - induction rgs as [|[rk0 rg] rt IHr]; intros Hlok Hrok Hls Hrs.
      + (* right exhausted *)
        rewrite join_loop_right_empty. unfold nl_join.
        rewrite NI_nomatch by (intros l r _ []).
        change (RU (rows_of ((lk0, lg) :: lt)) (rows_of [])) with (@nil row).
        destruct lo.
        * rewrite LU_nomatch by (intros l r _ []). rewrite left_only_all.
          destruct ro; cbn [app]; rewrite ?app_nil_r; reflexivity.
        * destruct ro; reflexivity.
      + inversion Hlok as [|? ? Hlg Hlok']; subst. inversion Hrok as [|? ? Hrg Hrok']; subst.
        destruct Hlg as [Hlne Hlc]. destruct Hrg as [Hrne Hrc]. cbn [fst snd] in *.
        assert (Hls' : grp_sorted lt) by (inversion Hls; auto).
        assert (Hrs' : grp_sorted rt) by (inversion Hrs; auto).
        rewrite !rows_of_cons. cbn [snd].
        cbn [join_loop]. fold (join_loop n lkind rkind rvind missing lo ro).
        destruct (clt lk0 rk0) eqn:Elt.
        * (* left group below the right one: unmatched *)
          assert (Hn : nomatch lg (rg ++ rows_of rt)).
          { intros l r Hl Hr. apply clt_not_ceq.
            rewrite (ceq_clt_l (lk l) lk0 (rk r) (Hlc l Hl)).
            apply in_app_or in Hr. destruct Hr as [Hr|Hr].
            - rewrite (ceq_clt_r (rk r) rk0 lk0 (Hrc r Hr)). exact Elt.
            - eapply clt_trans; [exact Elt|]. apply (keys_above rk (rk0, rg) rt r Hrok' Hrs Hr). }
          rewrite (caseA lo ro lg (rows_of lt) _ Hn).
          specialize (IHl ((rk0, rg) :: rt) Hlok' Hrok Hls' Hrs).
          rewrite rows_of_cons in IHl. cbn [snd] in IHl. rewrite IHl. unfold nl_join.
          destruct lo; cbn [app].
          -- rewrite <- !app_assoc. apply Permutation_app_swap_app.
          -- reflexivity.
        * rewrite cgt_is_flip. destruct (clt rk0 lk0) eqn:Egt.
          -- (* right group below the left one: unmatched *)
             assert (Hn : nomatch (lg ++ rows_of lt) rg).
             { intros l r Hl Hr. apply clt_not_ceq'.
               rewrite (ceq_clt_l (rk r) rk0 (lk l) (Hrc r Hr)).
               apply in_app_or in Hl. destruct Hl as [Hl|Hl].
               - rewrite (ceq_clt_r (lk l) lk0 rk0 (Hlc l Hl)). exact Egt.
               - eapply clt_trans; [exact Egt|]. apply (keys_above lk (lk0, lg) lt l Hlok' Hls Hl). }
             rewrite (caseB lo ro _ rg (rows_of rt) Hn).
             specialize (IHr Hlok Hrok' Hls Hrs'). rewrite rows_of_cons in IHr. cbn [snd] in IHr.
             rewrite IHr. unfold nl_join.
             destruct ro; cbn [app].
             ++ rewrite (app_assoc (NI _ _)). rewrite Permutation_app_swap_app. rewrite <- !app_assoc. reflexivity.
             ++ reflexivity.
          -- (* equal keys: the two groups join, nothing else matches them *)
             assert (Eeq : ceq lk0 rk0 = true) by (apply not_lt_not_gt_eq; auto).
             assert (Hall : allmatch lg rg).
             { intros l r Hl Hr. rewrite (ceq_ceq_l (lk l) lk0 (rk r) (Hlc l Hl)).
               rewrite (ceq_ceq_r (rk r) rk0 lk0 (Hrc r Hr)). exact Eeq. }
             assert (Hn1 : nomatch lg (rows_of rt)).
             { intros l r Hl Hr. apply clt_not_ceq. rewrite (ceq_clt_l (lk l) lk0 (rk r) (Hlc l Hl)).
               rewrite (ceq_clt_l lk0 rk0 (rk r) Eeq). apply (keys_above rk (rk0, rg) rt r Hrok' Hrs Hr). }
             assert (Hn2 : nomatch (rows_of lt) rg).
             { intros l r Hl Hr. apply clt_not_ceq'. rewrite (ceq_clt_l (rk r) rk0 (lk l) (Hrc r Hr)).
               rewrite <- (ceq_clt_l lk0 rk0 (lk l) Eeq). apply (keys_above lk (lk0, lg) lt l Hlok' Hls Hl). }
             rewrite (caseC lo ro lg (rows_of lt) rg (rows_of rt) Hlne Hrne Hall Hn1 Hn2).
             apply Permutation_app_head. apply IHl; auto.
  Qed.
End Rel.

(* ---- groupby of a key-sorted list yields coherent groups with strictly increasing keys ------------- *)
Section GroupBy.
  Variable kf : row -> val.

  Definition key_sorted (rows : list row) : Prop :=
    StronglySorted (fun a b => clt (kf b) (kf a) = false) rows.      (* kf a <= kf b *)

  Lemma groupby_heads r t : exists g rest, groupby kf (r :: t) = (kf r, r :: g) :: rest.
  Proof.
    simpl. destruct (groupby kf t) as [|[k g] rest]; eauto.
    destruct (ceq (kf r) k); eauto.
  Qed.

  Lemma groupby_ok rows : key_sorted rows -> grp_ok kf (groupby kf rows) /\ grp_sorted (groupby kf rows).
  Proof.
    induction 1 as [|r t Hs IH Hall]; simpl.
    - split; constructor.
    - destruct IH as [Hok Hsorted].
      destruct (groupby kf t) as [|[k g] rest] eqn:E.
      + split.
        * constructor; [|constructor]. split; [discriminate|]. intros x [Hx|[]]. subst. apply ceq_refl.
        * constructor; constructor.
      + inversion Hok as [|? ? [Hne Hc] Hok']; subst. cbn [fst snd] in *.
        inversion Hsorted as [|? ? Hs' Hall']; subst.
        (* the first row of g is a row of t, hence kf r <= its key ~ k *)
        assert (Hle : clt k (kf r) = false).
        { destruct g as [|x g']; [contradiction|].
          assert (Hx : In x t).
          { assert (In x (concat (map snd (groupby kf t)))) by (rewrite E; simpl; auto).
            rewrite groupby_concat in H. exact H. }
          rewrite Forall_forall in Hall. specialize (Hall x Hx).
          rewrite <- (ceq_clt_l (kf x) k (kf r) (Hc x (or_introl eq_refl))). exact Hall. }
        destruct (ceq (kf r) k) eqn:Eq.
        * split.
          -- constructor; auto. split; [discriminate|]. cbn [fst snd]. intros x [Hx|Hx].
             ++ subst. apply ceq_refl.
             ++ rewrite (ceq_ceq_r (kf r) k (kf x) Eq). apply Hc. exact Hx.
          -- constructor; auto. eapply Forall_impl; [|exact Hall']. cbn [fst]. intros g' Hg'.
             rewrite (ceq_clt_l (kf r) k (fst g') Eq). exact Hg'.
        * assert (Hlt : clt (kf r) k = true).
          { destruct (trichotomy (kf r) k) as [(A&B&C)|[(A&B&C)|(A&B&C)]]; congruence. }
          split.
          -- constructor; auto. split; [discriminate|]. intros x [Hx|[]]. subst. apply ceq_refl.
          -- constructor; auto. constructor; auto. cbn [fst].
             eapply Forall_impl; [|exact Hall']. cbn [fst]. intros g' Hg'. eapply clt_trans; eauto.
  Qed.
End GroupBy.

(* the in-memory sort produces a key_sorted list *)
Lemma sort_data_key_sorted idx rows : key_sorted (getkey idx) (sort_data (row_leb false idx) None rows).
Proof.
  pose proof (pysort_sorted _ (row_leb_total false idx) (row_leb_trans false idx) rows) as H.
  simpl. eapply StronglySorted_impl; [|exact H]. intros x y. unfold lebP, row_leb. simpl.
  destruct (clt (getkey idx y) (getkey idx x)); simpl; congruence.
Qed.

(* ---- the nested-loop join does not depend on the order of its inputs (as a multiset) ---------------- *)
Lemma Permutation_filter_ {A} (p : A -> bool) l l' : Permutation l l' -> Permutation (filter p l) (filter p l').
Proof.
  induction 1; simpl; auto.
  - destruct (p x); auto.
  - destruct (p x), (p y); auto. constructor.
  - etransitivity; eauto.
Qed.

Lemma Permutation_flat_map_pointwise {A B} (f g : A -> list B) l :
  (forall x, Permutation (f x) (g x)) -> Permutation (flat_map f l) (flat_map g l).
Proof. intros H. induction l as [|a t IH]; simpl; auto. apply Permutation_app; auto. Qed.

Lemma Permutation_flat_map_ext {A B} (f g : A -> list B) l l' :
  Permutation l l' -> (forall x, Permutation (f x) (g x)) -> Permutation (flat_map f l) (flat_map g l').
Proof.
  intros H Hfg. etransitivity; [apply Permutation_flat_map; exact H|].
  apply Permutation_flat_map_pointwise. exact Hfg.
Qed.

Lemma match_nil_perm {A B} (a b : list A) (X Y : B) :
  Permutation a b -> (match a with [] => X | _ :: _ => Y end) = (match b with [] => X | _ :: _ => Y end).
Proof.
  intros H. destruct a, b; auto.
  - apply Permutation_nil in H. discriminate.
  - symmetry in H. apply Permutation_nil in H. discriminate.
Qed.

Section Final.
  Variables (n : nat) (lkind rkind rvind : list Z) (missing : val).
  Notation lk := (getkey lkind).
  Notation rk := (getkey rkind).

  Lemma nl_join_perm lo ro L L' R R' : Permutation L L' -> Permutation R R' ->
    Permutation (nl_join n lkind rkind rvind missing lo ro L R) (nl_join n lkind rkind rvind missing lo ro L' R').
  Proof.
    intros HL HR. unfold nl_join. apply Permutation_app; [|apply Permutation_app].
    - unfold nl_inner. apply Permutation_flat_map_ext; auto. intros l.
      apply Permutation_map. apply Permutation_filter_. exact HR.
    - destruct lo; auto. unfold nl_left_unmatched. apply Permutation_flat_map_ext; auto. intros l.
      rewrite (match_nil_perm (matches_l lkind rkind R l) (matches_l lkind rkind R' l)); auto.
      apply Permutation_filter_. exact HR.
    - destruct ro; auto. unfold nl_right_unmatched. apply Permutation_flat_map_ext; auto. intros r.
      rewrite (match_nil_perm (matches_r lkind rkind L r) (matches_r lkind rkind L' r)); auto.
      apply Permutation_filter_. exact HL.
  Qed.

  (* JoinView: sort both (squared-up) inputs by key, group, merge  ==  the relational operator, as a multiset *)
  Theorem join_is_relational lo ro (bl br : option nat) L R :
    (forall b, bl = Some b -> (1 <= b)%nat) -> (forall b, br = Some b -> (1 <= b)%nat) ->
    Permutation
      (join_loop n lkind rkind rvind missing lo ro
                 (groupby lk (sort_data (row_leb false lkind) bl L))
                 (groupby rk (sort_data (row_leb false rkind) br R)))
      (nl_join n lkind rkind rvind missing lo ro L R).
  Proof.
    intros Hbl Hbr.
    assert (EL : sort_data (row_leb false lkind) bl L = sort_data (row_leb false lkind) None L).
    { destruct bl as [b|]; auto. apply sort_data_chunked;
        [apply row_leb_total | apply row_leb_trans | apply Hbl; reflexivity]. }
    assert (ER : sort_data (row_leb false rkind) br R = sort_data (row_leb false rkind) None R).
    { destruct br as [b|]; auto. apply sort_data_chunked;
        [apply row_leb_total | apply row_leb_trans | apply Hbr; reflexivity]. }
    rewrite EL, ER.
    set (Ls := sort_data (row_leb false lkind) None L). set (Rs := sort_data (row_leb false rkind) None R).
    destruct (groupby_ok lk Ls (sort_data_key_sorted lkind L)) as [Hlok Hls].
    destruct (groupby_ok rk Rs (sort_data_key_sorted rkind R)) as [Hrok Hrs].
    etransitivity; [apply (join_loop_relational n lkind rkind rvind missing lo ro _ _ Hlok Hrok Hls Hrs)|].
    unfold rows_of. rewrite !groupby_concat.
    apply nl_join_perm; apply sort_data_perm.
  Qed.

  (* ---- antijoin and lookupjoin: exact (order included) on the key-sorted inputs ------------------------ *)
  Notation ml := (matches_l lkind rkind).
  Notation NA := (nl_anti lkind rkind).
  Notation NL := (nl_lookup lkind rkind rvind missing).

  Lemma NA_app L1 L2 R : NA (L1 ++ L2) R = NA L1 R ++ NA L2 R.
  Proof. unfold nl_anti. apply filter_app. Qed.
  Lemma NL_app L1 L2 R : NL (L1 ++ L2) R = NL L1 R ++ NL L2 R.
  Proof. unfold nl_lookup. apply map_app. Qed.

  Lemma filter_ext_in_ {A} (p q : A -> bool) l : (forall x, In x l -> p x = q x) -> filter p l = filter q l.
  Proof.
    induction l as [|x t IH]; intros H; simpl; auto.
    rewrite (H x (or_introl eq_refl)), IH; auto. intros y Hy. apply H. right. exact Hy.
  Qed.

  Lemma antijoin_loop_cons lk0 lg lt rk0 rg rt :
    antijoin_loop ((lk0, lg) :: lt) ((rk0, rg) :: rt) =
    if clt lk0 rk0 then lg ++ antijoin_loop lt ((rk0, rg) :: rt)
    else if cgt lk0 rk0 then antijoin_loop ((lk0, lg) :: lt) rt else antijoin_loop lt rt.
  Proof. reflexivity. Qed.
  Lemma lookupjoin_loop_cons lk0 lg lt rk0 rg rt :
    lookupjoin_loop rvind missing ((lk0, lg) :: lt) ((rk0, rg) :: rt) =
    if clt lk0 rk0 then join_left_only rvind missing lg ++ lookupjoin_loop rvind missing lt ((rk0, rg) :: rt)
    else if cgt lk0 rk0 then lookupjoin_loop rvind missing ((lk0, lg) :: lt) rt
    else lookup_both rvind missing lg rg ++ lookupjoin_loop rvind missing lt rt.
  Proof. reflexivity. Qed.

  Theorem antijoin_loop_exact : forall lgs rgs,
    grp_ok lk lgs -> grp_ok rk rgs -> grp_sorted lgs -> grp_sorted rgs ->
    antijoin_loop lgs rgs = NA (rows_of lgs) (rows_of rgs).
  Proof.
    induction lgs as [|[lk0 lg] lt IHl].
    - intros rgs _ _ _ _. destruct rgs; reflexivity.
    - induction rgs as [|[rk0 rg] rt IHr]; intros Hlok Hrok Hls Hrs.
      + rewrite antijoin_loop_right_empty. change (rows_of []) with (@nil row).
        unfold nl_anti. rewrite filter_all by reflexivity.
        unfold rows_of. rewrite flat_map_concat_map. reflexivity.
      + inversion Hlok as [|? ? Hlg Hlok']; subst. inversion Hrok as [|? ? Hrg Hrok']; subst.
        destruct Hlg as [Hlne Hlc]. destruct Hrg as [Hrne Hrc]. cbn [fst snd] in *.
        assert (Hls' : grp_sorted lt) by (inversion Hls; auto).
        assert (Hrs' : grp_sorted rt) by (inversion Hrs; auto).
        rewrite !rows_of_cons. cbn [snd].
        rewrite antijoin_loop_cons.
        destruct (clt lk0 rk0) eqn:Elt.
        * assert (Hn : nomatch lkind rkind lg (rg ++ rows_of rt)).
          { intros l r Hl Hr. apply clt_not_ceq.
            rewrite (ceq_clt_l (lk l) lk0 (rk r) (Hlc l Hl)).
            apply in_app_or in Hr. destruct Hr as [Hr|Hr].
            - rewrite (ceq_clt_r (rk r) rk0 lk0 (Hrc r Hr)). exact Elt.
            - eapply clt_trans; [exact Elt|]. apply (keys_above rk (rk0, rg) rt r Hrok' Hrs Hr). }
          rewrite NA_app. f_equal.
          -- unfold nl_anti. symmetry. apply filter_all. intros l Hl. rewrite (ml_none lkind rkind lg _ l Hn Hl). reflexivity.
          -- specialize (IHl ((rk0, rg) :: rt) Hlok' Hrok Hls' Hrs). rewrite rows_of_cons in IHl. exact IHl.
        * rewrite cgt_is_flip. destruct (clt rk0 lk0) eqn:Egt.
          -- assert (Hn : nomatch lkind rkind (lg ++ rows_of lt) rg).
             { intros l r Hl Hr. apply clt_not_ceq'.
               rewrite (ceq_clt_l (rk r) rk0 (lk l) (Hrc r Hr)).
               apply in_app_or in Hl. destruct Hl as [Hl|Hl].
               - rewrite (ceq_clt_r (lk l) lk0 rk0 (Hlc l Hl)). exact Egt.
               - eapply clt_trans; [exact Egt|]. apply (keys_above lk (lk0, lg) lt l Hlok' Hls Hl). }
             specialize (IHr Hlok Hrok' Hls Hrs'). rewrite rows_of_cons in IHr. cbn [snd] in IHr.
             etransitivity; [exact IHr|].
             unfold nl_anti. apply filter_ext_in_. intros l Hl.
             rewrite (ml_app lkind rkind rg (rows_of rt) l), (ml_none lkind rkind _ rg l Hn Hl). reflexivity.
          -- assert (Eeq : ceq lk0 rk0 = true) by (apply not_lt_not_gt_eq; auto).
             assert (Hall : allmatch lkind rkind lg rg).
             { intros l r Hl Hr. rewrite (ceq_ceq_l (lk l) lk0 (rk r) (Hlc l Hl)).
               rewrite (ceq_ceq_r (rk r) rk0 lk0 (Hrc r Hr)). exact Eeq. }
             assert (Hn2 : nomatch lkind rkind (rows_of lt) rg).
             { intros l r Hl Hr. apply clt_not_ceq'. rewrite (ceq_clt_l (rk r) rk0 (lk l) (Hrc r Hr)).
               rewrite <- (ceq_clt_l lk0 rk0 (lk l) Eeq). apply (keys_above lk (lk0, lg) lt l Hlok' Hls Hl). }
             rewrite NA_app.
             assert (E1 : NA lg (rg ++ rows_of rt) = []).
             { unfold nl_anti. apply filter_none. intros l Hl.
               rewrite (ml_app lkind rkind rg (rows_of rt) l), (ml_all lkind rkind lg rg l Hall Hl).
               destruct rg; [contradiction|reflexivity]. }
             rewrite E1. cbn [app].
             rewrite (IHl rt Hlok' Hrok' Hls' Hrs').
             unfold nl_anti. apply filter_ext_in_. intros l Hl.
             rewrite (ml_app lkind rkind rg (rows_of rt) l), (ml_none lkind rkind _ rg l Hn2 Hl). reflexivity.
  Qed.

  Theorem lookupjoin_loop_exact : forall lgs rgs,
    grp_ok lk lgs -> grp_ok rk rgs -> grp_sorted lgs -> grp_sorted rgs ->
    lookupjoin_loop rvind missing lgs rgs = NL (rows_of lgs) (rows_of rgs).
  Proof.
    induction lgs as [|[lk0 lg] lt IHl].
    - intros rgs _ _ _ _. destruct rgs; reflexivity.
    - induction rgs as [|[rk0 rg] rt IHr]; intros Hlok Hrok Hls Hrs.
      + rewrite lookupjoin_loop_right_empty. change (rows_of []) with (@nil row).
        rewrite left_only_all. unfold nl_lookup, join_left_only, matches_l. reflexivity.
      + inversion Hlok as [|? ? Hlg Hlok']; subst. inversion Hrok as [|? ? Hrg Hrok']; subst.
        destruct Hlg as [Hlne Hlc]. destruct Hrg as [Hrne Hrc]. cbn [fst snd] in *.
        assert (Hls' : grp_sorted lt) by (inversion Hls; auto).
        assert (Hrs' : grp_sorted rt) by (inversion Hrs; auto).
        rewrite !rows_of_cons. cbn [snd].
        rewrite lookupjoin_loop_cons.
        destruct (clt lk0 rk0) eqn:Elt.
        * assert (Hn : nomatch lkind rkind lg (rg ++ rows_of rt)).
          { intros l r Hl Hr. apply clt_not_ceq.
            rewrite (ceq_clt_l (lk l) lk0 (rk r) (Hlc l Hl)).
            apply in_app_or in Hr. destruct Hr as [Hr|Hr].
            - rewrite (ceq_clt_r (rk r) rk0 lk0 (Hrc r Hr)). exact Elt.
            - eapply clt_trans; [exact Elt|]. apply (keys_above rk (rk0, rg) rt r Hrok' Hrs Hr). }
          rewrite NL_app. f_equal.
          -- unfold nl_lookup, join_left_only. apply map_ext_in. intros l Hl.
             rewrite (ml_none lkind rkind lg _ l Hn Hl). reflexivity.
          -- specialize (IHl ((rk0, rg) :: rt) Hlok' Hrok Hls' Hrs). rewrite rows_of_cons in IHl. exact IHl.
        * rewrite cgt_is_flip. destruct (clt rk0 lk0) eqn:Egt.
          -- assert (Hn : nomatch lkind rkind (lg ++ rows_of lt) rg).
             { intros l r Hl Hr. apply clt_not_ceq'.
               rewrite (ceq_clt_l (rk r) rk0 (lk l) (Hrc r Hr)).
               apply in_app_or in Hl. destruct Hl as [Hl|Hl].
               - rewrite (ceq_clt_r (lk l) lk0 rk0 (Hlc l Hl)). exact Egt.
               - eapply clt_trans; [exact Egt|]. apply (keys_above lk (lk0, lg) lt l Hlok' Hls Hl). }
             specialize (IHr Hlok Hrok' Hls Hrs'). rewrite rows_of_cons in IHr. cbn [snd] in IHr.
             etransitivity; [exact IHr|].
             unfold nl_lookup. apply map_ext_in. intros l Hl.
             rewrite (ml_app lkind rkind rg (rows_of rt) l), (ml_none lkind rkind _ rg l Hn Hl). reflexivity.
          -- assert (Eeq : ceq lk0 rk0 = true) by (apply not_lt_not_gt_eq; auto).
             assert (Hall : allmatch lkind rkind lg rg).
             { intros l r Hl Hr. rewrite (ceq_ceq_l (lk l) lk0 (rk r) (Hlc l Hl)).
               rewrite (ceq_ceq_r (rk r) rk0 lk0 (Hrc r Hr)). exact Eeq. }
             assert (Hn2 : nomatch lkind rkind (rows_of lt) rg).
             { intros l r Hl Hr. apply clt_not_ceq'. rewrite (ceq_clt_l (rk r) rk0 (lk l) (Hrc r Hr)).
               rewrite <- (ceq_clt_l lk0 rk0 (lk l) Eeq). apply (keys_above lk (lk0, lg) lt l Hlok' Hls Hl). }
             rewrite NL_app. f_equal.
             ++ unfold nl_lookup, lookup_both. destruct rg as [|r0 rg']; [contradiction|].
                apply map_ext_in. intros l Hl.
                rewrite (ml_app lkind rkind (r0 :: rg') (rows_of rt) l), (ml_all lkind rkind lg (r0 :: rg') l Hall Hl).
                reflexivity.
             ++ rewrite (IHl rt Hlok' Hrok' Hls' Hrs').
                unfold nl_lookup. apply map_ext_in. intros l Hl.
                rewrite (ml_app lkind rkind rg (rows_of rt) l), (ml_none lkind rkind _ rg l Hn2 Hl). reflexivity.
  Qed.
End Final.

Section Corollaries.
  Variables (n : nat) (lkind rkind rvind : list Z) (missing : val).
  Notation lk := (getkey lkind).
  Notation rk := (getkey rkind).
  Notation srt := (fun idx rows => sort_data (row_leb false idx) None rows).

  (* a stable sort does not change which right rows match a left row, nor their order *)
  Lemma matches_l_sorted R l : matches_l lkind rkind (srt rkind R) l = matches_l lkind rkind R l.
  Proof.
    unfold matches_l.
    assert (E : forall rows, filter (fun r => ceq (lk l) (rk r)) rows = filter (fun r => ceq (rk r) (lk l)) rows).
    { intros rows. apply filter_ext. intros r. apply ceq_sym. }
    rewrite !E. apply sort_data_stable.
  Qed.

  Theorem antijoin_is_relational L R :
    Permutation (antijoin_loop (groupby lk (srt lkind L)) (groupby rk (srt rkind R))) (nl_anti lkind rkind L R).
  Proof.
    destruct (groupby_ok lk _ (sort_data_key_sorted lkind L)) as [Hlok Hls].
    destruct (groupby_ok rk _ (sort_data_key_sorted rkind R)) as [Hrok Hrs].
    rewrite (antijoin_loop_exact lkind rkind _ _ Hlok Hrok Hls Hrs).
    unfold rows_of. rewrite !groupby_concat. unfold nl_anti.
    rewrite (filter_ext_in_ _ (fun l => match matches_l lkind rkind R l with [] => true | _ :: _ => false end)).
    - apply Permutation_filter_. apply sort_data_perm.
    - intros l _. rewrite matches_l_sorted. reflexivity.
  Qed.

  (* lookupjoin pairs each left row with its first partner IN TABLE ORDER of the right table *)
  Theorem lookupjoin_is_relational L R :
    Permutation (lookupjoin_loop rvind missing (groupby lk (srt lkind L)) (groupby rk (srt rkind R)))
                (nl_lookup lkind rkind rvind missing L R).
  Proof.
    destruct (groupby_ok lk _ (sort_data_key_sorted lkind L)) as [Hlok Hls].
    destruct (groupby_ok rk _ (sort_data_key_sorted rkind R)) as [Hrok Hrs].
    rewrite (lookupjoin_loop_exact lkind rkind rvind missing _ _ Hlok Hrok Hls Hrs).
    unfold rows_of. rewrite !groupby_concat. unfold nl_lookup.
    rewrite (map_ext _ (fun l => match matches_l lkind rkind R l with
                                 | [] => l ++ map (fun _ => missing) rvind
                                 | r :: _ => l ++ rgetv rvind missing r end)).
    - apply Permutation_map. apply sort_data_perm.
    - intros l. rewrite matches_l_sorted. reflexivity.
  Qed.
End Corollaries.
