(* HeaderOnlyFacts.v — the operator models on tables that have a header and no data rows (symbolic header). *)
From Verif Require Import PyVal Rows ComparableGen AsIndicesGen Sort SortFacts Basics Dedup SetOps Joins Reductions
     JoinFacts MachineFacts.
From Coq Require Import Lia.

Lemma sort_header_only bs rev key hdr i idx :
  key_indices hdr key = Ok (i :: idx) -> sort_model bs rev key [hdr] = ([hdr], None).
Proof. intros H. unfold sort_model. rewrite H. rewrite sort_data_nil. reflexivity. Qed.

Lemma dedup_header_only op key pre bs hdr i idx :
  key_indices hdr key = Ok (i :: idx) ->
  dedup_model op key pre bs [hdr]
  = ([match op with OpDistinctCount name => hdr ++ [name] | _ => hdr end], None).
Proof.
  intros H. unfold dedup_model, dedup_source. destruct pre.
  - rewrite H. destruct op; reflexivity.
  - rewrite (sort_header_only bs false key hdr i idx H). rewrite H. destruct op; reflexivity.
Qed.

(* complement / intersection with a header-only side *)
Lemma complement_header_only_b strict ra : itercomplement_data strict ra [] = ra.
Proof. destruct ra; reflexivity. Qed.
Lemma complement_header_only_a strict rb : itercomplement_data strict [] rb = [].
Proof. reflexivity. Qed.
Lemma intersection_header_only_a rb : iterintersection_data [] rb = [].
Proof. reflexivity. Qed.
Lemma intersection_header_only_b ra : iterintersection_data ra [] = [].
Proof. destruct ra; reflexivity. Qed.

Lemma hashcomplement_header_only_b strict ra : hashcomp_loop strict (cnt_of []) ra = ra.
Proof. induction ra as [|r t IH]; simpl; auto. f_equal. exact IH. Qed.
Lemma hashintersection_header_only_b ra : hashinter_loop (cnt_of []) ra = [].
Proof. induction ra as [|r t IH]; simpl; auto. Qed.

(* grouping operators: no rows -> no groups *)
Lemma groupby_nil keyf : groupby keyf [] = [].
Proof. reflexivity. Qed.

Lemma rowreduce_header_only key red pre bs hdr i idx :
  key_indices hdr (Some key) = Ok (i :: idx) ->
  rowreduce_model key red None pre bs [hdr] = ([hdr], None).
Proof.
  intros H. unfold rowreduce_model, sorted_unless, rowreduce_core. destruct pre.
  - cbn [key_indices] in H. rewrite H. reflexivity.
  - rewrite (sort_header_only bs false (Some key) hdr i idx H). cbn [key_indices] in H. rewrite H. reflexivity.
Qed.
