(* ExtremeFacts.v — groupselectmin / groupselectmax deliver, for every key, the FIRST extreme row of its group.
   groupselectmin(t, key, value) = groupselectfirst(sort(t, value), key): a stable sort by value followed by a stable sort by
   key and a groupby.  Two generic facts carry the proof: a stable sort commutes with filtering (for a total, transitive
   order) and the head of a stable sort is the earliest minimal element. *)
From Verif Require Import PyVal Rows Order CmpFacts ComparableGen ComparableFacts OrderTools AsIndicesGen Sort SortFacts
     Basics Dedup Joins Relational JoinFacts JoinRel Reductions ReduceFacts.
From Coq Require Import Lia Permutation Sorted.

Section Generic.
  Context {A : Type} (leb : A -> A -> bool).
  Hypothesis leb_total : forall x y, leb x y = true \/ leb y x = true.
  Hypothesis leb_trans : forall x y z, leb x y = true -> leb y z = true -> leb x z = true.

  Lemma insert_below_all x l : Forall (fun z => leb x z = true) l -> insert leb x l = x :: l.
  Proof. intros H. destruct l as [|y t]; simpl; auto. inversion H; subst. rewrite H2. reflexivity. Qed.

  Lemma insert_filter_sorted (p : A -> bool) x s : StronglySorted (lebP leb) s ->
    filter p (insert leb x s) = if p x then insert leb x (filter p s) else filter p s.
  Proof.
    induction 1 as [|y t Hs IH Hall]; simpl.
    - destruct (p x); reflexivity.
    - destruct (leb x y) eqn:E; simpl.
      + destruct (p x) eqn:Px; [|reflexivity].
        destruct (p y) eqn:Py; simpl; [rewrite E; reflexivity|].
        rewrite insert_below_all; [reflexivity|].
        rewrite Forall_forall. intros z Hz. apply filter_In in Hz. destruct Hz as [Hz _].
        rewrite Forall_forall in Hall. apply (leb_trans x y z E). apply Hall. exact Hz.
      + rewrite IH. destruct (p x) eqn:Px; destruct (p y) eqn:Py; simpl; try reflexivity.
        rewrite E. reflexivity.
  Qed.

  (* a stable sort commutes with any filter *)
  Theorem pysort_filter (p : A -> bool) l : filter p (pysort leb l) = pysort leb (filter p l).
  Proof.
    induction l as [|x l IH]; simpl; auto.
    rewrite insert_filter_sorted by (apply pysort_sorted; assumption).
    rewrite IH. destruct (p x); reflexivity.
  Qed.

  (* the earliest minimal element: a later element replaces an earlier one only when strictly smaller *)
  Fixpoint rmin (x : A) (l : list A) : A :=
    match l with
    | [] => x
    | y :: t => let m := rmin y t in if leb x m then x else m
    end.

  Lemma hd_insert (d : A) x s : hd d (insert leb x s) = match s with [] => x | y :: _ => if leb x y then x else y end.
  Proof. destruct s as [|y t]; simpl; auto. destruct (leb x y); reflexivity. Qed.

  Lemma pysort_cons_nonempty x l : pysort leb (x :: l) <> [].
  Proof. simpl. destruct (pysort leb l) as [|y t]; simpl; [discriminate|]. destruct (leb x y); discriminate. Qed.

  Theorem hd_pysort_is_rmin (d : A) x l : hd d (pysort leb (x :: l)) = rmin x l.
  Proof.
    revert x. induction l as [|y t IH]; intros x; [reflexivity|].
    change (pysort leb (x :: y :: t)) with (insert leb x (pysort leb (y :: t))).
    rewrite hd_insert. specialize (IH y).
    destruct (pysort leb (y :: t)) as [|z s] eqn:E; [exfalso; exact (pysort_cons_nonempty y t E)|].
    simpl in IH. simpl. rewrite IH. reflexivity.
  Qed.

  (* rmin is a member, is not after any member, and everything delivered before it is strictly after it *)
  Lemma rmin_below x l : Forall (fun z => leb (rmin x l) z = true) (x :: l).
  Proof.
    revert x. induction l as [|y t IH]; intros x.
    - constructor; [|constructor]. destruct (leb_total x x); assumption.
    - specialize (IH y). simpl. destruct (leb x (rmin y t)) eqn:E.
      + constructor; [destruct (leb_total x x); assumption|].
        rewrite Forall_forall in *. intros z Hz. apply (leb_trans x (rmin y t) z E). apply IH. exact Hz.
      + constructor; [|exact IH]. destruct (leb_total x (rmin y t)) as [H|H]; congruence.
  Qed.

  Theorem rmin_first x l :
    exists pre post, x :: l = pre ++ rmin x l :: post /\ Forall (fun z => leb z (rmin x l) = false) pre.
  Proof.
    revert x. induction l as [|y t IH]; intros x.
    - exists [], []. split; [reflexivity|constructor].
    - destruct (IH y) as [pre [post [E Hpre]]]. simpl. destruct (leb x (rmin y t)) eqn:Hx.
      + exists [], (y :: t). split; [reflexivity|constructor].
      + exists (x :: pre), post. split; [simpl; rewrite E; reflexivity|]. constructor; assumption.
  Qed.

  Lemma rmin_in x l : In (rmin x l) (x :: l).
  Proof.
    destruct (rmin_first x l) as [pre [post [E _]]]. rewrite E. apply in_or_app. right. left. reflexivity.
  Qed.
End Generic.

(* groupselectmin (rev = false) / groupselectmax (rev = true): sort by the value field, then groupselectfirst on the key *)
Theorem groupselect_first_extreme (rev : bool) kidx vidx (bs : option nat) rows :
  (forall b, bs = Some b -> (1 <= b)%nat) ->
  let leb := row_leb rev vidx in
  let gs := groupby (getkey kidx) (sort_data (row_leb false kidx) bs (sort_data leb None rows)) in
  forall g, In g gs ->
    exists x l, filter (fun r => ceq (getkey kidx r) (fst g)) rows = x :: l
             /\ hd [] (snd g) = rmin leb x l.
Proof.
  intros Hb leb gs g Hg.
  destruct (rowgroupby_groups kidx bs (sort_data leb None rows) Hb) as [_ [_ Hgrp]].
  destruct (Hgrp g Hg) as [E Hne]. clear Hgrp.
  change (sort_data leb None rows) with (pysort leb rows) in E.
  rewrite (pysort_filter leb (row_leb_total rev vidx) (row_leb_trans rev vidx)) in E.
  destruct (filter (fun r => ceq (getkey kidx r) (fst g)) rows) as [|x l] eqn:F.
  - simpl in E. contradiction.
  - exists x, l. split; [reflexivity|]. rewrite E.
    apply (hd_pysort_is_rmin leb).
Qed.

(* read off: the selected row has the group's key, precedes no member in the value order, and every member of the
   group that comes before it in the TABLE is strictly worse *)
Theorem groupselect_selected_row (rev : bool) kidx vidx (bs : option nat) rows :
  (forall b, bs = Some b -> (1 <= b)%nat) ->
  let leb := row_leb rev vidx in
  let gs := groupby (getkey kidx) (sort_data (row_leb false kidx) bs (sort_data leb None rows)) in
  forall g, In g gs ->
    let members := filter (fun r => ceq (getkey kidx r) (fst g)) rows in
    let sel := hd [] (snd g) in
    In sel members
    /\ Forall (fun z => leb sel z = true) members
    /\ exists pre post, members = pre ++ sel :: post /\ Forall (fun z => leb z sel = false) pre.
Proof.
  intros Hb leb gs g Hg members sel.
  destruct (groupselect_first_extreme rev kidx vidx bs rows Hb g Hg) as [x [l [F E]]].
  unfold members, sel. rewrite F. fold leb in E. rewrite E.
  split; [apply rmin_in|split].
  - apply rmin_below; [apply row_leb_total | apply row_leb_trans].
  - apply rmin_first.
Qed.

(* ---- group sums add up to the overall sum ------------------------------------------------------------------------------ *)
Definition zsum (f : row -> Z) (l : list row) : Z := fold_right (fun r acc => (f r + acc)%Z) 0%Z l.

Lemma zsum_app f a b : zsum f (a ++ b) = (zsum f a + zsum f b)%Z.
Proof. unfold zsum. induction a as [|x t IH]; cbn [app fold_right]; [lia|]. rewrite IH. lia. Qed.

Lemma zsum_perm f l1 l2 : Permutation l1 l2 -> zsum f l1 = zsum f l2.
Proof. unfold zsum. induction 1; cbn [fold_right]; lia. Qed.

Lemma zsum_concat f ls : zsum f (concat ls) = fold_right (fun g acc => (zsum f g + acc)%Z) 0%Z ls.
Proof. induction ls as [|g t IH]; cbn [concat fold_right]; [reflexivity|]. rewrite zsum_app, IH. reflexivity. Qed.

Theorem group_sums_add_up (f : row -> Z) idx (bs : option nat) rows :
  (forall b, bs = Some b -> (1 <= b)%nat) ->
  fold_right (fun g acc => (zsum f (snd g) + acc)%Z) 0%Z (groupby (getkey idx) (sort_data (row_leb false idx) bs rows))
  = zsum f rows.
Proof.
  intros Hb. destruct (rowgroupby_groups idx bs rows Hb) as [Hperm _].
  rewrite <- (zsum_perm f _ _ Hperm). rewrite zsum_concat. clear Hperm.
  induction (groupby (getkey idx) (sort_data (row_leb false idx) bs rows)) as [|g t IH]; cbn [map fold_right]; [reflexivity|].
  rewrite IH. reflexivity.
Qed.
