(* MeltFacts.v — melt emits exactly one row per (row, variable) cell that exists, in variable order, each carrying the row's key
   cells, the variable's name and that cell; about the per-row expansion melt_model runs (named melt_block here; the model's
   anonymous function is convertible with it) and about the whole operator model. *)
From Verif Require Import PyVal Rows ComparableGen AsIndicesGen Sort Basics Reshape.
From Coq Require Import Lia.
Open Scope Z_scope.

Definition melt_block (k r : row) (pairs : list (val * Z)) : list row :=
  flat_map (fun vn_i : val * Z => match py_nth r (snd vn_i) with
                                  | Some x => [k ++ [fst vn_i; x]]
                                  | None => []
                                  end) pairs.

Definition has_cell (r : row) (p : val * Z) : bool := match py_nth r (snd p) with Some _ => true | None => false end.
Definition cell_or_none (r : row) (i : Z) : val := match py_nth r i with Some x => x | None => VNone end.

(* one output row per variable whose cell exists in the row (short rows lose the variables beyond their end), in variable order *)
Theorem melt_block_spec (k r : row) (pairs : list (val * Z)) :
  melt_block k r pairs = map (fun p => k ++ [fst p; cell_or_none r (snd p)]) (filter (has_cell r) pairs).
Proof.
  unfold melt_block, has_cell, cell_or_none. induction pairs as [|p t IH]; [reflexivity|].
  cbn [flat_map filter]. destruct (py_nth r (snd p)) as [x|] eqn:E; cbn [map app]; rewrite ?E, IH; reflexivity.
Qed.

(* rectangular case: exactly one row per variable *)
Corollary melt_block_full (k r : row) (pairs : list (val * Z)) :
  (forall p, In p pairs -> has_cell r p = true) ->
  melt_block k r pairs = map (fun p => k ++ [fst p; cell_or_none r (snd p)]) pairs /\
  length (melt_block k r pairs) = length pairs.
Proof.
  intros H. rewrite melt_block_spec.
  assert (E : filter (has_cell r) pairs = pairs).
  { induction pairs as [|p t IH]; [reflexivity|]. cbn [filter]. rewrite (H p (or_introl eq_refl)). f_equal. apply IH.
    intros q Hq. apply H. right; exact Hq. }
  rewrite E. split; [reflexivity|apply map_length].
Qed.

(* every emitted row ends with (variable name, the row's own cell at that variable's position) after the key cells *)
Corollary melt_block_rows (k r : row) (pairs : list (val * Z)) (m : row) :
  In m (melt_block k r pairs) -> exists vn i x, In (vn, i) pairs /\ py_nth r i = Some x /\ m = k ++ [vn; x].
Proof.
  rewrite melt_block_spec. intros H. apply in_map_iff in H. destruct H as [[vn i] [E Hin]]. apply filter_In in Hin.
  destruct Hin as [Hin Hc]. unfold has_cell, cell_or_none in *. cbn [fst snd] in *.
  destruct (py_nth r i) as [x|] eqn:Ex; [|discriminate]. exists vn, i, x. auto.
Qed.

(* the whole operator: header = key fields + the two new names; data = one block per source row, in source order *)
Theorem melt_model_exact (key variables : option val) (vf valf : val) (hdr : row) (rows : list row) (outt : table) :
  melt_model key variables vf valf (hdr :: rows) = (outt, None) ->
  exists ki pairs khdr blocks,
    rowgetter ki hdr = Some khdr /\ outt = (khdr ++ [vf; valf]) :: concat blocks /\
    Forall2 (fun r block => exists k, rowgetter ki r = Some k /\ block = melt_block k r pairs) rows blocks.
Proof.
  unfold melt_model.
  assert (G : forall ki pairs khdr (go := fix go (rows : list row) : list row * option exn :=
                           match rows with
                           | [] => ([], None)
                           | r :: rest =>
                               match rowgetter ki r with
                               | None => ([], Some IndexErr)
                               | Some k =>
                                   let here := melt_block k r pairs in
                                   let '(o, e) := go rest in (here ++ o, e)
                               end
                           end) out,
             rowgetter ki hdr = Some khdr -> go rows = (out, None) ->
             exists blocks, out = concat blocks /\
               Forall2 (fun r block => exists k, rowgetter ki r = Some k /\ block = melt_block k r pairs) rows blocks).
  { intros ki pairs khdr go out _. revert out. induction rows as [|r rest IH]; intros out Hgo.
    - cbn in Hgo. inversion Hgo. exists []. split; [reflexivity|constructor].
    - cbn [go] in Hgo. fold go in Hgo. destruct (rowgetter ki r) as [k|] eqn:Ek; [|discriminate].
      destruct (go rest) as [o e] eqn:Eo. cbv zeta in Hgo. inversion Hgo; subst; clear Hgo.
      destruct (IH o eq_refl) as [blocks [-> Hf]]. exists (melt_block k r pairs :: blocks). split; [reflexivity|].
      constructor; [exists k; auto|exact Hf]. }
  destruct key as [kk|], variables as [vv|]; try discriminate.
  all: repeat match goal with
       | |- context [match asindices ?h ?k with _ => _ end] => destruct (asindices h k); try discriminate
       end; cbv zeta.
  all: match goal with |- match rowgetter ?ki ?h with _ => _ end = _ -> _ => destruct (rowgetter ki h) as [khdr|] eqn:Ekh; [|discriminate] end.
  all: match goal with |- (let '(o, e) := ?g ?rs in _) = _ -> _ => destruct (g rs) as [o e] eqn:Ego end.
  all: intros H; inversion H; subst; clear H.
  all: match goal with
       | GG : forall ki pairs khdr, _, Hk : rowgetter ?ki _ = Some ?kh, Hg : _ = (?oo, None) |- _ =>
         match type of Hg with context [combine ?vn ?vi] =>
           let blocks := fresh "blocks" in let Hf := fresh "Hf" in
           destruct (GG ki (combine vn vi) kh oo Hk Hg) as [blocks [-> Hf]];
           exists ki, (combine vn vi), kh, blocks; auto end end.
Qed.
